"""Token zoo and construct list for the end-of-input universes of C06: every token class of every
lexer (literals with prefixes / delimiters / escapes, comments, numbers, directives, digraphs) and a
list of complete constructs.  zoo_prefixes(): the file ends after every proper prefix of every token;
pair_fragments(): a complete construct followed by every proper prefix of another one."""

ALLC = ("C", "CPP", "OC")
ZOO = [
    # (token, languages)
    ('R"tag(raw)tag"', ("CPP", "C", "OC")), ('LR"x(r)x"', ("CPP",)), ('u8R"ab(r)ab"', ("CPP", "C")), ('uR"(r)"', ("CPP",)), ('UR"q(r)q"', ("CPP",)),
    ('@R"t(r)t"', ("OC",)), ('"str\\n\\"q"', None), ("'c'", None), ("'\\''", None), ('L"w"', ALLC), ('u8"s"', ALLC), ("L'c'", ALLC), ('u"s"', ALLC),
    ('@"oc"', ("OC",)), ('@"cs ""q"" v"', ("CS",)), ('$"x{a}y"', ("CS",)), ('$@"v{a}"', ("CS",)), ('@$"v{a}"', ("CS",)),
    ('r"d\\"', ("D",)), ('`d`', ("D",)), ('q{tok}', ("D",)), ('q"(d)"', ("D",)), ('x"0A"', ("D",)), ('"s"w', ("D",)),
    ('/* c */', None), ('/** d\n * @param x\n */', None), ('// l', None), ('/// d', None), ('/+ d /+ n +/ +/', ("D",)), ('/*! q */', None),
    ('// c \\\nmore', ALLC),
    ('0x1.8p3', ALLC), ('1e+5f', None), ('0b101', None), ("1'000'000", ("CPP",)), ('1_000', ("JAVA", "CS", "D")), ('0x1L', None), ('1.5e-3L', None), ('0777u', None),
    ('<:', ALLC), ('%:%:', ALLC), ('??=', ALLC), ('<%', ALLC),
    ('#include <a.h>', ALLC), ('#include "a.h"', ALLC), ('#import <F/F.h>', ("OC",)), ('#define M(a,b) a##b', ALLC), ('#define S(a) #a', ALLC), ('#pragma region R', ALLC + ("CS",)),
    ('#region R', ("CS",)), ('#if A && (B)', ALLC + ("CS",)), ('#error "e', ALLC), ('#warning w', ALLC), ('#line 3 "f.c"', ALLC),
    ('@selector(a:)', ("OC",)), ('@[ @1 ]', ("OC",)), ('@{ @"k" : @1 }', ("OC",)), ('^{ }', ("OC", "C")), ('@property', ("OC",)), ('@"a" @"b"', ("OC",)),
    ('__attribute__((x))', ALLC), ('[[nodiscard]]', ("CPP", "C")), ('<<=', None), ('->*', ("CPP",)), ('...', None), ('operator""_x', ("CPP",)), ('operator()', ("CPP",)),
    ('\\u00e9', None), ('"""vala"""', ("VALA",)), ('@"vala $x"', ("VALA",)), ("'^n'", ("PAWN",)), ('!"s"', ("PAWN",)), ('"""\ntext\n"""', ("JAVA",)), ("'\\u0041'", ("JAVA", "CS")),
    ('@Override', ("JAVA",)), ('@interface', ("JAVA", "OC")), ('<?xml', None), ('#!shebang', None), ('\\\n', None), ('asm("nop");', ALLC), ('__asm { mov }', ALLC),
    ('template<typename T>', ("CPP",)), ('A<B<C>>', ("CPP", "JAVA", "CS")), ('a::b::~c', ("CPP",)), ('x?.y ?? z', ("CS",)), ('a => b', ("CS", "JAVA")), ('delegate(int a) { }', ("CS", "D")),
]
CONTEXTS = ["", "int a = ", "#define X ", "f(", "/* c */ "]

CONSTRUCTS = [
    "/* a */", "/** doc\n * @param x the x\n * @return y */", "/**\n * @brief b\n * @param a, b\n */", "// c", "#include <a.h>", '#include "a.h"', "#define M(a) ((a) + 1)",
    "#if A\n#endif", "int f(\n    int a,\n    int bb);", "void g() {\n    x = 1;\n}", "struct s { int a; };", "enum e { A, B };", "int t[] = { 1, 2 };",
    "x = a ? b : c;", "if (a) b; else c;", "switch (a) { case 1: break; }", "do { a; } while (b);", "for (i = 0; i < 2; i++) {}", "return (a);",
    "typedef int (*fn)(int);", "template<typename T> T f(T t);", "class A : public B { public: A(); };", "namespace n { int a; }",
    "auto l = [](int a) { return a; };", "using T = int;", "@interface A\n@end", "[o m:1 n:2];", "#pragma once", 'extern "C" { int a; }',
    'a = "s" "t";', "lbl: goto lbl;", "x = (int)y;", "try { a; } catch (...) { b; }", "int a, *b, c[2];", "a << b << c;", "#define N 1 \\\n    + 2",
]


def zoo_prefixes(lang):
    """[(label, text)] files that end inside a token of this language"""
    out = []
    for tok, langs in ZOO:
        if langs is not None and lang not in langs:
            continue
        for k in range(1, len(tok) + 1):
            for ci, cx in enumerate(CONTEXTS):
                out.append(("zoo %r[:%d] after %r" % (tok, k, cx), cx + tok[:k]))
    return out


def pair_fragments():
    """[(label, text)] a complete construct, a line break, and a proper prefix of another construct"""
    out = []
    for i, a in enumerate(CONSTRUCTS):
        for j, b in enumerate(CONSTRUCTS):
            for k in range(1, len(b) + 1):
                out.append(("pair %d|%d[:%d]" % (i, j, k), a + "\n" + b[:k]))
    return out
