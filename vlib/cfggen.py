"""Seeded random in-range configurations drawn from the real option registry."""
import re

from . import options as vopt

# options that change tokens / comments / the lexer / insert files: excluded from "whitespace-only"
NOT_WS = re.compile(r"^(mod_|cmt_|sp_cmt_cpp_|string_replace_tab_chars|disable_processing_|enable_processing_|"
                    r"processing_cmt_as_regex|pp_\w*ignore|pp_warn_unbalanced_if|tok_split_gte|utf8_|input_tab_size|"
                    r"enable_digraphs|string_escape_char|use_|warn_level_tabs_found|debug_|align_keep_extra_space|"
                    r"nl_remove_extra_newlines|newlines$|include_category_|"
                    r"output_trailspace|indent_single_newlines|indent_cs_delegate_body|pp_unbalanced_if_action)")
# count options guarded by nl_max (too_big_for_nl_max): kept small so that they never conflict
_REG = {}


def registry(unc):
    if unc not in _REG:
        _REG[unc] = vopt.registry(unc)[0]
    return _REG[unc]


def ws_options(unc):
    return [o for o in registry(unc) if not NOT_WS.match(o["name"]) and o["kind"] != "string"]


def value(rng, o, small=True):
    k = o["kind"]
    if k in vopt.ENUM_VALUES:
        return rng.choice(vopt.ENUM_VALUES[k])
    lo, hi = (o["min"], o["max"]) if o["bounded"] else (0, 8)
    if small and hi - lo > 16:
        # mostly small numbers, sometimes the extremes
        r = rng.random()
        if r < 0.8:
            return str(rng.randint(lo, min(hi, lo + 8)))
        if r < 0.9:
            return str(hi)
        return str(rng.randint(lo, hi))
    return str(rng.randint(lo, hi))


def random_ws_config(rng, unc, n=None, base=None):
    """text of a configuration that sets n random whitespace-only options"""
    opts = ws_options(unc)
    n = n if n is not None else rng.choice([3, 8, 20, 60])
    lines = list(base or [])
    for o in rng.sample(opts, min(n, len(opts))):
        if o["name"] in ("nl_max",):
            continue
        lines.append("%s=%s" % (o["name"], value(rng, o)))
    return "\n".join(lines) + "\n"


def all_iarf(unc, prefix, val, exclude=()):
    return "".join("%s=%s\n" % (o["name"], val) for o in registry(unc)
                   if o["kind"] == "iarf" and o["name"].startswith(prefix) and o["name"] not in exclude
                   and not NOT_WS.match(o["name"]))


NOT_ANY = re.compile(r"^(debug_|disable_processing_|enable_processing_|processing_cmt_as_regex|utf8_|input_tab_size|"
                     r"string_escape_char|use_options_overriding|include_category_|pp_\w*ignore|pp_unbalanced_if_action|"
                     r"pp_warn_unbalanced_if|warn_level_tabs_found|tok_split_gte|enable_digraphs|nl_max$)")


def any_options(unc):
    return [o for o in registry(unc) if not NOT_ANY.match(o["name"]) and o["kind"] != "string"]


def random_any_config(rng, unc, n=None, base=None):
    """in-range values for n random options of every kind, code-modifying and comment options included"""
    opts = any_options(unc)
    n = n if n is not None else rng.choice([3, 8, 20, 60])
    lines = list(base or [])
    for o in rng.sample(opts, min(n, len(opts))):
        lines.append("%s=%s" % (o["name"], value(rng, o)))
    return "\n".join(lines) + "\n"


def random_full_config(rng, unc, keep_default=0.0):
    """every option (debug / lexer-redefining / file-inserting ones aside) set to a random in-range value: any
    particular interaction of two or three options is present in a sizeable fraction of such configurations"""
    lines = []
    for o in any_options(unc):
        if rng.random() < keep_default:
            continue
        lines.append("%s=%s" % (o["name"], value(rng, o)))
    return "\n".join(lines) + "\n"
