"""Observation layer for the in-place file protocol (C13, C14): renders TLC-generated
histories into real files and commands, runs the real binary under strace with a kill
or an errno injected at one file-related syscall, projects the directory to abstract
contents.  No verdicts here: InPlaceTrace.tla decides."""
import hashlib
import os
import re
import shutil

from .common import sh, log

CFG = {
    "A": b"indent_columns=4\nindent_with_tabs=0\nsp_arith=remove\n",
    "B": b"indent_columns=2\nindent_with_tabs=0\nsp_arith=force\n",
}
USER = {
    "U1": b"int  main( ){\nreturn   1+2;}\n",
    "U2": b"void  f( int x ){\nif(x){x=x+1;}}\n",
    "X": b"int f( { ]\n",
}
BIG = 3  # multiply user texts so that a file spans several stdio buffers ("large" inputs)


class World:
    def __init__(self, unc, root, large=False):
        self.unc = unc
        self.root = root
        self.large = large
        os.makedirs(root, exist_ok=True)
        for k, v in CFG.items():
            open(os.path.join(root, k + ".cfg"), "wb").write(v)
        self.cont = {}
        for n, b in USER.items():
            if large and n != "X":
                # many functions: > 2 stdio buffers (4096) of output
                parts = []
                for i in range(400):
                    # blanks at the ends of the lines: the original is several buffers LONGER than its formatted text, so that
                    # a file size limit exists that cuts the backup and lets the output through
                    parts.append(b.replace(b"main", b"main%d" % i).replace(b" f(", b" f%d(" % i).replace(b"{\n", b"{" + b" " * 70 + b"\n"))
                b = b"".join(parts)
            self.cont[n] = b
        for k in "AB":
            for u in ("U1", "U2"):
                rc, out, err = sh([unc, "-c", os.path.join(root, k + ".cfg"), "-q", "-l", "C"],
                                  input=self.cont[u], timeout=60)
                if rc != 0:
                    raise RuntimeError("world: cannot format %s with %s" % (u, k))
                self.cont[k + u[1]] = out
        # closure: Fmt(k, any of the same base) is the k-formatted text
        for k in "AB":
            for n in ("U1", "U2", "A1", "A2", "B1", "B2"):
                rc, out, err = sh([unc, "-c", os.path.join(root, k + ".cfg"), "-q", "-l", "C"],
                                  input=self.cont[n], timeout=60)
                if rc != 0 or out != self.cont[k + n[1]]:
                    raise RuntimeError("world: Fmt table not closed at %s(%s)" % (k, n))
        rc, out, err = sh([unc, "-c", os.path.join(root, "A.cfg"), "-q", "-l", "C"], input=self.cont["X"], timeout=60)
        if rc == 0:
            raise RuntimeError("world: X formats")
        if len(set(self.cont.values())) != len(self.cont):
            raise RuntimeError("world: contents not distinct")
        self.byhash = {hashlib.sha1(b).hexdigest(): n for n, b in self.cont.items()}
        self.bymd5 = {hashlib.md5(b).hexdigest(): n for n, b in self.cont.items()}

    def classify(self, path):
        if not os.path.exists(path):
            return "none"
        b = open(path, "rb").read()
        return self.byhash.get(hashlib.sha1(b).hexdigest(), "part")

    def classify_md5(self, path):
        if not os.path.exists(path):
            return "none"
        b = open(path, "rb").read()
        m = re.match(rb"^([0-9a-fA-F]{32})", b)
        if not m:
            return "part"
        return self.bymd5.get(m.group(1).decode().lower(), "part")


FNAME = "d/s.c"


def paths(d):
    f = os.path.join(d, FNAME)
    return {"F": f, "T": f + ".uncrustify", "B": f + ".unc-backup~", "M": f + ".unc-backup.md5~"}


def snapshot(w, d):
    p = paths(d)
    return {"F": w.classify(p["F"]), "T": w.classify(p["T"]), "B": w.classify(p["B"]),
            "M": w.classify_md5(p["M"])}


def user_write(w, d, c):
    p = paths(d)["F"]
    os.makedirs(os.path.dirname(p), exist_ok=True)
    with open(p, "wb") as f:
        f.write(w.cont[c])


LISTFILE = "list.txt"
# other spellings of the same in-place request (the route is chosen by comparing file NAMES, so the spelling matters)
SPELLINGS = {"replace_dot": ["--replace", "./" + FNAME], "replace_dd": ["--replace", ".//" + FNAME],
             "replace_F": ["--replace", "-F", LISTFILE], "replace_Fdd": ["--replace", "-F", LISTFILE],
             "nobackup_dd": ["--no-backup", ".//" + FNAME], "nobackup_F": ["--no-backup", "-F", LISTFILE],
             "fo_dd": ["-f", FNAME, "-o", ".//" + FNAME],
             # the same requests with a debug option that writes a file of its own (--tracking ends the run behind its HTML file)
             "replace_trk": ["--replace", FNAME, "--tracking", "space:aux_trk.html"], "nobackup_trk": ["--no-backup", FNAME, "--tracking", "nl:aux_trk.html"],
             "fo_trk": ["-f", FNAME, "-o", FNAME, "--tracking", "start:aux_trk.html"],
             "replace_ic_trk": ["--replace", "--if-changed", FNAME, "--tracking", "space:aux_trk.html"],
             "replace_p": ["--replace", FNAME, "-p", "aux_parsed.txt"], "nobackup_p": ["--no-backup", FNAME, "-p", "aux_parsed.txt"]}


def run_cmd(w, k, m):
    cmd = [w.unc, "-c", os.path.join(w.root, k + ".cfg"), "-q"]
    if m == "replace":
        cmd += ["--replace", FNAME]
    elif m == "nobackup":
        cmd += ["--no-backup", FNAME]
    elif m == "fo":
        cmd += ["-f", FNAME, "-o", FNAME]
    else:
        cmd += SPELLINGS[m]
    return cmd


def prepare_spelling(d, m):
    if m in ("replace_F", "nobackup_F", "replace_Fdd"):
        with open(os.path.join(d, LISTFILE), "w") as f:
            f.write((".//" if m.endswith("dd") else "") + FNAME + "\n")


_SYS = re.compile(r"^(\w+)\((.*)$")
TRACE = "trace=openat,open,creat,read,write,close,rename,renameat,renameat2,unlink,unlinkat,newfstatat,stat,lstat,fstat,mkdir,mkdirat,utime,utimes,utimensat,futimesat"


def parse_strace(text):
    """-> list of dict(idx, name, when, path, fd, rdonly, relevant, kind) for every syscall line."""
    evs = []
    counts = {}
    fds = {}   # fd -> (path, writable)
    for line in text.split("\n"):
        m = _SYS.match(line)
        if not m:
            continue
        name, rest = m.group(1), m.group(2)
        counts[name] = counts.get(name, 0) + 1
        e = {"name": name, "when": counts[name], "path": None, "fd": None, "wr": False, "line": line[:160]}
        pm = re.search(r'"((?:[^"\\]|\\.)*)"', rest)
        ret = re.search(r"=\s*(-?\d+)", rest[rest.rfind(")"):]) if ")" in rest else None
        retv = int(ret.group(1)) if ret else None
        if name in ("openat", "open", "creat"):
            e["path"] = pm.group(1) if pm else None
            e["wr"] = ("O_WRONLY" in rest or "O_RDWR" in rest or name == "creat")
            if retv is not None and retv >= 0:
                fds[retv] = (e["path"], e["wr"])
        elif name in ("read", "write", "close", "fstat"):
            fm = re.match(r"(\d+)", rest)
            if fm:
                fd = int(fm.group(1))
                e["fd"] = fd
                if fd in fds:
                    e["path"], e["wr"] = fds[fd]
                if name == "close" and fd in fds:
                    del fds[fd]
        elif name == "newfstatat":
            fm = re.match(r"(\d+),", rest)
            if fm and pm is not None and pm.group(1) == "":
                fd = int(fm.group(1))
                e["fd"] = fd
                if fd in fds:
                    e["path"], e["wr"] = fds[fd]
                e["name2"] = "fstat"
            else:
                e["path"] = pm.group(1) if pm else None
        else:
            e["path"] = pm.group(1) if pm else None
        evs.append(e)
    return evs


def relevant(e):
    p = e.get("path")
    if p is None:
        return False
    if e["name"] in ("mkdir", "mkdirat"):
        return True
    return os.path.basename(p).startswith("s.c")


def fault_errno(e):
    """errno to inject for a fallible operation of the property's list, or None."""
    n = e["name"]
    if e.get("name2") == "fstat":
        return None
    if n in ("openat", "open", "creat"):
        return "EACCES"
    if n == "write":
        return "ENOSPC"
    if n == "close":
        return "EIO"
    if n in ("rename", "renameat", "renameat2"):
        return "EACCES"
    if n in ("mkdir", "mkdirat"):
        return "EACCES"
    return None


def benign_fault(e):
    """close() failing on a descriptor that was only read from."""
    return e["name"] == "close" and not e["wr"]


def ro_open(e):
    """a read-only open"""
    return e["name"] in ("openat", "open") and not e["wr"]


def traced_run(w, d, k, m, inject=None, timeout=30, fsize=None):
    """inject: list of strace -e inject=... expressions.  fsize: RLIMIT_FSIZE in bytes with SIGXFSZ ignored -
    the kernel's own short write (the part below the limit is written, the next write fails with EFBIG),
    set by prlimit/env, which exec the binary inside the traced process.  Returns (exit class, rc, syscalls)."""
    logp = os.path.join(d, "strace.log")
    cmd = ["strace", "-o", logp, "-e", TRACE]
    for i in inject or []:
        cmd += ["-e", "inject=" + i]
    if fsize is not None:
        cmd += ["prlimit", "--fsize=%d" % fsize, "env", "--ignore-signal=XFSZ"]
    cmd += run_cmd(w, k, m)
    prepare_spelling(d, m)
    rc, out, err = sh(cmd, timeout=timeout, cwd=d)
    text = open(logp, errors="replace").read() if os.path.exists(logp) else ""
    try:
        os.unlink(logp)
    except OSError:
        pass
    if rc == -999:
        ex = "timeout"
    elif rc == -9 or "+++ killed by SIGKILL" in text:
        ex = "killed"
    elif rc == 0:
        ex = "ok"
    else:
        ex = "fail"
    return ex, rc, parse_strace(text), err


def plain_run(w, d, k, m, timeout=30):
    prepare_spelling(d, m)
    rc, out, err = sh(run_cmd(w, k, m), timeout=timeout, cwd=d)
    return ("ok" if rc == 0 else "fail"), rc


def copy_dir(src, dst):
    shutil.rmtree(dst, ignore_errors=True)
    shutil.copytree(src, dst)
