"""The table MANIFEST.json is generated from (bin/mkmanifest)."""
TLA = "explicit TLA+ specification checked with TLC; bound to the binary by replay of TLC-generated behaviours and TLC trace validation"
ENGINES = [
    {"name": "inplace", "path": "spec/InPlaceCore.tla spec/InPlace.tla spec/InPlaceGen.tla spec/InPlaceTrace.tla vlib/inplace.py vlib/checks/inplace_engine.py",
     "serves_properties": ["C13", "C14"],
     "kind_free_text": "TLA+ model of the in-place file protocol (one step per libc file operation, kills, errno faults, user edits); TLC BFS for the design, TLC-generated histories replayed under strace with kill/errno injection at every file syscall, observed runs explained and judged by a TLC trace specification"},
]
ENGINES += [
    {"name": "driver", "path": "spec/DriverCore.tla spec/Driver.tla spec/DriverTrace.tla vlib/driver.py vlib/checks/driver_engine.py",
     "serves_properties": ["C10", "C12"],
     "kind_free_text": "TLA+ model of main()'s mode selection, legality rules and the per-file check / if-changed / write protocol; TLC enumerates every sensible command line x file-class sequence with the predicted outcome, the harness executes each and a TLC trace specification judges the observed outcome"},
    {"name": "batch", "path": "spec/BatchCore.tla spec/Batch.tla spec/BatchTrace.tla vlib/checks/c11.py",
     "serves_properties": ["C11"],
     "kind_free_text": "TLA+ model of the cross-file state of one process (which step dirties / cleans which global); TLC checks CleanStart for all class sequences; real batches are compared with single runs and their FileStart hook projections judged by the trace specification"},
]
CHECKS = [
    {"id": "C13", "engine": "inplace", "level": "fault_enumeration",
     "text": "Every kill point (before each file-related syscall of the run) and every errno fault on open/write/close/rename/mkdir (pairs in thorough) is enumerated on the real binary for every scenario class TLC generates (prior state x mode x input kind), and each observed outcome is decided by the TLC trace specification; the design itself is model-checked exhaustively (kills, <=2 faults, histories <=4).",
     "design_ref": "DESIGN.md 4/C13", "technique": TLA + " (InPlace.tla, strace injection)",
     "note": "crash = SIGKILL between syscalls (no power-loss semantics); strace -e inject must be permitted (ptrace); short writes not injectable; contents classified against reference bytes"},
    {"id": "C14", "engine": "inplace", "level": "model_checking",
     "text": "TLC checks all histories (user writes, --replace with two configs, kills, one fault) up to 7/8 steps on the model; every injection-free history up to 3/4 steps and a seeded set of histories with a run killed at every file syscall are replayed on the binary and validated step by step by the trace specification.",
     "design_ref": "DESIGN.md 4/C14", "technique": TLA + " (InPlace.tla histories)",
     "note": "md5-indistinguishable user writes are outside the universe; --replace runs only"},
]
CHECKS += [
    {"id": "C10", "engine": "driver", "level": "model_checking",
     "text": "The mode lattice (source x in-place x destination x language source x -p/csv/-q, legal and illegal) is model-checked exhaustively; every generated command line is executed with corpus files of all languages, random observer options and environments, and the delivered bytes/locations are judged against the reference run by the trace specification.",
     "design_ref": "DESIGN.md 4/C10", "technique": TLA + " (Driver.tla mode lattice)",
     "note": "reference bytes come from the same binary (mode -f to stdout); observers/environment are sampled by seed, not enumerated; valgrind is not used"},
    {"id": "C11", "engine": "batch", "level": "model_checking",
     "text": "Batch.tla is checked for all class sequences <=3 with and without -l (and the as-built variant is shown to violate CleanStart); on the binary all ordered pairs of class representatives plus seeded corpus sequences are run as batch and compared with single runs, with FileStart projections of the cross-file globals.",
     "design_ref": "DESIGN.md 4/C11", "technique": TLA + " (Batch.tla cross-file state)",
     "note": "sequences longer than 4 files and statics that are not projected by the hook are only seen through output differences"},
    {"id": "C12", "engine": "driver", "level": "model_checking",
     "text": "Every --check / --if-changed command line x every sequence (<=2 quick, <=3 thorough) over six file classes is enumerated by TLC with the predicted exit status, reports and file-system delta, executed on the binary with a directory snapshot before/after, and judged by the trace specification.",
     "design_ref": "DESIGN.md 4/C12", "technique": TLA + " (Driver.tla check/if-changed protocol)",
     "note": "file classes are established from reference bytes of the same binary; 'touched' includes mtime"},
]
ENGINES += [
    {"name": "options", "path": "spec/OptionsCore.tla spec/OptionsWords.tla spec/Options.tla spec/OptionsTrace.tla vlib/options.py vlib/checks/options_engine.py",
     "serves_properties": ["C15", "C16"],
     "kind_free_text": "character-level TLA+ transcription of split_args / process_option_line / the seven read() methods and of the saver; TLC checks round trip and bad-line laws over an abstract registry and line alphabet; over the real registry every configuration line given to the binary is also given to the model and each --update-config dump / stderr is compared by the trace specification"},
]
CHECKS += [
    {"id": "C15", "engine": "options", "level": "model_checking",
     "text": "All 857 options x every enumerated value / min / max / mid / 8 string classes / same-kind references / directive kinds, in rotating spellings, are loaded by the binary and, line by line, by the TLA+ model of the loader; dumps after load, after reloading the saved file (plain and with-doc) and after a second save are compared by TLC. The model itself satisfies RoundTrip / SaveIdempotent for all line sequences <=2 (3 thorough), and the two as-built writer variants are shown to violate it.",
     "design_ref": "DESIGN.md 4/C15", "technique": TLA + " (Options.tla loader/saver)",
     "note": "registry metadata parsed from src/options.h; formatting equivalence sampled on 3 inputs x 4 configs; 'include' is not modelled"},
    {"id": "C16", "engine": "options", "level": "model_checking",
     "text": "Every option x every applicable bad-line kind (out of range both sides, wrong type, unknown / incompatible reference, unknown name, 14 syntax errors) interleaved with good lines: the model predicts registry and diagnosed line numbers, compared with --update-config and stderr; every nl_max-guarded option above / at / without nl_max; seeded grammar- and byte-mutated configuration text must terminate without signal.",
     "design_ref": "DESIGN.md 4/C16", "technique": TLA + " (Options.tla bad-line laws)",
     "note": "mutated text is judged for crash/hang only; include cycles not modelled"},
]

ENGINES += [
    {"name": "pipeline", "path": "spec/Pipeline.tla spec/PipelineTrace.tla spec/Fusion.tla spec/FusionTrace.tla vlib/fusion.py vlib/lex.py vlib/hazard.py vlib/checks/pipeline_engine.py",
     "serves_properties": ["C02", "C03"],
     "kind_free_text": "TLA+ model of the chunk list and the pass schedule of uncrustify_file(): pass classes with contracts over six projections of the list, an abstract Render/Lex on which TLC shows that the five contract clauses imply token and comment preservation (each clause switched off yields a counterexample); Fusion.tla classifies every ordered token pair of the binary's own punctuator table against a maximal-munch lexer and the transcribed safety check of space_text(); every pair is replayed on the binary, and real runs (hook digests after each of the ~70 passes + independent lexer on input and output) are judged by the trace specifications"},
    {"name": "output", "path": "spec/Output.tla spec/OutputTrace.tla spec/StartEnd.tla vlib/checks/c17.py",
     "serves_properties": ["C17"],
     "kind_free_text": "character-level TLA+ transcription of the writer (add_char, output_to_column, newline / first-on-line / mid-line chunk handling of output_text); TLC checks IndentHygiene and NoTrailingBlank for every chunk list up to the bound and every tab policy; every output line of real runs is projected to (leading-whitespace word, line class, trailing blank) and judged with the same predicates by the trace specification"},
]
CHECKS += [
    {"id": "C02", "engine": "pipeline", "level": "model_checking",
     "text": "Fusion.tla: all ordered pairs over the punctuator table of each language plus word / number / literal / comment representatives are classified exhaustively (safe / guarded / open) and the guard invariants checked; every pair is rendered into 2-3 contexts and run with all spacing options at remove (and ignore / force), the re-lexed snippet judged by FusionTrace. Pipeline.tla: all chunk lists <= 4 x <= 2 newline edits x all gap assignments; corpus pairs, corpus inputs x seeded random whitespace configurations, and comment-dense programs x every newline / position option singly are run with the pass hooks, each pass judged against its contract class and the end-to-end token streams compared (independent lexer for the C family, uncrustify's own tokenizer on the output for all nine languages).",
     "design_ref": "DESIGN.md 4/C02", "technique": TLA + " (Fusion.tla pair classification, Pipeline.tla pass contracts)",
     "note": "token identity is by the independent lexer vlib/lex.py (C, C++, ObjC, Java, C#) used differentially; '>>' vs '> >' and '[]' vs '[ ]' are identified; whitespace-only configurations by option-name filter"},
    {"id": "C03", "engine": "pipeline", "level": "model_checking",
     "text": "Pipeline.tla CommentsPreserved is model-checked on every list <= 4 chunks containing both comment kinds; real runs: corpus pairs, corpus inputs x random whitespace configurations, generated programs with 24 comment shapes x 23 literal shapes at every marked grammar position, and comment-dense programs x every newline / position option singly; per-pass comment / string digests (mechanism) and comment / literal sequences of input vs output (property) are judged by PipelineTrace.",
     "design_ref": "DESIGN.md 4/C03", "technique": TLA + " (Pipeline.tla comment / literal clauses)",
     "note": "comment text compared modulo CmtNorm; comment- and string-rewriting options excluded as the statement says; the '*x' -> '* x' leader rewrite is a known finding"},
    {"id": "C17", "engine": "output", "level": "model_checking",
     "text": "Output.tla (the writer transcribed character by character) satisfies IndentHygiene and NoTrailingBlank for every chunk list <= 3 (4 thorough) over columns {1,2,4,5,9} and all 96 tab-policy combinations, and the variant with align_keep_tabs applied to the first chunk of a line violates it; on the binary every output line of corpus inputs with seeded dirty whitespace x a crossed tab / indent / align configuration set, dense programs x all those configurations and corpus pairs is judged with the same predicates, plus the end-of-file policy of StartEnd.tla.",
     "design_ref": "DESIGN.md 4/C17", "technique": TLA + " (Output.tla writer model)",
     "note": "line classes from the independent lexer on the output (C family); inputs that begin with a line splice and nested C# interpolated verbatim strings are skipped; comment writers are an environment of the model"},
]

ENGINES += [
    {"name": "lineend", "path": "spec/LineEnd.tla spec/LineEndTrace.tla vlib/checks/c08.py",
     "serves_properties": ["C08"],
     "kind_free_text": "TLA+ model of the terminator census (which tokenizer functions count), the choice of cpd.newline with its tie order and the writer's substitution; TLC checks OneTerminator / AutoPicksMostFrequent over all layouts (8 line kinds x 3 terminators x 4 option values) and emits them; each layout is rendered, run as is and in three converted conventions, and judged by the trace specification together with file-level commutation runs"},
    {"name": "encoding", "path": "spec/Encoding.tla spec/EncodingTrace.tla vlib/checks/c09.py",
     "serves_properties": ["C09"],
     "kind_free_text": "byte-level TLA+ transcription of decode_unicode (BOM, ASCII test, zero-count UTF-16 guess, UTF-8 and UTF-16 decoders), the encoding/BOM policy and the encoders; TLC checks NeverAltered / BomPolicy for every payload over a 20-byte alphabet in six encoding forms and all option triples, and emits each file with the predicted output bytes; the binary's bytes are compared with the prediction; exhaustive scalar sweep and transcoding commutation on the binary are judged by the trace specification"},
]
CHECKS += [
    {"id": "C08", "engine": "lineend", "level": "model_checking",
     "text": "LineEnd.tla is checked for all well-formed layouts <= 4 lines (25k states) and the census of the tree before the repair is shown to violate AutoPicksMostFrequent; all layouts <= 2 lines (3 thorough) x 4 option values plus seeded longer ones are replayed: terminators of the output, census and choice reported by the hook, and byte equality of the outputs for the LF / CRLF / CR conversions of the same layout; dense programs, comment shapes (boxed comments) and corpus files are formatted in LF, CRLF, CR and mixed conventions under lf / crlf / cr.",
     "design_ref": "DESIGN.md 4/C08", "technique": TLA + " (LineEnd.tla census / choice / writer)",
     "note": "terminators inside string literals are known not to be counted (known finding); UTF-16 inputs are left to C09"},
    {"id": "C09", "engine": "encoding", "level": "model_checking",
     "text": "Encoding.tla is checked exhaustively for payloads <= 2 bytes (3 thorough) over a 20-byte alphabet x 6 forms, and for all 16 option triples; every emitted file is run through the binary and the printed bytes are compared with the bytes the model computes (zero tolerance: any difference is reported as drift, a property violation as an alarm); the decoder without the overlong check is shown to violate NeverAltered. All Unicode scalars x 4 encodings x {comment, string} are swept on the binary (1/16 seeded + boundary blocks in quick, all in thorough) and format(transcode(x)) = transcode(format(x)) is checked on dense programs, comment shapes and corpus files.",
     "design_ref": "DESIGN.md 4/C09", "technique": TLA + " (Encoding.tla byte-level decoders / encoders)",
     "note": "UTF-8/16 arithmetic over the full scalar range is bound by exhaustive execution, TLC covers the decision tree and the boundary forms"},
]

ENGINES += [
    {"name": "region", "path": "spec/Region.tla spec/RegionTrace.tla vlib/checks/c07.py",
     "serves_properties": ["C07"],
     "kind_free_text": "line-level TLA+ machine of cpd.unc_off (marker comments, both markers in one comment, '#pragma asm' / '#asm', marker text outside a leading comment) with the writer's contract for ignored lines; TLC checks the bracketing facts for all line sequences <= 5 over 12 kinds and emits every sequence that has a region; each is rendered in several spellings and run with configurations drawn from all option kinds; region lines of input and output, the CT_IGNORED chunks of the hook and the text outside the regions after replacing their content are judged by the trace specification"},
]
CHECKS += [
    {"id": "C07", "engine": "region", "level": "model_checking",
     "text": "Region.tla model-checked over all 25k line sequences <= 5; every sequence <= 3 (4 thorough) with a region plus seeded longer ones is rendered (marker spellings, 11 raw-text shapes incl. tabs, trailing blanks, unbalanced brackets, lexer garbage, with/without final newline, top level / in a function) and run with the default and seeded configurations over ALL option kinds (mod_, cmt_, nl_, width); Verbatim (non-blank lines identical and in order, blank lines only emptied) and opacity (other region content leaves the outside unchanged) are decided by RegionTrace; IGNORED chunks of the tokenizer are compared with the model's region lines.",
     "design_ref": "DESIGN.md 4/C07", "technique": TLA + " (Region.tla unc_off machine)",
     "note": "alarms only for the documented usage (markers in comments that start their line, pragma lines on their own line); rendering in C; blank lines at the edge of a region are a known finding"},
]

ENGINES += [
    {"name": "blanklines", "path": "spec/BlankLines.tla spec/BlankLinesTrace.tla spec/StartEnd.tla vlib/checks/c20.py",
     "serves_properties": ["C20"],
     "kind_free_text": "TLA+ transcription of do_blank_lines() for one newline chunk (pretended extra line at the file edges, nl_max cap, can_increase_nl, count options) and of newlines_eat_start_end(), iterated as the newline loop does; TLC checks CapRespected, EdgeNeutral, StartEndExact and stability for all small parameter values; real outputs are measured (runs of line breaks outside comments / literals / continued directives / regions, breaks at both file ends, blank lines next to braces) and judged by the trace specification"},
    {"name": "space", "path": "spec/Space.tla spec/SpaceTrace.tla spec/Fusion.tla vlib/checks/c19.py",
     "serves_properties": ["C19"],
     "kind_free_text": "TLA+ model of the column arithmetic of space_text() and the clause each IARF value promises; every Space hook event (rule name logged by do_space, value returned, forced flag, input gap) is joined with the gap measured between the same two tokens in the output bytes and judged against the value configured for the option the rule names, MustSeparate coming from Fusion.tla's lexer"},
]
CHECKS += [
    {"id": "C20", "engine": "blanklines", "level": "model_checking",
     "text": "BlankLines.tla exhaustive over counts 0..6 x position x nl_max 0..4 x can_increase x requested count x start/end option x min (9k states) including stability under repetition, the variant that keeps the pretended line is rejected; block-structured programs with 0..6 blank lines injected at every line boundary and at both file ends are formatted under configurations that set nl_max 1..4, every blank-line count option within nl_max, the eat_blanks flags and the full start/end matrix, plus corpus pairs with nl_max added; cap, start/end and brace-adjacent blank lines are judged on the output bytes.",
     "design_ref": "DESIGN.md 4/C20", "technique": TLA + " (BlankLines.tla cap / start-end machine)",
     "note": "nl_inside_namespace and nl_inside_empty_func are treated as explicit requests for blank lines next to a brace; runs measured via the independent lexer (C family)"},
    {"id": "C19", "engine": "space", "level": "model_checking",
     "text": "Space.tla: the arithmetic realises the clause for every (value, forced, input gap, same-line) case and the variant returning another option's value is rejected. On the binary the coded joint assignments (5 runs in which any two of the 256 iarf sp_ options differ at least once) and seeded random joint assignments (thorough: every option x 4 values against a different background value) are run over spacing-dense programs and corpus inputs; each (rule, value, gap) class reported by the Space hook is joined with the gap in the output and judged by SpaceTrace.",
     "design_ref": "DESIGN.md 4/C19", "technique": TLA + " (Space.tla clause + Fusion.tla MustSeparate)",
     "note": "alignment / width / tabs off; pairs ending in a comment, pairs split over two output lines and min_sp > 1 are mechanism-only; the statement's Remove exceptions (return, case, macro name) are honoured; C and C++ inputs"},
]

ENGINES += [
    {"name": "indent", "path": "spec/Indent.tla spec/IndentTrace.tla vlib/checks/c18.py",
     "serves_properties": ["C18"],
     "kind_free_text": "TLA+ push-down grammar of block-structured programs (function, control, switch/case, case-brace, namespace, class, extern blocks) whose reachable complete states are the derivations, with the frame stack of indent_text() reduced to a closed-form column per line; TLC generates every program up to the bound (deeper ones by -simulate); each is rendered twice with different original indentation, formatted under seeded indent configurations, and the observed columns are judged by the trace specification against the structural predicates and the closed form"},
]
CHECKS += [
    {"id": "C18", "engine": "indent", "level": "model_checking",
     "text": "Indent.tla: all derivations <= 9 lines / depth 3 (12 / 4 and 4000 simulated deeper ones in thorough) are generated by TLC and the closed form is shown to satisfy SameBlockSameColumn, OneLevelDeeper, CloseBraceAligns and BracePlacement on each; every program is rendered twice with different seeded original indentation and run with seeded (indent_columns 1..8, indent_namespace / class / extern, indent_switch_case, indent_braces, indent_brace, indent_with_tabs 0..2, tab size) configurations; the columns observed in the output are judged with the same predicates (alarm) and compared with the closed form (drift, currently 0); a third rendering carries comments behind / before every line. Nest.tla adds the bodies WITHOUT braces (virtual braces): every statement tree of depth <= 2 over if / else chains, loops, do-while and try / catch / finally is written one token group per line in C, C++, Java and C# and every line must stand at 1 + indent_columns x nesting level (NestTrace).",
     "design_ref": "DESIGN.md 4/C18", "technique": TLA + " (Indent.tla grammar + closed-form columns)",
     "note": "braces on their own lines; continuation lines, labels and trailing comments excluded as in the statement; non-default brace styles are judged by their documented offsets; an 'if' that is the whole unbraced body of an 'else' continues the chain at the chain's level unless indent_else_if is set"},
]

ENGINES += [
    {"name": "mods", "path": "spec/Mods.tla spec/ModsTrace.tla vlib/checks/c04.py",
     "serves_properties": ["C04"],
     "kind_free_text": "TLA+ table of what each mod_ option may add or remove with the OnlyNamedKinds / OrderKept / Balanced predicates, and a transcription of examine_brace() over token lists with levels and virtual braces; TLC checks MeaningKept (print, re-parse with the dangling-else rule, compare trees) over all statement trees / spine trees to the bound, rejects the skip-one variant and emits its sensitivity set; every tree is rendered to C, formatted and abstracted back; files under every mod_ option are judged by the trace specification"},
]
CHECKS += [
    {"id": "C04", "engine": "mods", "level": "model_checking",
     "text": "Mods.tla: all statement trees of depth 2 and spine trees of depth 3 (4 thorough) satisfy MeaningKept and OnlyBracesGo under the transcribed examine_brace(); the variant that skips only one virtual closing brace is rejected and the trees on which it fails (depth 4) form a sensitivity set. Every emitted tree and the sensitivity set are rendered to C and run with the brace-removing options; the abstracted output is judged (meaning, kinds, balance) and compared with the braces the model removes (drift 0). Programs exercising every mod_ option x each value singly, seeded combinations and corpus pairs with mod configurations are judged for OnlyNamedKinds / OrderKept / Balanced by ModsTrace.",
     "design_ref": "DESIGN.md 4/C04", "technique": TLA + " (Mods.tla allowed-edit table + examine_brace transcription)",
     "note": "token identity by the independent lexer (C family); sorting options judged as multiset of tokens, duplicate-include removal on the set of headers; the allowed-kinds table is part of the specification"},
]

ENGINES += [
    {"name": "meaning", "path": "spec/Meaning.tla spec/MeaningTrace.tla spec/Mods.tla vlib/checks/c01.py",
     "serves_properties": ["C01"],
     "kind_free_text": "TLA+ generators of compilable programs (typed expression neighbourhoods postfix x binary x prefix x ternary; statement trees of Mods.tla incl. the sensitivity set of the dangling-else clause) and the history Compile; Format; Compile with its invariant; gcc / g++ / clang / javac observe the object code before and after formatting under core mixes, every option singly at its enumerated and boundary values, and seeded multi-option draws; MeaningTrace judges every history"},
]
CHECKS += [
    {"id": "C01", "engine": "meaning", "level": "exploration",
     "text": "1267 typed expression statements (all postfix x binary x prefix x ternary combinations) and up to 600 (6000 thorough) statement trees are generated by TLC and, with hand-written compilable C / C++ (thorough: ObjC, Java) programs, formatted under 11 core mixes (all sp_ remove / force, all nl_ remove / force, brace add / remove, width, two mod_ mixes), every option singly at its enumerated / boundary values (260 seeded in quick, all in thorough) and seeded multi-option draws; input and output are compiled (gcc/g++ -S -O1, clang, javac -g:none) and the histories judged by MeaningTrace (formatter accepts, output compiles, same object code). A violation is reported with the configuration minimised to the lines that still produce it.",
     "design_ref": "DESIGN.md 4/C01", "technique": TLA + " (Meaning.tla / Mods.tla generators, compiler as observer)",
     "note": "sampling of an infinite space with an external oracle: TLA+ contributes the generators and the acceptance; meaning = object code of the installed compilers"},
]

ENGINES += [
    {"name": "fixedpoint", "path": "spec/FixedPoint.tla spec/FixedPointTrace.tla profiles/ vlib/checks/c05.py",
     "serves_properties": ["C05"],
     "kind_free_text": "TLA+ history machine Run / Check over an abstract formatter function: with an idempotent formatter every history satisfies RunIsStable, SecondRunAccepts and CheckAfterRunPasses, without idempotence TLC produces the failing histories; observed histories (three consecutive runs plus --check, with the newline-loop exit reason from the pass hook) are judged by the trace specification"},
    {"name": "process", "path": "spec/Process.tla spec/ProcessTrace.tla vlib/checks/c06.py",
     "serves_properties": ["C06"],
     "kind_free_text": "TLA+ process protocol of one run (phases, documented refusal statuses, stdout only after all passes) with the two convergence loops; TLC checks the protocol invariants and termination under weak fairness with the width loop's progress assumption made explicit (without it: livelock); every execution on mutated, truncated and fragmentary inputs is judged by the trace specification, hangs are classified by the pass in which they spin"},
]
CHECKS += [
    {"id": "C05", "engine": "fixedpoint", "level": "exploration",
     "text": "FixedPoint.tla is model-checked over all formatter functions on 3 contents (idempotent family holds, general family yields counterexamples). On the binary, Run; Run; Run; --check histories are observed for C/C++ corpus inputs and the generated programs of the other checks under the built-in defaults and the 8 shipped styles kept in /verif/profiles (fixed point claimed; each pair unstable on the pinned tree is a listed finding), and for corpus (input, config) pairs and seeded configurations (weaker claim: the second run accepts the first run's output).",
     "design_ref": "DESIGN.md 4/C05", "technique": TLA + " (FixedPoint.tla history machine)",
     "note": "no mechanism model of why passes are idempotent: a regression is found by running it; the newline-loop bound exit is reported as a predictor"},
    {"id": "C06", "engine": "process", "level": "exploration",
     "text": "Process.tla: protocol invariants and termination (FairSpec, <>Exit) hold with the progress assumption and fail without it. About 5400 (thorough 60000+) executions: seeded truncations, bracket / quote deletions, inserted openers, swaps and byte noise of corpus files of all nine languages, 50 fragments that end inside a construct x 9 languages, dense programs under width pressure; configurations: default, shipped styles, seeded draws and configurations that set EVERY option at random (so that multi-option interactions occur); each run is judged by ProcessTrace for time limit, signal, documented status, empty stdout on failure, diagnostic unless -q; thorough runs the ASan+UBSan build.",
     "design_ref": "DESIGN.md 4/C06", "technique": TLA + " (Process.tla protocol + loop termination)",
     "note": "exploration of an infinite input space; memory safety only through the sanitizer build (thorough); 8 s time limit"},
]
_PENDING = "check not built yet in this commit (specification module planned in DESIGN.md 3.1); will be claimed when its check is quiet on the unchanged tree"
NOT_APPLICABLE = [{"property_id": "C%02d" % i, "reason": _PENDING} for i in range(1, 21) if "C%02d" % i not in {c["id"] for c in CHECKS}]
NOTES = "All checks: bin/check <ID> --tier quick|thorough; VERIF_SEED is honoured; evidence in /verif/evidence/<ID>.json; known findings in /verif/known_findings.json."
