"""The table MANIFEST.json is generated from (bin/mkmanifest)."""
TLA = "explicit TLA+ specification checked with TLC; bound to the binary by replay of TLC-generated behaviours and TLC trace validation"
ENGINES = [
    {"name": "inplace", "path": "spec/InPlaceCore.tla spec/InPlace.tla spec/InPlaceGen.tla spec/InPlaceTrace.tla vlib/inplace.py vlib/checks/inplace_engine.py",
     "serves_properties": ["C13", "C14"],
     "kind_free_text": "TLA+ model of the in-place file protocol (one step per libc file operation, kills, errno faults, user edits); TLC BFS for the design, TLC-generated histories replayed under strace with kill/errno injection at every file syscall, observed runs explained and judged by a TLC trace specification"},
]
CHECKS = [
    {"id": "C13", "engine": "inplace", "level": "fault_enumeration",
     "text": "Every kill point (before each file-related syscall of the run) and every errno fault on open/write/close/rename/mkdir (pairs in thorough) is enumerated on the real binary for every scenario class TLC generates (prior state x mode x input kind), and each observed outcome is decided by the TLC trace specification; the design itself is model-checked exhaustively (kills, <=2 faults, histories <=4).",
     "design_ref": "DESIGN.md 4/C13", "technique": TLA + " (InPlace.tla, strace injection)",
     "note": "crash = SIGKILL between syscalls (no power-loss semantics); strace -e inject must be permitted (ptrace); short writes not injectable; contents classified against reference bytes"},
    {"id": "C14", "engine": "inplace", "level": "model_checking",
     "text": "TLC checks all histories (user writes, --replace with two configs, kills, one fault) up to 7/8 steps on the model; every injection-free history up to 3/4 steps and a seeded set of histories with a run killed at every file syscall are replayed on the binary and validated step by step by the trace specification.",
     "design_ref": "DESIGN.md 4/C14", "technique": TLA + " (InPlace.tla histories)",
     "note": "md5-indistinguishable user writes are outside the universe; --replace runs only"},
]
_PENDING = "check not built yet in this commit (specification module planned in DESIGN.md 3.1); will be claimed when its check is quiet on the unchanged tree"
NOT_APPLICABLE = [{"property_id": "C%02d" % i, "reason": _PENDING} for i in range(1, 21) if "C%02d" % i not in {c["id"] for c in CHECKS}]
NOTES = "All checks: bin/check <ID> --tier quick|thorough; VERIF_SEED is honoured; evidence in /verif/evidence/<ID>.json; known findings in /verif/known_findings.json."
