"""Observation helpers shared by the text-level checks: run the (hooked) binary, read hook
events, decode bytes, split lines.  Projections only - no verdicts (DESIGN R1)."""
import json
import os

from .common import sh

# indices of a chunk record written by verif::dump_chunks
(TYPE, TEXT, NL, PP, OLINE, OCOL, OCOLEND, OPREVSP, COL, COLIND, LEVEL, BLEVEL, PPLEVEL, AFTERTAB, PARENT,
 NLCOL) = range(16)

CMT_TYPES = {"COMMENT", "COMMENT_MULTI", "COMMENT_CPP", "COMMENT_ENDIF", "COMMENT_CPP_ENDIF", "COMMENT_START",
             "COMMENT_END", "COMMENT_WHOLE", "COMMENT_EMBED"}
NL_TYPES = {"NEWLINE", "NL_CONT"}
STR_TYPES = {"STRING", "STRING_MULTI", "CHAR"}


def run(unc, args, cwd, trace=None, flags=(), timeout=60, stdin=None, env=None):
    """returns (rc, stdout, stderr, events).  rc -999 = timeout, negative = signal."""
    e = dict(env or {})
    if trace:
        if os.path.exists(trace):
            os.unlink(trace)
        e["UNC_VERIF_TRACE"] = trace
        for f in flags:
            e["UNC_VERIF_" + f] = "1"
    rc, so, se = sh([unc] + list(args), cwd=cwd, env=e, timeout=timeout, input=stdin)
    evs = []
    if trace and os.path.exists(trace):
        with open(trace, errors="replace") as f:
            for line in f:
                try:
                    evs.append(json.loads(line))
                except ValueError:
                    pass
        os.unlink(trace)
    return rc, so, se, evs


def event(evs, name):
    for e in evs:
        if e.get("e") == name:
            return e
    return None


def decode(b):
    """bytes -> text the way a reader of the file would see it (utf-8 with BOM stripped,
    utf-16 by BOM, else latin-1 so every byte is one character)."""
    if b[:3] == b"\xef\xbb\xbf":
        b = b[3:]
    if b[:2] in (b"\xff\xfe", b"\xfe\xff"):
        try:
            return b.decode("utf-16")
        except UnicodeDecodeError:
            pass
    try:
        return b.decode("utf-8")
    except UnicodeDecodeError:
        return b.decode("latin-1")


def split_lines(text):
    """[(line_without_terminator, terminator)] ; terminators '\n', '\r\n', '\r', ''"""
    out = []
    i, n, start = 0, len(text), 0
    while i < n:
        c = text[i]
        if c == "\n":
            out.append((text[start:i], "\n"))
            i += 1
            start = i
        elif c == "\r":
            if i + 1 < n and text[i + 1] == "\n":
                out.append((text[start:i], "\r\n"))
                i += 2
            else:
                out.append((text[start:i], "\r"))
                i += 1
            start = i
        else:
            i += 1
    if start < n:
        out.append((text[start:], ""))
    return out


def write(path, data):
    mode = "wb" if isinstance(data, bytes) else "w"
    with open(path, mode) as f:
        f.write(data)
