"""Hazard-directed universe derived from the clauses of Pipeline.tla: every clause names a list
edit that is only dangerous next to a particular neighbour (a '//' comment before a deleted or
moved newline, a newline inserted inside a directive, the newline in front of a '#').  The
programs below put that neighbour at *every* line break of constructs that have newline /
position options, and the configurations change one newline-affecting option at a time."""
import os

from . import cfggen, options as vopt

DENSE = {
    "CPP": """#include <a.h> // c0
#define M(x) do { f(x); /* m1 */ g(x); } while (0) // c0b
#define N(a, b) ((a) + /* m2 */ (b)) \\
    * 2 // c0c
namespace ns // c0d
{ // c0e
class K // c1
    : public B // c2
    , public C // c3
{ // c4
public: // c5
    K(int a) // c6
        : m(a) // c7
        , n(0) // c8
    { // c9
    } // c10
    K(int b, int c) : // c11
        m(b), // c12
        n(c) // c13
    {} // c14
    int f(int a, // c15
          int b) // c16
    { // c17
        int x = a + // c18
                b; // c19
        int y = a // c20
                + b; // c21
        bool z = a && // c22
                 b; // c23
        bool w = a // c24
                 || b; // c25
        x = // c26
            y; // c27
        x // c28
            = y; // c29
        if (z) // c29a
        { // c29b
            x++; // c29c
        } // c29d
        else // c29e
            y++; // c29f
        for (int i = 0; // c29g
             i < x; // c29h
             i++) // c29i
        { // c29j
            w = !w; // c29k
        } // c29l
        return z ? // c30
               x : // c31
               y; // c32
    } // c33
    enum E { A, // c34
             B // c35
             , C }; // c36
    template<typename T> // c36a
    T g(T t) const // c36b
    { return t; } // c36c
private: // c36d
    int m; // c36e
    int n; // c36f
}; // c37
} // c38
#if defined(X) // c39
int q; // c40
#else // c41
int r; // c42
#endif // c43
""",
    "C": """#include <a.h> // c0
#define M(x) do { f(x); /* m1 */ g(x); } while (0) // c0b
#define N(a, b) ((a) + /* m2 */ (b)) \\
    * 2 // c0c
struct s // c1
{ // c2
    int a; // c3
    int b; // c4
}; // c5
enum e { A, // c6
         B // c7
         , C }; // c8
static int t[] = { 1, // c9
                   2 // c10
                   , 3 }; // c11
int f(int a, // c15
      int b) // c16
{ // c17
    int x = a + // c18
            b; // c19
    int y = a // c20
            + b; // c21
    int z = a && // c22
            b; // c23
    int w = a // c24
            || b; // c25
    x = // c26
        y; // c27
    x // c28
        = y; // c29
    if (z) // c29a
    { // c29b
        x++; // c29c
    } // c29d
    else // c29e
        y++; // c29f
    while (x > 0) // c29g
        x--; // c29h
    do // c29i
    { // c29j
        w = !w; // c29k
    } while (w); // c29l
    switch (x) // c29m
    { // c29n
    case 1: // c29o
        y = 2; // c29p
        break; // c29q
    default: // c29r
        break; // c29s
    } // c29t
    return z ? // c30
           x : // c31
           y; // c32
} // c33
#if defined(X) // c39
int q; // c40
#else // c41
int r; // c42
#endif // c43
""",
    "JAVA": """package p; // c0
import java.util.List; // c1
public class A // c2
    extends B // c3
    implements C, // c4
               D // c5
{ // c6
    private int m; // c7
    @Override // c8
    public int f(int a, // c9
                 int b) // c10
        throws E // c11
    { // c12
        int x = a + // c13
                b; // c14
        int y = a // c15
                + b; // c16
        boolean z = a > 1 && // c17
                    b > 1; // c18
        if (z) // c19
        { // c20
            x++; // c21
        } // c22
        else // c23
            y++; // c24
        for (String t : list) // c25
        { // c26
            g(t); // c27
        } // c28
        try // c29
        { // c30
            g(null); // c31
        } // c32
        catch (Exception ex) // c33
        { // c34
        } // c35
        return z ? // c36
               x : // c37
               y; // c38
    } // c39
} // c40
""",
    "CS": """using System; // c0
namespace N // c1
{ // c2
    class A // c3
        : B, // c4
          C // c5
    { // c6
        int P // c7
        { // c8
            get; // c9
            set; // c10
        } // c11
        void F(int a, // c12
               int b) // c13
        { // c14
            int x = a + // c15
                    b; // c16
            bool z = a > 1 && // c17
                     b > 1; // c18
            if (z) // c19
            { // c20
                x++; // c21
            } // c22
            else // c23
                x--; // c24
            foreach (var t in list) // c25
            { // c26
                G(t); // c27
            } // c28
        } // c29
    } // c30
} // c31
""",
    "OC": """#import <F/F.h> // c0
@interface A : NSObject // c1
{ // c2
    int m; // c3
} // c4
- (void)f:(int)a // c5
     with:(id)b; // c6
@end // c7
@implementation A // c8
- (void)f:(int)a // c9
     with:(id)b // c10
{ // c11
    int x = a + // c12
            1; // c13
    [b doIt:a // c14
        and:x]; // c15
    [b z:1 // c15a
        aVeryLongSelectorPartHere:2 // c15b
        c:3]; // c15c
    if (x) // c16
    { // c17
        x++; // c18
    } // c19
} // c20
@end // c21
""",
}
EXT = {"C": ".c", "CPP": ".cpp", "JAVA": ".java", "CS": ".cs", "OC": ".m"}
# a trailing comment directly behind an operator in every column 1..24 of the comment: comment writers place these themselves
TRAILCMT = "int tc(int a, int d)\n{\n" + "".join("    a = %s / // d%d\n        2;\n    a = %s * /* e%d */ 3;\n" % ("a" * n, n, "a" * n, n) for n in range(1, 22)) + "    return a;\n}\n"



# directives between the tokens of constructs that newline options join: a directive line is a wall no token may cross
PPSPLIT = """#ifdef A
int run(int a) // p1
#else
int run(long a) // p2
#endif
{ // p3
    if (a) // p4
#ifdef B
    { // p5
        a++; // p6
    } // p7
#else
    { // p8
        a--; // p9
    } // p10
#endif
    else // p11
#pragma once
    { // p12
        a = 0; // p13
    } // p14
    return a; // p15
} // p16
static void tail(void) // p17
#pragma weak tail
{ // p18
} // p19
struct s // p20
#ifdef C
{ // p21
    int a; // p22
#else
{ // p23
    long a; // p24
#endif
}; // p25
#define XB if (x) { // pb
#define XE }
#define XD do { /* pc */ \
    // pd
#define AND &&
#define OR ||
#define EQ =
#define PLUS +
#define LT <
#define GTM(a,b) ((a)>(b)+1)
#define QM ?
#define GT >
#define CM ,
#define SH <<
#define DOT .
#define AR ->
#define AND2 &&
int v = 1 + // p26
#if D
        2 // p27
#else
        3 // p28
#endif
        ; // p29
"""


# backslash-newlines between the tokens of ordinary code (outside directives): the two lines are one logical line
SPLICE = """int \\
sz;
long \\
int slz = 1 + \\
2;
void sf(int a) { return \\
; }
int sg(int a) { return \\
a; }
double sd = 019.5 + 08.5e1 + 09. + 0778;
int sh = sizeof \\
(int) + sizeof \\
sz;
"""


def variants(lang):
    """[(name, text)]: the dense program with '//' comments, with /* */ comments, and with no comments"""
    base = DENSE[lang]
    out = [("cpp", base)]
    lines = []
    for l in base.split("\n"):
        if " // c" in l and not l.rstrip().endswith("\\"):
            i = l.index(" // c")
            lines.append(l[:i] + " /* " + l[i + 4:] + " */")
        else:
            lines.append(l)
    out.append(("cc", "\n".join(lines)))
    if lang in ("C", "CPP"):
        out.append(("tc", TRAILCMT))
        out.append(("pp", PPSPLIT))
        out.append(("sp", SPLICE))
        out.append(("ppn", "\n".join(l[:l.index(" // p")] if " // p" in l else l for l in PPSPLIT.split("\n"))))
    return out


def nl_options(unc):
    reg = cfggen.registry(unc)
    res = []
    for o in reg:
        n = o["name"]
        if cfggen.NOT_WS.match(n) or o["kind"] == "string":
            continue
        if n.startswith(("nl_", "pos_", "eat_blanks", "code_width", "ls_", "donot_add_nl")) or n in ("indent_else_if",):
            res.append(o)
    return res


def directed_configs(unc, rng, quick):
    """[(name, text)] one newline-affecting option changed at a time"""
    out = []
    opts = nl_options(unc)
    pos = [o for o in opts if o["kind"] == "tokenpos"]
    for o in pos:
        for v in vopt.ENUM_VALUES["tokenpos"]:
            if v != "ignore":
                out.append(("%s=%s" % (o["name"], v), "%s=%s\n" % (o["name"], v)))
    rest = []
    for o in opts:
        if o["kind"] == "iarf":
            for v in ("remove", "force"):
                rest.append(("%s=%s" % (o["name"], v), "%s=%s\n" % (o["name"], v)))
        elif o["kind"] == "bool":
            v = "false" if o["def"] == "true" else "true"
            rest.append(("%s=%s" % (o["name"], v), "%s=%s\n" % (o["name"], v)))
        elif o["kind"] in ("num", "unum") and o["name"] != "nl_max":
            for v in ("1", "2"):
                rest.append(("%s=%s" % (o["name"], v), "%s=%s\n" % (o["name"], v)))
    for tab in (2, 3, 4, 8):
        rest.insert(0, ("indent_cmt_with_tabs tab=%d" % tab, "indent_cmt_with_tabs=true\noutput_tab_size=%d\nalign_right_cmt_span=0\n" % tab))
    rest.append(("code_width=30", "code_width=30\n"))
    rest.append(("code_width=60", "code_width=60\nls_func_split_full=true\nls_for_split_full=true\n"))
    rest.insert(0, ("splice", "sp_before_nl_cont=remove\nindent_columns=0\nindent_with_tabs=0\n"))
    rest.insert(0, ("all nl force in macros", cfggen.all_iarf(unc, "nl_", "force") + "nl_define_macro=true\n"))
    rest.insert(0, ("all nl remove in macros", cfggen.all_iarf(unc, "nl_", "remove") + "nl_define_macro=true\n"))
    rest.append(("all nl remove", cfggen.all_iarf(unc, "nl_", "remove")))
    rest.append(("all nl force", cfggen.all_iarf(unc, "nl_", "force")))
    if quick:
        keep = [r for r in rest if r[0].startswith(("indent_cmt_with_tabs", "splice", "all nl force in", "all nl remove in"))]
        rest = [r for r in rest if not r[0].startswith(("indent_cmt_with_tabs", "splice", "all nl force in", "all nl remove in"))]
        rng.shuffle(rest)
        rest = keep + rest[:90] + [r for r in rest[90:] if r[0].startswith("all nl")]
    return out + rest


def jobs(unc, rng, quick, workdir, langs=None):
    """[(id, src, None, cfg_text, lang)]"""
    cfgs = directed_configs(unc, rng, quick)
    res = []
    for lang in (langs or list(DENSE)):
        for vn, text in variants(lang):
            src = os.path.join(workdir, "dense_%s_%s%s" % (lang, vn, EXT[lang]))
            with open(src, "w") as f:
                f.write(text)
            use = cfgs
            if quick and lang not in ("CPP", "C"):
                use = [c for i, c in enumerate(cfgs) if i % 4 == 0]
            if quick and vn == "cc":
                use = [c for i, c in enumerate(use) if i % 3 == 0]
            for name, ctext in use:
                res.append(("dense|%s|%s|%s" % (lang, vn, name), src, None, ctext, lang))
    return res
