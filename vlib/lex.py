"""obs.lex - an independent lexer for the C family (C, C++, ObjC, Java, C#), translation
phases 1-3 as far as they matter for token identity.  It is a *projection* (DESIGN R1): it
turns bytes into an abstract observation (token / comment / literal sequences with
positions); the verdict is always TLC's.  It is always used differentially - the same lexer
on the input and on the output - so an imprecision that affects both sides equally cannot
raise an alarm.

Items: (kind, text, start, end, line, pp)
  kind: 'tok' punctuator / identifier / number, 'str' string-like literal, 'chr' character
        literal, 'hdr' header-name, 'cmt_c' /* */, 'cmt_cpp' //, 'pp(' directive start,
        'pp)' directive end.
  text: the spelling with line splices removed (raw strings keep theirs)
  start/end: offsets into the decoded text; line: 1-based physical line of the first char
  pp: inside a preprocessor directive
"""

PUNCT_C = [
    "%:%:", "...", "<<=", ">>=", "->*", "<=>", "##",
    "->", "++", "--", "<<", ">>", "<=", ">=", "==", "!=", "&&", "||", "*=", "/=", "%=", "+=", "-=",
    "&=", "^=", "|=", "::", ".*",
    "{", "}", "[", "]", "#", "(", ")", ";", ":", "?", ".", "~", "!", "+", "-", "*", "/", "%", "^", "&", "|",
    "=", "<", ">", ",", "@", "$", "`", "\\",
]
_NOT_JAVA = ("<=>", ".*", "->*", "##", "%:%:")
PUNCT_JAVA = [">>>=", ">>>"] + [p for p in PUNCT_C if p not in _NOT_JAVA]
PUNCT_CS = ["??=", "?.", "??", "=>"] + [p for p in PUNCT_C if p not in _NOT_JAVA]

C_FAMILY = {"C", "CPP", "OC", "OC+", "C-Header", "JAVA", "CS"}


def _table(lang):
    if lang == "JAVA":
        t = PUNCT_JAVA
    elif lang == "CS":
        t = PUNCT_CS
    elif lang in ("C", "OC", "C-Header"):
        t = [p for p in PUNCT_C if p not in ("::", ".*", "->*", "<=>")]
    else:
        t = PUNCT_C
    by_first = {}
    for p in t:
        by_first.setdefault(p[0], []).append(p)
    for k in by_first:
        by_first[k].sort(key=lambda s: -len(s))
    return by_first


def is_punct(p, lang):
    """p is one punctuator of the language (for the languages this lexer covers)"""
    return p in [x for v in _table(lang).values() for x in v]


def is_idstart(c):
    return c.isalpha() or c == "_" or ord(c) >= 0x80


def is_idchar(c):
    return c.isalnum() or c == "_" or ord(c) >= 0x80


class Lexer:
    def __init__(self, text, lang="C"):
        self.s = text
        self.n = len(text)
        self.lang = lang
        self.has_pp = lang not in ("JAVA",)
        self.nosplice = lang in ("JAVA", "CS")
        self.strict = False
        self.tab = _table(lang)
        self.items = []
        self.i = 0
        self.line = 1
        self.in_pp = False
        self.bol = True           # only whitespace so far on this logical line
        self.pp_name = None       # directive name when it is the next token
        self.expect_hdr = False

    # -- raw access with splices ---------------------------------------------------
    def splice_len(self, i):
        """length of a backslash-newline at i (0 if none)"""
        s = self.s
        if self.nosplice:
            return 0
        if i < self.n and s[i] == "\\":
            j = i + 1
            # gcc: backslash, blanks, newline is a splice - uncrustify follows it in directives (issue #1752) but not in a
            # '//' comment, where it keeps a blank behind the backslash precisely to stop the comment from continuing
            while not self.strict and j < self.n and s[j] in " \t":
                j += 1
            if j < self.n and s[j] == "\r":
                j += 1
                if j < self.n and s[j] == "\n":
                    j += 1
                return j - i
            if j < self.n and s[j] == "\n":
                return j + 1 - i
        return 0

    def skip_splices(self):
        while True:
            k = self.splice_len(self.i)
            if not k:
                return
            self.i += k
            self.line += 1

    def cur(self):
        self.skip_splices()
        return self.s[self.i] if self.i < self.n else ""

    def peek(self, k):
        """k-th logical char after the current one (splices skipped), without moving"""
        i = self.i
        c = ""
        for _ in range(k + 1):
            while True:
                sl = self.splice_len(i)
                if not sl:
                    break
                i += sl
            if i >= self.n:
                return ""
            c = self.s[i]
            i += 1
        return c

    def adv(self):
        """consume one logical char"""
        self.skip_splices()
        c = self.s[self.i]
        self.i += 1
        if c == "\n" or (c == "\r" and not (self.i < self.n and self.s[self.i] == "\n")):
            self.line += 1
        return c

    def emit(self, kind, text, start, line):
        self.items.append((kind, text, start, self.i, line, self.in_pp))

    # -- main ------------------------------------------------------------------------
    def run(self):
        while True:
            c = self.cur()
            if c == "":
                break
            if c in "\r\n":
                if self.in_pp:
                    self.emit("pp)", "", self.i, self.line)
                    self.in_pp = False
                    self.expect_hdr = False
                self.adv()
                self.bol = True
                continue
            if c in " \t\f\v\x00\x1a":
                self.adv()
                continue
            start, line = self.i, self.line
            c1 = self.peek(1)
            if c == "/" and c1 == "*":
                self.block_comment(start, line)
                continue
            if c == "/" and c1 == "/":
                self.line_comment(start, line)
                continue
            if self.has_pp and self.bol and (c == "#" or (c == "%" and c1 == ":" and False)):
                self.in_pp = True
                self.emit("pp(", "", start, line)
                self.adv()
                self.emit("tok", "#", start, line)
                self.bol = False
                self.pp_name = True
                continue
            self.bol = False
            if self.expect_hdr and c == "<":
                self.header(start, line)
                continue
            if c == '"':
                self.string(start, line, "", '"', "str")
                continue
            if c == "'":
                self.string(start, line, "", "'", "chr")
                continue
            if c == "@" and c1 == '"' and self.lang in ("OC", "OC+", "CS"):
                self.adv()
                if self.lang == "CS":
                    self.verbatim(start, line, "@")
                else:
                    self.string(start, line, "@", '"', "str")
                continue
            if self.lang == "CS" and ((c == "$" and c1 == "@") or (c == "@" and c1 == "$")) and self.peek(2) == '"':
                self.adv()
                self.adv()
                self.verbatim(start, line, c + c1)
                continue
            if c == "$" and c1 == '"' and self.lang == "CS":
                self.adv()
                self.string(start, line, "$", '"', "str")
                continue
            if c.isdigit() or (c == "." and c1.isdigit()):
                self.number(start, line)
                continue
            if is_idstart(c):
                self.word(start, line)
                continue
            # punctuator, maximal munch
            cands = self.tab.get(c, ())
            for p in cands:
                if all(self.peek(k) == p[k] for k in range(1, len(p))):
                    for _ in p:
                        self.adv()
                    self.emit("tok", p, start, line)
                    break
            else:
                self.adv()
                self.emit("tok", c, start, line)
            self.pp_name = None
        if self.in_pp:
            self.emit("pp)", "", self.i, self.line)
            self.in_pp = False
        return self.items

    def block_comment(self, start, line):
        s = self.s
        j = s.find("*/", self.i + 2)   # splices are irrelevant inside (a spliced '*\<nl>/' is pathological)
        end = self.n if j < 0 else j + 2
        txt = s[self.i:end]
        self.line += txt.count("\n") + sum(1 for k, ch in enumerate(txt) if ch == "\r" and txt[k + 1:k + 2] != "\n")
        self.i = end
        self.emit("cmt_c", txt, start, line)

    def line_comment(self, start, line):
        out = []
        self.strict = True
        try:
            self._line_comment_body(out)
        finally:
            self.strict = False
        txt = self.s[start:self.i]
        self.emit("cmt_cpp", txt, start, line)

    def _line_comment_body(self, out):
        while True:
            c = self.cur()
            if c == "" or c in "\r\n":
                break
            # keep the splice visible in the text of a // comment (it is part of the comment)
            out.append(self.adv())

    def header(self, start, line):
        out = []
        while True:
            c = self.cur()
            if c == "" or c in "\r\n":
                break
            out.append(self.adv())
            if c == ">":
                break
        self.emit("hdr", "".join(out), start, line)
        self.expect_hdr = False

    def string(self, start, line, prefix, q, kind):
        out = [prefix, self.adv()]
        while True:
            c = self.cur()
            if c == "" or c in "\r\n":
                break      # unterminated: ends at end of line (same on both sides)
            out.append(self.adv())
            if c == "\\":
                c2 = self.cur()
                if c2 != "" and c2 not in "\r\n":
                    out.append(self.adv())
                continue
            if c == q:
                break
        # ud-suffix / ObjC nothing
        # a user-defined-literal suffix is left as its own token: 'operator "" _x' and 'operator ""_x' are the same declaration
        self.emit(kind, "".join(out), start, line)

    def verbatim(self, start, line, prefix):
        # C# @"..." : "" is an escaped quote, newlines allowed, no splices
        s = self.s
        j = self.i + 1
        while j < self.n:
            if s[j] == '"':
                if j + 1 < self.n and s[j + 1] == '"':
                    j += 2
                    continue
                j += 1
                break
            j += 1
        txt = s[self.i:j]
        self.line += txt.count("\n")
        self.i = j
        self.emit("str", prefix + txt, start, line)

    def raw_string(self, start, line, prefix):
        # at the opening quote of R"delim( ... )delim"
        s = self.s
        p = s.find("(", self.i)
        if p < 0 or p - self.i > 18:
            return False
        delim = s[self.i + 1:p]
        if any(ch in delim for ch in ' ()\\\t\n\r"'):
            return False
        close = ")" + delim + '"'
        j = s.find(close, p)
        end = self.n if j < 0 else j + len(close)
        txt = s[self.i:end]
        self.line += txt.count("\n")
        self.i = end
        self.emit("str", prefix + txt, start, line)
        return True

    def number(self, start, line):
        out = [self.adv()]
        while True:
            c = self.cur()
            if c == "":
                break
            if c in "eEpP" and self.peek(1) in "+-" and self.peek(1) != "":
                # exponent sign belongs to the pp-number only for e/E, and p/P in hex floats
                prev = "".join(out)
                ishex = prev[:2] in ("0x", "0X")
                if (c in "eE" and not ishex) or (c in "pP" and ishex):
                    out.append(self.adv())
                    out.append(self.adv())
                    continue
            if c.isalnum() or c == "_" or c == ".":
                out.append(self.adv())
                continue
            if c == "'" and self.lang in ("CPP", "OC+") and self.peek(1).isalnum():
                out.append(self.adv())
                continue
            break
        self.emit("tok", "".join(out), start, line)
        self.pp_name = None

    def word(self, start, line):
        out = []
        while True:
            c = self.cur()
            if c and is_idchar(c):
                out.append(self.adv())
            else:
                break
        w = "".join(out)
        c = self.cur()
        if self.lang in ("JAVA", "CS"):
            self.emit("tok", w, start, line)      # no encoding prefixes in these languages
            self.pp_name = None
            return
        if c == '"' and (w in ("L", "u", "U", "u8") or (self.lang in ("CPP", "OC+") and w in ("R", "LR", "uR", "UR", "u8R"))):
            if w.endswith("R"):
                if self.raw_string(start, line, w):
                    self.pp_name = None
                    return
            self.string(start, line, w, '"', "str")
            self.pp_name = None
            return
        if c == "'" and w in ("L", "u", "U", "u8"):
            self.string(start, line, w, "'", "chr")
            self.pp_name = None
            return
        self.emit("tok", w, start, line)
        if self.pp_name:
            if w in ("include", "include_next", "import"):
                self.expect_hdr = True
        self.pp_name = None


def lex(text, lang="C"):
    return Lexer(text, lang).run()


# ------------------------------------------------------------------------------------
# projections

def norm_angle(tokens):
    """lexical equivalence the languages define themselves: a run of '>' closing templates
    may be written '>>' or '> >'; '[' ']' vs '[]'.  Split on both sides."""
    out = []
    for t in tokens:
        if t in (">>", ">>>"):
            out.extend([">"] * len(t))
        elif t in (">>=", ">>>="):
            out.extend([">"] * (len(t) - 2))
            out.append(">=")
        elif t == "[]":
            out.extend(["[", "]"])
        elif t.startswith('@"') or t.startswith("@'"):
            out.extend(["@", t[1:]])                  # ObjC / C#: '@ "s"' and '@"s"' are the same literal
        else:
            out.append(t)
    return out


def token_stream(items, with_pp=True):
    """non-comment tokens with directive boundary markers"""
    out = []
    for k, t, s, e, ln, pp in items:
        if k in ("tok", "str", "chr", "hdr"):
            out.append(t)
        elif with_pp and k == "pp(":
            out.append("<PP>")
        elif with_pp and k == "pp)":
            out.append("</PP>")
    return norm_angle(out)


def comment_norm(kind, text):
    """CmtNorm of DESIGN C03: per continuation line strip leading blanks/tabs, a repeated
    '//' leader, and trailing blanks; terminators normalised."""
    t = text.replace("\r\n", "\n").replace("\r", "\n")
    lines = t.split("\n")
    out = []
    for idx, l in enumerate(lines):
        l = l.rstrip(" \t")
        if idx > 0:
            l = l.lstrip(" \t")
            if kind == "cmt_cpp" and l.startswith("//"):
                l = l[2:].lstrip(" \t")
        out.append(l)
    return "\n".join(out)


def comments(items):
    return [comment_norm(k, t) for k, t, s, e, ln, pp in items if k in ("cmt_c", "cmt_cpp")]


def literals(items):
    return [t for k, t, s, e, ln, pp in items if k in ("str", "chr", "hdr")]
