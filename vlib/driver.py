"""Observation layer for the command-line driver (C10, C11, C12): renders a model command
line record into a real command, runs it in a scratch directory, and projects exit status,
stdout/stderr reports and the directory delta into the abstract outcome DriverTrace.tla
judges.  No verdicts here."""
import hashlib
import os
import re
import shutil

from .common import sh

CFG_TEXT = b"indent_columns=4\nindent_with_tabs=0\nnewlines=lf\nnl_start_of_file=ignore\nnl_end_of_file=ignore\n"

# concrete C files per class; verified against the real binary when a World is built
CLASS_SRC = {
    "fmt": b"int main()\n{\n    return 1;\n}\n",
    "unf": b"int  main( ){\nreturn   1;}\n",
    "last": b"int a;\r",          # CR -> LF under newlines=lf: same size, last byte differs
    "first": b"\rint a;\n",        # leading CR -> LF: same size, first byte differs
    "empty": b"",
    "bad": b"int f( { ]\n",
}


def sha(b):
    return hashlib.sha1(b).hexdigest()


class FileSpec:
    def __init__(self, name, src, fmt, cls, lang=None):
        self.name, self.src, self.fmt, self.cls, self.lang = name, src, fmt, cls, lang


def ref_format(unc, cfg, name, src, lang=None, cwd=None, timeout=60):
    """Reference bytes: a plain run on a file of that name, output on stdout."""
    d = cwd
    p = os.path.join(d, name)
    os.makedirs(os.path.dirname(p) or d, exist_ok=True)
    open(p, "wb").write(src)
    cmd = [unc, "-c", cfg, "-q", "-f", name]
    if lang:
        cmd += ["-l", lang]
    rc, out, err = sh(cmd, cwd=d, timeout=timeout)
    os.unlink(p)
    return rc, out


def classify_class(src, rc, fmt):
    if rc != 0:
        return "bad"
    if src == b"":
        return "empty" if fmt == b"" else "unf"
    if fmt == src:
        return "fmt"
    if len(fmt) == len(src):
        diff = [i for i in range(len(src)) if src[i] != fmt[i]]
        if diff == [len(src) - 1]:
            return "last"
        if diff == [0]:
            return "first"
    return "unf"


def make_class_files(unc, root, enc=None, extra_cfg=None, extra_files=None):
    """-> (cfg path, {class: (src, fmt)}) ; raises if a class does not behave as named.
    enc: None (ASCII) or a Python codec with BOM ("utf-16"): the same texts in that encoding
    (classes that depend on a single differing byte are dropped)."""
    os.makedirs(root, exist_ok=True)
    cfg = os.path.join(root, "drv.cfg")
    open(cfg, "wb").write(CFG_TEXT + (extra_cfg or b""))
    for n_, b_ in (extra_files or {}).items():
        open(os.path.join(root, n_), "wb").write(b_)
    out = {}
    for c, src in CLASS_SRC.items():
        if enc or extra_cfg:
            if c in ("last", "first") or (extra_cfg and c == "empty"):
                continue
            if src and c != "bad" and enc:
                src = src.decode().encode(enc)
        if extra_cfg and c == "fmt":
            # the configuration adds text of its own: the formatted class is what a first run makes of the unformatted file
            rc0, src = ref_format(unc, cfg, "probe.c", CLASS_SRC["unf"], cwd=root)
        rc, fmt = ref_format(unc, cfg, "probe.c", src, cwd=root)
        got = classify_class(src, rc, fmt)
        if got != c:
            raise RuntimeError("class file %s behaves as %s" % (c, got))
        out[c] = (src, fmt if rc == 0 else b"")
    return cfg, out


def render(unc, cfg, a, files, obs=()):
    """-> (argv, stdin bytes or None, list_file_text or None)."""
    cmd = [unc, "-c", cfg]
    if a["quiet"]:
        cmd.append("-q")
    if a["check"]:
        cmd.append("--check")
    if a["ifc"]:
        cmd.append("--if-changed")
    if a["inplace"] == "replace":
        cmd.append("--replace")
    elif a["inplace"] == "nobackup":
        cmd.append("--no-backup")
    if a["lang"] == "l":
        cmd += ["-l", files[0].lang or "C"]
    elif a["lang"] == "assume":
        cmd += ["--assume", files[0].name]
    if a["dest"] == "o":
        cmd += ["-o", "O.out"]
    elif a["dest"] == "osame":
        cmd += ["-o", files[0].name]
    elif a["dest"] == "prefix":
        cmd += ["--prefix", "P"]
    elif a["dest"] == "suffix":
        cmd += ["--suffix", ".SFX"]
    if a["pfile"]:
        # -p FILE and --dump-steps PREFIX obey the same rule (single-file modes only)
        if "ds_for_p" in obs and not a["csv"]:
            cmd += ["--dump-steps", "aux_ds"]
        else:
            cmd += ["-p", "aux_p.txt"]
    if a["csv"]:
        cmd.append("--debug-csv-format")
    for o in obs:
        if o == "L" and "LA" not in obs:        # one -L per command line: the value of a second one is taken for a file name
            cmd += ["-L", "1-9,20-30"]
        elif o == "LA":
            cmd += ["-L", "A"]
        elif o == "s":
            cmd.append("-s")
    stdin = None
    lst = None
    # the same files spelled differently ('./F', './/F'): the spelling is not part of (bytes, language, configuration, file name)
    sp = "./" if "dot" in obs else (".//" if "dd" in obs else "")
    if sp and a["dest"] == "osame":
        cmd[cmd.index("-o") + 1] = sp + files[0].name
    if a["src"] == "stdin":
        stdin = files[0].src
    elif a["src"] == "f":
        cmd += ["-f", sp + files[0].name]
    elif a["src"] == "pos":
        cmd += [sp + f.name for f in files]
    elif a["src"] == "F":
        lst = "".join(sp + f.name + "\n" for f in files)
        cmd += ["-F", "aux_list.txt"]
    return cmd, stdin, lst


def snap(d):
    out = {}
    for root, dirs, fs in os.walk(d):
        for f in fs:
            p = os.path.join(root, f)
            rel = os.path.relpath(p, d)
            if rel.startswith("aux_"):
                continue
            st = os.stat(p)
            out[rel] = (sha(open(p, "rb").read()), st.st_mtime_ns, st.st_size)
    return out


def kind_of(rel, files):
    """path -> (kind, index) in the model's vocabulary"""
    for i, f in enumerate(files, 1):
        n = f.name
        if rel == n:
            return "self", i
        if rel == n + ".uncrustify":
            return "defsuffix", i
        if rel == n + ".unc-backup~":
            return "backup", i
        if rel == n + ".unc-backup.md5~":
            return "md5", i
        if rel == os.path.join("P", n):
            return "prefix", i
        if rel == n + ".SFX":
            return "suffix", i
    if rel == "O.out":
        return "O", 1
    return "stray:" + rel, 0


def content_of(kind, b, f):
    if kind == "md5":
        m = re.match(rb"^([0-9a-f]{32})", b)
        if m:
            h = m.group(1).decode()
            if h == hashlib.md5(f.fmt).hexdigest():
                return "fmt"
            if h == hashlib.md5(f.src).hexdigest():
                return "src"
        return "other"
    if b == f.fmt:
        return "fmt"
    if b == f.src:
        return "src"
    if f.fmt.startswith(b) or f.cls == "bad":
        return "trunc"
    return "other"


def execute(unc, cfg, a, files, d, obs=(), env=None, timeout=60, cwd_sub=None):
    """Run one invocation in directory d (created fresh).  Returns the observed outcome."""
    shutil.rmtree(d, ignore_errors=True)
    os.makedirs(d)
    for f in files:
        if a["src"] != "stdin":
            p = os.path.join(d, f.name)
            os.makedirs(os.path.dirname(p), exist_ok=True)
            open(p, "wb").write(f.src)
            os.utime(p, ns=(10**18, 10**18))
    cmd, stdin, lst = render(unc, cfg, a, files, obs)
    if lst is not None:
        open(os.path.join(d, "aux_list.txt"), "w").write(lst)
    # a file that the configuration names relative to ITSELF (cmt_insert_file_header = aux_hdr.txt next to the config file): a
    # same-named file with other text in the working directory must not be taken instead
    if os.path.exists(os.path.join(os.path.dirname(cfg), "aux_hdr.txt")) and os.path.dirname(cfg) != d:
        open(os.path.join(d, "aux_hdr.txt"), "w").write("/* decoy header from the working directory */\n")
    before = snap(d)
    rc, out, err = sh(cmd, cwd=d, input=stdin if stdin is not None else b"", timeout=timeout, env=env)
    after = snap(d)
    touched = []
    for rel in sorted(set(before) | set(after)):
        if before.get(rel) == after.get(rel):
            continue
        kind, i = kind_of(rel, files)
        if rel in after:
            b = open(os.path.join(d, rel), "rb").read()
            c = content_of(kind, b, files[i - 1]) if i else "other"
        else:
            c = "deleted"
        touched.append([kind, i, c])
    passes, fails = [], []
    names = {f.name: i for i, f in enumerate(files, 1)}
    if a["src"] == "stdin":
        names["stdin"] = 1
    for line in (out + b"\n" + err).split(b"\n"):
        # the report follows the formatted bytes on stdout: after UTF-16LE text the line starts with the NUL of the last 0a 00
        m = re.match(rb"^\x00?(PASS|FAIL): (\S+) ", line)
        if m:
            i = names.get(m.group(2).decode("latin-1"), 0)
            if i:
                (passes if m.group(1) == b"PASS" else fails).append(i)
    so = []
    if not a["check"]:
        if out:
            hit = [i for i, f in enumerate(files, 1) if out == f.fmt]
            so = hit[:1] if hit else [0]
    else:
        for i, f in enumerate(files, 1):
            if len(f.fmt) > 0 and f.fmt in out:
                so.append(i)
    return {"exit": rc, "pass": passes, "fail": fails, "touched": touched, "stdout": so,
            "cmd": cmd[1:], "stderr_tail": err[-300:].decode("latin-1"), "stdout_len": len(out)}
