"""PpIndent (extra, DESIGN.md 0.6) - directive indentation at file level, PpIndent.tla replayed into the binary."""
import json
import os
import re
import shutil

from .. import obs
from ..common import pmap_proc, tlc_retry, write_ndjson, sh, SPEC

LEVEL = "model_checking"
IC = 4
WORD = {"if": "if A%d", "else": "else", "endif": "endif", "define": "define D%d 1", "include": "include <h%d.h>", "pragma": "pragma once"}


def render(prog, in_col, in_gap):
    out = []
    for i, k in enumerate(prog):
        if k == "code":
            out.append("int v%d;" % i)
        else:
            w = WORD[k]
            out.append(" " * (in_col - 1) + "#" + " " * in_gap + (w % i if "%d" in w else w))
    return "\n".join(out) + "\n"


def _job(a):
    unc, tmp, i, c = a
    src = os.path.join(tmp, "p%d.c" % i)
    cfg = os.path.join(tmp, "p%d.cfg" % i)
    obs.write(src, render(c["prog"], c["inCol"], c["inGap"]))
    obs.write(cfg, "pp_indent=%s\npp_indent_count=%d\npp_space_after=%s\npp_space_count=%d\npp_if_indent_code=%s\nindent_columns=%d\nindent_with_tabs=0\nnl_max=0\n" % (
        c["pi"], c["pc"], c["sa"], c["sc"], str(c["ic"]).lower(), IC))
    rc, so, se = sh([unc, "-c", cfg, "-q", "-l", "C", "-f", src], cwd=tmp, timeout=20)
    os.unlink(src)
    os.unlink(cfg)
    cols = []
    if rc == 0:
        lines = [l for l in obs.decode(so).split("\n") if l.strip()]
        if len(lines) != len(c["prog"]):
            rc = 97
        else:
            for l in lines:
                col = len(l) - len(l.lstrip(" ")) + 1
                m = re.match(r" *#( *)", l)
                cols.append([col, len(m.group(1)) if m else 0])
    return dict(c, id="pp|%d" % i, rc=rc, cols=cols)


def run(ctx):
    quick = ctx.tier == "quick"
    unc = ctx.unc()
    r = tlc_retry("PpIndent", "PpIndent", workers=8, timeout=900)
    ctx.add_tlc(r)
    if r.error:
        ctx.error("PpIndent: " + r.error)
    elif r.violation:
        ctx.model_violation("PpIndent", "PpIndent", r)
    d = os.path.join(ctx.work.path, "spec")
    os.makedirs(d, exist_ok=True)
    shutil.copy(os.path.join(SPEC, "PpIndent.tla"), d)
    open(os.path.join(d, "PpGen.cfg"), "w").write("SPECIFICATION Spec\nCONSTANTS\n  MaxLines = %d\n  MaxDepth = 3\n  Counts = {1}\n  SpaceCounts = {0}\n  IndentColumns = 4\n"
                                                  "  InCols = {1}\n  InGaps = {0}\n  Emit = TRUE\nINVARIANTS EmitProg\nCHECK_DEADLOCK FALSE\n" % (8 if quick else 9))
    rg = tlc_retry("PpIndent", "PpGen", cwd=d, workers=1, timeout=1800)
    if rg.error:
        ctx.error("PpGen: " + rg.error)
    progs = {tuple(e["prog"]) for e in rg.emitted}
    progs = sorted(progs, key=lambda p: (len(p), p))
    ctx.cov["programs_from_tlc"] = len(progs)
    ctx.rng.shuffle(progs)
    cases = []
    iarf = ["ignore", "add", "remove", "force"]
    for k, p in enumerate(progs[:1500 if quick else 40000]):
        for rep in range(2):
            cases.append({"prog": list(p), "pi": iarf[(k + rep) % 4], "pc": ctx.rng.choice([1, 2, 3, 4]), "sa": iarf[(k // 4 + 2 * rep) % 4], "sc": ctx.rng.choice([0, 1, 2]),
                          "ic": ctx.rng.random() < 0.4, "inCol": ctx.rng.choice([1, 3, 6]), "inGap": ctx.rng.choice([0, 1, 3])})
    tmp = ctx.work.sub("pp")
    evs = pmap_proc(_job, [(unc, tmp, i, c) for i, c in enumerate(cases)], nproc=14)
    ctx.cov["evaluations"] = len(evs)
    ok = [e for e in evs if e["rc"] == 0]
    ctx.cov["runs_comparable"] = len(ok)
    tp = os.path.join(ctx.work.path, "pp.ndjson")
    write_ndjson(tp, ok)
    rt = tlc_retry("PpIndentTrace", "PpIndentTrace", env={"TRACE": tp}, workers=1, timeout=3000, xmx="8g")
    if rt.error:
        ctx.error("PpIndentTrace: " + rt.error)
    else:
        if rt.violation and rt.violation[0] == "postcondition":
            ctx.error("PpIndentTrace: trace not consumed to the end")
        elif rt.violation:
            ctx.error("PpIndentTrace: %s" % (rt.violation,))
        ctx.cov["traces_validated_against_impl"] = len(ok)
        byid = {e["id"]: e for e in ok}
        for rep in rt.emitted:
            e = byid[rep["id"]]
            opts = {k: e[k] for k in ("pi", "pc", "sa", "sc", "ic", "inCol", "inGap")}
            for b in rep["bad"]:
                ctx.violation("%s|%s|%s" % (b, ",".join(e["prog"]), json.dumps(opts, sort_keys=True)),
                              "%s violated: program %s with %s: (column, gap) per line %s, closed form %s" % (b, e["prog"], opts, e["cols"], rep.get("expected")),
                              {"kind": "ppindent", "case": {k: e[k] for k in ("prog", "pi", "pc", "sa", "sc", "ic", "inCol", "inGap")}})
            for dn in rep["drift"]:
                ctx.drift.append({"module": "PpIndent", "kind": dn, "prog": e["prog"], "opts": opts, "observed": e["cols"], "expected": rep.get("expected")})
    ctx.cov["columns_differing_from_model"] = len(ctx.drift)
    ctx.cov["distinct_nontrivial"] = len({(tuple(e["prog"]), e["pi"], e["pc"], e["sa"], e["sc"], e["ic"]) for e in ok})
    ctx.cov["rule"] = ("PpIndent.tla: every well-nested file-level program <= 6 lines x all option values model-checked for the contracts; programs "
                       "<= %d lines (depth <= 3) emitted by TLC, each rendered with seeded input columns / gaps and formatted under rotating "
                       "pp_indent / pp_space_after values and seeded counts; (column, gap) of every line judged by the contracts and compared "
                       "with the closed form" % (8 if quick else 9))
    ctx.assumptions += ["file level only (brace level 0), no #if spanning the whole file", "not one of the listed properties"]
