"""NlBrace (extra, DESIGN.md 0.6) - newline options with an obvious site, NlBrace.tla replayed into the binary."""
import json
import os
import shutil

from .. import obs, lex
from ..common import pmap_proc, tlc_retry, write_ndjson, sh, SPEC

LEVEL = "model_checking"
# site -> (language, text before the pair, first token, second token, text after); %s between the two is the gap under test
SITES = {
    "nl_if_brace": ("C", "void f(int a)\n{\n    if (a)", "{", "\n        a++;\n    }\n}\n"),
    "nl_else_brace": ("C", "void f(int a)\n{\n    if (a)\n    {\n        a++;\n    }\n    else", "{", "\n        a--;\n    }\n}\n"),
    "nl_elseif_brace": ("C", "void f(int a)\n{\n    if (a)\n    {\n        a++;\n    }\n    else if (a > 2)", "{", "\n        a--;\n    }\n}\n"),
    "nl_for_brace": ("C", "void f(int a)\n{\n    for (;;)", "{", "\n        a++;\n    }\n}\n"),
    "nl_while_brace": ("C", "void f(int a)\n{\n    while (a)", "{", "\n        a--;\n    }\n}\n"),
    "nl_do_brace": ("C", "void f(int a)\n{\n    do", "{", "\n        a--;\n    }\n    while (a);\n}\n"),
    "nl_switch_brace": ("C", "void f(int a)\n{\n    switch (a)", "{", "\n    case 1:\n        break;\n    }\n}\n"),
    "nl_fdef_brace": ("C", "void f(int a)", "{", "\n    a++;\n}\n"),
    "nl_struct_brace": ("C", "struct s", "{", "\n    int a;\n};\n"),
    "nl_union_brace": ("C", "union u", "{", "\n    int a;\n};\n"),
    "nl_enum_brace": ("C", "enum e", "{", "\n    A, B\n};\n"),
    "nl_class_brace": ("CPP", "class K", "{", "\npublic:\n    int a;\n};\n"),
    "nl_namespace_brace": ("CPP", "namespace n", "{", "\nint a;\n}\n"),
    "nl_try_brace": ("CPP", "void f(int a)\n{\n    try", "{", "\n        a++;\n    }\n    catch (...)\n    {\n    }\n}\n"),
    "nl_catch_brace": ("CPP", "void f(int a)\n{\n    try\n    {\n        a++;\n    }\n    catch (...)", "{", "\n        a--;\n    }\n}\n"),
    "nl_brace_else": ("C", "void f(int a)\n{\n    if (a)\n    {\n        a++;\n    }", "else", "\n    {\n        a--;\n    }\n}\n"),
    "nl_brace_while": ("C", "void f(int a)\n{\n    do\n    {\n        a--;\n    }", "while", " (a);\n}\n"),
    "nl_brace_catch": ("CPP", "void f(int a)\n{\n    try\n    {\n        a++;\n    }", "catch", " (...)\n    {\n    }\n}\n"),
    "nl_else_if": ("C", "void f(int a)\n{\n    if (a)\n    {\n        a++;\n    }\n    else", "if", " (a > 2)\n    {\n        a--;\n    }\n}\n"),
}
MARK = {"none": "", "c": " /* m */", "cpp": " // m"}


def render(c):
    lang, pre, second, post = SITES[c["site"]]
    gap = MARK[c["mid"]] + ("\n    " if c["inNl"] else " ")
    return lang, pre + gap + second + post, pre, second


def _job(a):
    unc, tmp, i, c = a
    lang, text, pre, second = render(c)
    src = os.path.join(tmp, "n%d%s" % (i, ".c" if lang == "C" else ".cpp"))
    cfg = os.path.join(tmp, "n%d.cfg" % i)
    obs.write(src, text)
    obs.write(cfg, "%s=%s\n" % (c["site"], c["v"]))
    rc, so, se = sh([unc, "-c", cfg, "-q", "-l", lang, "-f", src], cwd=tmp, timeout=20)
    os.unlink(src)
    os.unlink(cfg)
    ev = dict(c, id="%s|%s|%s|%s" % (c["site"], c["v"], c["inNl"], c["mid"]), rc=rc, outNl=False, glued=False)
    if rc == 0:
        out = obs.decode(so)
        # the pair: the last token of 'pre' and the first occurrence of the second token behind it, by the independent lexer
        n_pre = len([t for t in lex.lex(pre, lang) if t[0] == "tok"])
        toks_in = [t for t in lex.lex(text, lang) if t[0] == "tok"]
        toks = [t for t in lex.lex(out, lang) if t[0] == "tok"]
        if [t[1] for t in toks] != [t[1] for t in toks_in]:
            ev["glued"] = True
        else:
            first, sec = toks[n_pre - 1], toks[n_pre]
            ev["outNl"] = sec[4] != first[4]
    return ev


def run(ctx):
    unc = ctx.unc()
    r = tlc_retry("NlBrace", "NlBrace", workers=2, timeout=300)
    ctx.add_tlc(r)
    if r.error:
        ctx.error("NlBrace: " + r.error)
    elif r.violation:
        ctx.model_violation("NlBrace", "NlBrace", r)
    rv = tlc_retry("NlBrace", "NlBrace_acrosscpp", workers=2, timeout=300)
    ctx.cov["variant_rejected"] = {"Remove deletes the break behind a C++ comment": bool(rv.violation)}
    if not rv.violation:
        ctx.error("vacuity: removing across a C++ comment keeps the second token")
    d = os.path.join(ctx.work.path, "spec")
    os.makedirs(d, exist_ok=True)
    shutil.copy(os.path.join(SPEC, "NlBrace.tla"), d)
    t = open(os.path.join(SPEC, "NlBrace.cfg")).read().replace("Emit = FALSE", "Emit = TRUE").replace("INVARIANTS Good", "INVARIANTS EmitCase")
    open(os.path.join(d, "NlBraceGen.cfg"), "w").write(t)
    rg = tlc_retry("NlBrace", "NlBraceGen", cwd=d, workers=1, timeout=300)
    if rg.error:
        ctx.error("NlBraceGen: " + rg.error)
    cases = [c for c in rg.emitted if c["site"] in SITES]
    ctx.cov["cases_from_tlc"] = len(cases)
    tmp = ctx.work.sub("nlbrace")
    evs = pmap_proc(_job, [(unc, tmp, i, c) for i, c in enumerate(cases)], nproc=14)
    ctx.cov["evaluations"] = len(evs)
    tp = os.path.join(ctx.work.path, "nlbrace.ndjson")
    write_ndjson(tp, evs)
    rt = tlc_retry("NlBraceTrace", "NlBraceTrace", env={"TRACE": tp}, workers=1, timeout=600)
    if rt.error:
        ctx.error("NlBraceTrace: " + rt.error)
    else:
        if rt.violation and rt.violation[0] == "postcondition":
            ctx.error("NlBraceTrace: trace not consumed to the end")
        ctx.cov["traces_validated_against_impl"] = len(evs)
        byid = {e["id"]: e for e in evs}
        for rep in rt.emitted:
            e = byid[rep["id"]]
            for b in rep["bad"]:
                ctx.violation("%s|%s" % (b, e["id"]), "%s violated: %s=%s, pair on %s in the input with %s between: on %s in the output%s" % (
                    b, e["site"], e["v"], "two lines" if e["inNl"] else "one line", {"none": "nothing", "c": "a C comment", "cpp": "a C++ comment"}[e["mid"]],
                    "two lines" if e["outNl"] else "one line", " (token stream changed)" if e["glued"] else ""), {"kind": "nlbrace", "case": {k: e[k] for k in ("site", "v", "inNl", "mid")}})
            for dn in rep["drift"]:
                ctx.drift.append({"module": "NlBrace", "kind": dn, "id": e["id"], "outNl": e["outNl"]})
    ctx.cov["layouts_differing_from_model"] = len(ctx.drift)
    ctx.cov["distinct_nontrivial"] = len({e["id"] for e in evs if e["rc"] == 0 and e["v"] != "ignore"})
    ctx.cov["rule"] = ("NlBrace.tla: %d sites x 4 values x input layouts (one line / two lines / C comment / C++ comment between) model-checked and every "
                       "case replayed with that one option set; the pair is located in the output by the independent lexer" % len(SITES))
    ctx.assumptions += ["every other option at its default", "not one of the listed properties: an extension of the specification to the newline options"]
