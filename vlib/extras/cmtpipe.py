"""CmtPipe (extra, DESIGN.md 0.6) - indent_comment() followed by align_right_comments() as CmtPipe.tla, replayed into the binary,
first and second run."""
import json
import os
import shutil

from .. import obs
from ..common import pmap_proc, tlc_retry, write_ndjson, sh, SPEC

LEVEL = "model_checking"
INDENT = 5


def render(prog):
    out = ["void f(void)", "{"]
    for i, ln in enumerate(prog):
        if ln["k"] == "code":
            out.append(" " * (INDENT - 1 + ln["d"]) + "f" * (ln["w"] - 3) + "();" + (" " * ln["g"] + "// t%d" % i if ln["tc"] else ""))
        else:
            out.append(" " * (ln["o"] - 1) + "// c%d" % i)
        out += [""] * (ln["nl"] - 1)
    out.append("}")
    return "\n".join(out) + "\n"


def _job(a):
    unc, tmp, i, c = a
    src = os.path.join(tmp, "i%d.c" % i)
    cfg = os.path.join(tmp, "i%d.cfg" % i)
    obs.write(src, render(c["prog"]))
    obs.write(cfg, "indent_comment_align_thresh=%d\nindent_comment=%s\nindent_col1_comment=%s\nalign_right_cmt_span=%d\nalign_right_cmt_gap=%d\nindent_columns=4\nindent_with_tabs=0\nnl_max=0\n"
              "eat_blanks_before_close_brace=false\neat_blanks_after_open_brace=false\n" % (c["thresh"], str(c["ic"]).lower(), str(c["c1"]).lower(), c["span"], c["mingap"]))
    rc, so, se = sh([unc, "-c", cfg, "-q", "-l", "C", "-f", src], cwd=tmp, timeout=20)

    def columns(text):
        body = [l for l in obs.decode(text).split("\n")[2:] if l.strip() and l.strip() != "}"]
        if len(body) != len(c["prog"]):
            return None
        res = []
        for l, ln in zip(body, c["prog"]):
            k = l.find("//")
            if (ln["k"] == "cmt" or ln["tc"]) != (k >= 0):
                return None
            res.append(k + 1 if k >= 0 else 0)
        return res
    cols, again = [], []
    if rc == 0:
        cols = columns(so)
        if cols is None:
            rc, cols = 97, []
        else:
            obs.write(src, so)
            rc2, so2, se2 = sh([unc, "-c", cfg, "-q", "-l", "C", "-f", src], cwd=tmp, timeout=20)
            again = (columns(so2) or []) if rc2 == 0 else []
    os.unlink(src)
    os.unlink(cfg)
    return {"id": "i|%d" % i, "rc": rc, "prog": c["prog"], "thresh": c["thresh"], "ic": c["ic"], "c1": c["c1"], "span": c["span"], "mingap": c["mingap"], "cols": cols, "again": again}


def run(ctx):
    quick = ctx.tier == "quick"
    unc = ctx.unc()
    r = tlc_retry("CmtPipe", "CmtPipe", workers=8, timeout=900)
    ctx.add_tlc(r)
    if r.error:
        ctx.error("CmtIndent: " + r.error)
    elif r.violation:
        ctx.model_violation("CmtPipe", "CmtPipe", r)
    rs = tlc_retry("CmtPipe", "CmtPipe_stable", workers=4, timeout=300)
    ctx.cov["model_says_second_run_can_move_a_comment"] = bool(rs.violation)
    d = os.path.join(ctx.work.path, "spec")
    os.makedirs(d, exist_ok=True)
    shutil.copy(os.path.join(SPEC, "CmtPipe.tla"), d)
    hdr = "SPECIFICATION Spec\nCONSTANTS\n  Indent = %d\n  Emit = TRUE\n" % INDENT
    small = "  MaxLines = 3\n  Widths = {4, 8}\n  Shifts <- DefShifts\n  Gaps = {1, 4}\n  CmtCols = {1, 5, 7, 9, 13, 17}\n  Breaks = {1, 2}\n  Threshs = {0, 3}\n  Spans = {0, 3}\n  MinGaps = {0, 2}\n"
    if quick:
        small = "  MaxLines = 3\n  Widths = {4, 8}\n  Shifts <- DefShifts\n  Gaps = {1}\n  CmtCols = {1, 5, 9, 13}\n  Breaks = {1, 2}\n  Threshs = {3}\n  Spans = {0, 3}\n  MinGaps = {0, 2}\n"
    big = "  MaxLines = 7\n  Widths = {4, 6, 11}\n  Shifts <- WideShifts\n  Gaps = {1, 2, 6}\n  CmtCols = {1, 3, 5, 6, 8, 11, 14, 16, 21}\n  Breaks = {1, 2}\n  Threshs = {0, 3, 6}\n  Spans = {1, 3, 4}\n  MinGaps = {0, 1, 3}\n"
    open(os.path.join(d, "CiGen.cfg"), "w").write(hdr + small + "INVARIANTS EmitCase\nCHECK_DEADLOCK FALSE\n")
    rg = tlc_retry("CmtPipe", "CiGen", cwd=d, workers=1, timeout=3000, xmx="8g")
    if rg.error:
        ctx.error("CiGen: " + rg.error)
    cases = list(rg.emitted)
    ctx.cov["programs_from_tlc"] = len(cases)
    open(os.path.join(d, "CiSim.cfg"), "w").write(hdr + big + "INVARIANTS EmitCase Good\nCHECK_DEADLOCK FALSE\n")
    rsim = tlc_retry("CmtPipe", "CiSim", cwd=d, workers=4, simulate=400 if quick else 4000, depth=8, seed=ctx.seed, timeout=1800)
    if rsim.error:
        ctx.error("CiSim: " + rsim.error)
    elif rsim.violation:
        ctx.model_violation("CmtPipe", "CiSim", rsim)
    deep = [e for e in rsim.emitted if len(e["prog"]) >= 4]
    ctx.cov["programs_from_simulation"] = len(deep)
    unstable = [e for e in cases + deep if e["again"] != e["cols"]]
    ctx.cov["programs_predicted_unstable_by_tlc"] = len(unstable)
    ctx.rng.shuffle(cases)
    ctx.rng.shuffle(deep)
    ctx.rng.shuffle(unstable)
    pick = cases[:2000 if quick else 50000] + deep[:1500 if quick else 40000] + unstable[:800 if quick else 20000]
    pick = [{k: c[k] for k in ("prog", "thresh", "ic", "c1", "span", "mingap")} for c in pick]
    tmp = ctx.work.sub("ci")
    evs = pmap_proc(_job, [(unc, tmp, i, c) for i, c in enumerate(pick)], nproc=14)
    ctx.cov["evaluations"] = len(evs)
    ok = [e for e in evs if e["rc"] == 0]
    ctx.cov["runs_comparable"] = len(ok)
    tp = os.path.join(ctx.work.path, "ci.ndjson")
    write_ndjson(tp, ok)
    rt = tlc_retry("CmtPipeTrace", "CmtPipeTrace", env={"TRACE": tp}, workers=1, timeout=3000, xmx="8g")
    if rt.error:
        ctx.error("CmtPipeTrace: " + rt.error)
    else:
        if rt.violation and rt.violation[0] == "postcondition":
            ctx.error("CmtPipeTrace: trace not consumed to the end")
        elif rt.violation:
            ctx.error("CmtPipeTrace: %s" % (rt.violation,))
        ctx.cov["traces_validated_against_impl"] = len(ok)
        byid = {e["id"]: e for e in ok}
        for rep in rt.emitted:
            e = byid[rep["id"]]
            opts = {k: e[k] for k in ("thresh", "ic", "c1", "span", "mingap")}
            for b in rep["bad"]:
                ctx.violation("%s|%s" % (b, json.dumps([e["prog"], opts], sort_keys=True)),
                              "%s violated: program %s with %s: comment columns %s, machine %s" % (b, e["prog"], opts, e["cols"], rep.get("expected")),
                              {"kind": "cmtindent", "case": e})
            for dn in rep["drift"]:
                ctx.drift.append({"module": "CmtPipe", "kind": dn, "prog": e["prog"], "opts": opts, "observed": e["cols"], "expected": rep.get("expected"),
                                  "again_observed": e["again"], "again_expected": rep.get("again")})
    ctx.cov["columns_differing_from_model"] = sum(1 for x in ctx.drift if x["kind"] == "ColumnsAsModel")
    tw = [e for e in ok if e["again"]]
    ctx.cov["formatted_twice"] = len(tw)
    ctx.cov["second_run_moved_a_comment"] = sum(1 for e in tw if e["again"] != e["cols"])
    ctx.cov["second_run_differs_from_model"] = sum(1 for x in ctx.drift if x["kind"] == "SecondRunAsModel")
    ctx.cov["distinct_nontrivial"] = len({json.dumps([e["prog"], e["thresh"], e["ic"], e["c1"], e["span"], e["mingap"]]) for e in ok})
    ctx.cov["rule"] = ("CmtPipe.tla: indent_comment() transcribed; every program <= 3 lines (code lines of 2 widths x 2 original shifts with / without a trailing "
                       "comment, own-line comments in 6 original columns, 2 break counts) x thresh {0, 3, 8} x indent_comment x indent_col1_comment model-checked "
                       "for the contracts and emitted; deeper programs by TLC simulation; each rendered as a function body with '//' comments and formatted twice; "
                       "the comment columns of both runs are judged by the contracts and compared with the machine's")
    ctx.assumptions += ["'//' comments, one brace level, indent_single_line_comments_before / _after at 0, no trailing-comment alignment",
                        "not one of the listed properties: an extension of the specification to indent_comment_align_thresh / indent_comment / indent_col1_comment"]
