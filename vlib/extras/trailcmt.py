"""TrailCmt (extra, DESIGN.md 0.6) - alignment of trailing comments (src/align/trailing_comments.cpp) as TrailCmt.tla,
replayed into the binary; the second run over the binary's own output is compared with the model's as well."""
import json
import os
import re
import shutil

from .. import obs
from ..common import pmap_proc, tlc_retry, write_ndjson, sh, SPEC

LEVEL = "model_checking"
TAB = 4


def render(prog):
    out = ["void f(void)", "{"]
    for i, ln in enumerate(prog):
        code = "f" * (ln["w"] - 3) + "();"
        out.append("    " + code + (" " * ln["g"] + "// c%d" % i if ln["cmt"] else ""))
        out += [""] * (ln["nl"] - 1)
    out.append("}")
    return "\n".join(out) + "\n"


def _job(a):
    unc, tmp, i, c = a
    src = os.path.join(tmp, "t%d.c" % i)
    cfg = os.path.join(tmp, "t%d.cfg" % i)
    obs.write(src, render(c["prog"]))
    obs.write(cfg, "align_right_cmt_span=%d\nalign_right_cmt_gap=%d\nalign_right_cmt_at_col=%d\nalign_on_tabstop=%s\nindent_columns=4\nindent_with_tabs=0\n"
              "output_tab_size=%d\nnl_max=0\neat_blanks_before_close_brace=false\neat_blanks_after_open_brace=false\n" % (
                  c["span"], c["mingap"], c["atcol"], str(c["tabstop"]).lower(), TAB))
    rc, so, se = sh([unc, "-c", cfg, "-q", "-l", "C", "-f", src], cwd=tmp, timeout=20)

    def columns(text):
        body = [l for l in obs.decode(text).split("\n")[2:] if l.strip() and l.strip() != "}"]
        if len(body) != len(c["prog"]):
            return None
        res = []
        for l, ln in zip(body, c["prog"]):
            k = l.find("//")
            if ln["cmt"] != (k >= 0):
                return None
            res.append(k + 1 if k >= 0 else 0)
        return res
    cols, again = [], []
    if rc == 0:
        cols = columns(so)
        if cols is None:
            rc, cols = 97, []
        elif c.get("twice"):
            obs.write(src, so)
            rc2, so2, se2 = sh([unc, "-c", cfg, "-q", "-l", "C", "-f", src], cwd=tmp, timeout=20)
            again = (columns(so2) or []) if rc2 == 0 else []
    os.unlink(src)
    os.unlink(cfg)
    return {"id": "t|%d" % i, "rc": rc, "prog": c["prog"], "span": c["span"], "mingap": c["mingap"], "atcol": c["atcol"], "tabstop": c["tabstop"],
            "cols": cols, "again": again}


def run(ctx):
    quick = ctx.tier == "quick"
    unc = ctx.unc()
    r = tlc_retry("TrailCmt", "TrailCmt", workers=8, timeout=900)
    ctx.add_tlc(r)
    if r.error:
        ctx.error("TrailCmt: " + r.error)
    elif r.violation:
        ctx.model_violation("TrailCmt", "TrailCmt", r)
    rn = tlc_retry("TrailCmt", "TrailCmt_nothing", workers=4, timeout=300)
    rs = tlc_retry("TrailCmt", "TrailCmt_stable", workers=4, timeout=300)
    ctx.cov["variant_rejected"] = {"no comment is ever moved": bool(rn.violation)}
    ctx.cov["model_says_second_run_can_move_a_comment"] = bool(rs.violation)
    if not rn.violation:
        ctx.error("vacuity: no program within the bounds has a comment moved")
    d = os.path.join(ctx.work.path, "spec")
    os.makedirs(d, exist_ok=True)
    shutil.copy(os.path.join(SPEC, "TrailCmt.tla"), d)
    hdr = "SPECIFICATION Spec\nCONSTANTS\n  Indent = 5\n  TabStops = {TRUE, FALSE}\n  TabSize = %d\n  Emit = TRUE\n" % TAB
    small = "  MaxLines = 3\n  Widths = {4, 7, 12}\n  Gaps = {1, 2, 5}\n  Breaks = {1, 2}\n  Spans = {0, 1, 2, 3}\n  MinGaps = {0, 2, 3}\n  AtCols = {0, 12, 24}\n"
    if quick:
        small = "  MaxLines = 3\n  Widths = {4, 12}\n  Gaps = {1, 3}\n  Breaks = {1, 2}\n  Spans = {0, 2, 3}\n  MinGaps = {0, 2}\n  AtCols = {0, 12}\n"
    big = "  MaxLines = 7\n  Widths = {4, 6, 9, 14, 20}\n  Gaps = {1, 2, 3, 6, 10}\n  Breaks = {1, 2, 3}\n  Spans = {1, 2, 3, 4}\n  MinGaps = {0, 1, 2, 4}\n  AtCols = {0, 10, 17, 30}\n"
    open(os.path.join(d, "TcGen.cfg"), "w").write(hdr + small + "INVARIANTS EmitCase\nCHECK_DEADLOCK FALSE\n")
    rg = tlc_retry("TrailCmt", "TcGen", cwd=d, workers=1, timeout=3000, xmx="8g")
    if rg.error:
        ctx.error("TcGen: " + rg.error)
    cases = list(rg.emitted)
    ctx.cov["programs_from_tlc"] = len(cases)
    open(os.path.join(d, "TcSim.cfg"), "w").write(hdr + big + "INVARIANTS EmitCase Good\nCHECK_DEADLOCK FALSE\n")
    rsim = tlc_retry("TrailCmt", "TcSim", cwd=d, workers=4, simulate=500 if quick else 5000, depth=8, seed=ctx.seed, timeout=1800)
    if rsim.error:
        ctx.error("TcSim: " + rsim.error)
    elif rsim.violation:
        ctx.model_violation("TrailCmt", "TcSim", rsim)
    deep = [e for e in rsim.emitted if len(e["prog"]) >= 4]
    ctx.cov["programs_from_simulation"] = len(deep)
    open(os.path.join(d, "TcUnst.cfg"), "w").write(hdr + small + "INVARIANTS EmitUnstable\nCHECK_DEADLOCK FALSE\n")
    ru = tlc_retry("TrailCmt", "TcUnst", cwd=d, workers=1, timeout=3000, xmx="8g")
    unstable = [dict(e, twice=True) for e in ru.emitted]
    ctx.cov["programs_predicted_unstable_by_tlc"] = len(unstable)
    ctx.rng.shuffle(cases)
    ctx.rng.shuffle(deep)
    ctx.rng.shuffle(unstable)
    pick = [dict(c, twice=(k % 5 == 0)) for k, c in enumerate(cases[:2500 if quick else 60000] + deep[:2000 if quick else 40000])] + unstable[:1000 if quick else 30000]
    tmp = ctx.work.sub("tc")
    evs = pmap_proc(_job, [(unc, tmp, i, c) for i, c in enumerate(pick)], nproc=14)
    ctx.cov["evaluations"] = len(evs)
    ok = [e for e in evs if e["rc"] == 0]
    ctx.cov["runs_comparable"] = len(ok)
    tp = os.path.join(ctx.work.path, "tc.ndjson")
    write_ndjson(tp, ok)
    rt = tlc_retry("TrailCmtTrace", "TrailCmtTrace", env={"TRACE": tp}, workers=1, timeout=3000, xmx="8g")
    if rt.error:
        ctx.error("TrailCmtTrace: " + rt.error)
    else:
        if rt.violation and rt.violation[0] == "postcondition":
            ctx.error("TrailCmtTrace: trace not consumed to the end")
        elif rt.violation:
            ctx.error("TrailCmtTrace: %s" % (rt.violation,))
        ctx.cov["traces_validated_against_impl"] = len(ok)
        byid = {e["id"]: e for e in ok}
        for rep in rt.emitted:
            e = byid[rep["id"]]
            opts = {k: e[k] for k in ("span", "mingap", "atcol", "tabstop")}
            for b in rep["bad"]:
                ctx.violation("%s|%s" % (b, json.dumps([e["prog"], opts], sort_keys=True)),
                              "%s violated: program %s with %s: comment columns %s, machine %s" % (b, e["prog"], opts, e["cols"], rep.get("expected")),
                              {"kind": "trailcmt", "case": e})
            for dn in rep["drift"]:
                ctx.drift.append({"module": "TrailCmt", "kind": dn, "prog": e["prog"], "opts": opts, "observed": e["cols"], "expected": rep.get("expected"),
                                  "again_observed": e["again"], "again_expected": rep.get("again")})
    ctx.cov["columns_differing_from_model"] = sum(1 for x in ctx.drift if x["kind"] == "ColumnsAsModel")
    tw = [e for e in ok if e["again"]]
    ctx.cov["formatted_twice"] = len(tw)
    ctx.cov["second_run_moved_a_comment"] = sum(1 for e in tw if e["again"] != e["cols"])
    ctx.cov["second_run_differs_from_model"] = sum(1 for x in ctx.drift if x["kind"] == "SecondRunAsModel")
    ctx.cov["distinct_nontrivial"] = len({json.dumps([e["prog"], e["span"], e["mingap"], e["atcol"], e["tabstop"]]) for e in ok})
    ctx.cov["rule"] = ("TrailCmt.tla: align_right_comments() transcribed; every program <= 3 lines over 3 code widths x 3 input gaps x 2 break counts x span 0..3 x "
                       "gap {0, 2, 3} x at_col {0, 12, 24} x align_on_tabstop model-checked for the contracts and emitted; deeper programs by TLC simulation; "
                       "each rendered as statements of a function body with '//' comments, formatted, the comment columns judged by the contracts and compared "
                       "with the machine's; the programs on which the machine says a second run moves a comment again are formatted twice")
    ctx.assumptions += ["statement lines of one brace level, '//' comments, sp_before_tr_cmt at its default (the input's blanks are kept)",
                        "not one of the listed properties: an extension of the specification to the align_right_cmt_* options"]
