"""Programs of the pass-level modules (Align.tla, TrailCmt.tla, CmtIndent.tla) for other checks: TLC emits them over small
alphabets, the modules' own renderers turn them into C text.  C05 formats them twice under every profile."""
import os
import shutil

from ..common import tlc_retry, SPEC
from . import align as xa, trailcmt as xt, cmtindent as xc, nlbrace as xn, ppindent as xp

GEN = {
    "Align": ("SPECIFICATION Spec\nCONSTANTS\n  Indent = 5\n  TabStops = {FALSE}\n  TabSize = 4\n  Emit = TRUE\n  MaxLines = 3\n  Widths = {1, 4, 8}\n  Lens = {1, 2}\n"
              "  Breaks = {1, 2}\n  Spans = {1}\n  Threshs = {0}\nINVARIANTS EmitCase\nCHECK_DEADLOCK FALSE\n", lambda e: xa.render(e["prog"], "func")),
    "TrailCmt": ("SPECIFICATION Spec\nCONSTANTS\n  Indent = 5\n  TabStops = {FALSE}\n  TabSize = 4\n  Emit = TRUE\n  MaxLines = 3\n  Widths = {4, 7, 12}\n  Gaps = {1, 2, 5}\n"
                 "  Breaks = {1, 2}\n  Spans = {3}\n  MinGaps = {0}\n  AtCols = {0}\nINVARIANTS EmitCase\nCHECK_DEADLOCK FALSE\n", lambda e: xt.render(e["prog"])),
    "CmtIndent": ("SPECIFICATION Spec\nCONSTANTS\n  Indent = 5\n  Emit = TRUE\n  MaxLines = 3\n  Widths = {4, 8}\n  Shifts <- DefShifts\n  Gaps = {1, 4}\n"
                  "  CmtCols = {1, 5, 7, 9, 13, 17}\n  Breaks = {1, 2}\n  Threshs = {3}\nINVARIANTS EmitCase\nCHECK_DEADLOCK FALSE\n", lambda e: xc.render(e["prog"])),
}
GEN["NlBrace"] = (open(os.path.join(SPEC, "NlBrace.cfg")).read().replace("Emit = FALSE", "Emit = TRUE").replace("INVARIANTS Good", "INVARIANTS EmitCase"),
                  lambda e: xn.render(e)[1])
GEN["PpIndent"] = ("SPECIFICATION Spec\nCONSTANTS\n  MaxLines = 7\n  MaxDepth = 2\n  Counts = {1}\n  SpaceCounts = {0}\n  IndentColumns = 4\n  InCols = {1, 3}\n  InGaps = {0, 2}\n"
                   "  Emit = TRUE\nINVARIANTS EmitProg\nCHECK_DEADLOCK FALSE\n", lambda e: xp.render(e["prog"], 1 + 2 * (len(e["prog"]) % 2), len(e["prog"]) % 3))
# the invariants that say "a second run of this pass moves nothing" in the region of option values the profiles stay in
STABLE = {
    "Align": ("Align", "thresh = 0 or no align_keep_extra_space (StableWithoutThresh in Align.cfg; the tighten step of Add())"),
    "TrailCmt": (None, "align_right_cmt_gap <= 1: Stable under MinGaps = {0}, AtCols = {0}"),
    "CmtIndent": ("CmtIndent", "built-in comment options (StableByDefault in CmtIndent.cfg)"),
}


def programs(ctx):
    """[(name, text)] distinct rendered programs of the three modules; ctx.cov gets the TLC counts"""
    d = os.path.join(ctx.work.path, "passspec")
    os.makedirs(d, exist_ok=True)
    out = []
    for mod, (cfg, render) in GEN.items():
        shutil.copy(os.path.join(SPEC, mod + ".tla"), d)
        open(os.path.join(d, mod + "P.cfg"), "w").write(cfg)
        r = tlc_retry(mod, mod + "P", cwd=d, workers=1, timeout=1800, xmx="6g")
        if r.error:
            ctx.error("%sP: %s" % (mod, r.error))
            continue
        seen = set()
        for e in r.emitted:
            t = render(e)
            if t not in seen:
                seen.add(t)
                out.append(("%s%d" % (mod.lower(), len(seen)), t))
        ctx.cov["pass_programs_%s" % mod] = len(seen)
    return out


def stable_region(ctx):
    """model-check the fixed-point invariants of the pass modules in the profiles' region of option values"""
    res = {}
    d = os.path.join(ctx.work.path, "passspec")
    os.makedirs(d, exist_ok=True)
    for mod in ("Align", "CmtIndent"):
        r = tlc_retry(mod, mod, workers=4, timeout=900)
        res[mod] = "holds" if not (r.error or r.violation) else "FAILS"
    shutil.copy(os.path.join(SPEC, "TrailCmt.tla"), d)
    open(os.path.join(d, "TcStable.cfg"), "w").write("SPECIFICATION Spec\nCONSTANTS\n  Indent = 5\n  TabStops = {TRUE, FALSE}\n  TabSize = 4\n  Emit = FALSE\n  MaxLines = 3\n"
                                                     "  Widths = {4, 7, 12}\n  Gaps = {1, 2, 5}\n  Breaks = {1, 2}\n  Spans = {0, 1, 2, 3}\n  MinGaps = {0, 1}\n  AtCols = {0}\n"
                                                     "INVARIANTS Stable\nCHECK_DEADLOCK FALSE\n")
    r = tlc_retry("TrailCmt", "TcStable", cwd=d, workers=4, timeout=900)
    res["TrailCmt"] = "holds" if not (r.error or r.violation) else "FAILS"
    return res
