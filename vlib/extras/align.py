"""Align (extra, DESIGN.md 0.6) - the AlignStack of src/align/stack.cpp as Align.tla, replayed into the binary."""
import json
import os
import re
import shutil

from .. import obs
from ..common import pmap_proc, tlc_retry, write_ndjson, sh, SPEC

LEVEL = "model_checking"
OPS = {1: "=", 2: "+=", 3: "<<="}
TAB = 4


def name(i, w):
    return "abcdefghijklmnop"[i % 16] if w < 2 else ("v%d" % i).ljust(w, "x")[:w]


def render(prog, how):
    if how == "func":
        out = ["void f(void)", "{"]
        for i, ln in enumerate(prog):
            out.append("    %s %s %d;" % (name(i, ln["w"]), OPS[ln["len"]], i) if ln["asg"] else "    g%d();" % i)
            out += [""] * (ln["nl"] - 1)
        out.append("}")
    else:
        out = ["enum E", "{"]
        for i, ln in enumerate(prog):
            out.append("    %s = %d," % (name(i, ln["w"]).upper(), i) if ln["asg"] else "    K%d," % i)
            out += [""] * (ln["nl"] - 1)
        out.append("};")
    return "\n".join(out) + "\n"


def _job(a):
    unc, tmp, i, c, how = a
    src = os.path.join(tmp, "a%d.c" % i)
    cfg = os.path.join(tmp, "a%d.cfg" % i)
    obs.write(src, render(c["prog"], how))
    pre = "align_assign" if how == "func" else "align_enum_equ"
    obs.write(cfg, ("%s_span=%d\n%s_thresh=%d\nalign_on_tabstop=%s\nindent_columns=4\nindent_with_tabs=0\noutput_tab_size=%d\nnl_max=0\n"
                    "eat_blanks_before_close_brace=false\neat_blanks_after_open_brace=false\n" % (pre, c["span"], pre, c["thresh"], str(c["tabstop"]).lower(), TAB))
              + ("align_keep_extra_space=true\n" if c.get("keep") else ""))
    rc, so, se = sh([unc, "-c", cfg, "-q", "-l", "C", "-f", src], cwd=tmp, timeout=20)

    def columns(text):
        body = [l for l in obs.decode(text).split("\n")[2:] if l.strip() and l.strip() not in ("}", "};")]
        if len(body) != len(c["prog"]):
            return None
        res = []
        for l, ln in zip(body, c["prog"]):
            m = re.search(r"(<<=|\+=|=)", l) if ln["asg"] else None
            res.append(m.start() + 1 if m else 0)
        return res
    cols = []
    again = []
    if rc == 0:
        cols = columns(so)
        if cols is None:
            rc, cols = 97, []
        elif c.get("twice"):
            # the binary formats its own output once more (sp_assign = ignore keeps the blanks the first run wrote)
            obs.write(src, so)
            rc2, so2, se2 = sh([unc, "-c", cfg, "-q", "-l", "C", "-f", src], cwd=tmp, timeout=20)
            again = (columns(so2) or []) if rc2 == 0 else []
    os.unlink(src)
    os.unlink(cfg)
    return {"id": "%s|%d" % (how, i), "how": how, "rc": rc, "prog": c["prog"], "span": c["span"], "thresh": c["thresh"], "tabstop": c["tabstop"], "cols": cols,
            "again": again, "keep": bool(c.get("keep"))}


def run(ctx):
    quick = ctx.tier == "quick"
    unc = ctx.unc()
    r = tlc_retry("Align", "Align", workers=8, timeout=900)
    ctx.add_tlc(r)
    if r.error:
        ctx.error("Align: " + r.error)
    elif r.violation:
        ctx.model_violation("Align", "Align", r)
    rv = tlc_retry("Align", "Align_noreadd", workers=8, timeout=900)
    ctx.cov["variant_rejected"] = {"entries that failed the threshold are never looked at again": bool(rv.violation)}
    if not rv.violation:
        ctx.error("vacuity: the skipped list never decides a column within the bounds")
    d = os.path.join(ctx.work.path, "spec")
    os.makedirs(d, exist_ok=True)
    shutil.copy(os.path.join(SPEC, "Align.tla"), d)
    hdr = "SPECIFICATION Spec\nCONSTANTS\n  Indent = 5\n  TabStops = {TRUE, FALSE}\n  TabSize = %d\n  Emit = TRUE\n" % TAB
    open(os.path.join(d, "AlignGen.cfg"), "w").write(hdr + "  MaxLines = 3\n  Widths = {1, 4, 8}\n  Lens = {1, 2}\n  Breaks = {1, 2, 3}\n  Spans = {0, 1, 2}\n"
                                                     "  Threshs <- DefThreshs\nINVARIANTS EmitCase\nCHECK_DEADLOCK FALSE\n")
    rg = tlc_retry("Align", "AlignGen", cwd=d, workers=1, timeout=1800)
    if rg.error:
        ctx.error("AlignGen: " + rg.error)
    cases = list(rg.emitted)
    ctx.cov["programs_from_tlc"] = len(cases)
    open(os.path.join(d, "AlignSim.cfg"), "w").write(hdr + "  MaxLines = 7\n  Widths = {1, 3, 5, 8, 12}\n  Lens = {1, 2, 3}\n  Breaks = {1, 2, 3}\n  Spans = {1, 2, 3}\n"
                                                     "  Threshs <- WideThreshs\nINVARIANTS EmitCase Good\nCHECK_DEADLOCK FALSE\n")
    rs = tlc_retry("Align", "AlignSim", cwd=d, workers=4, simulate=600 if quick else 6000, depth=8, seed=ctx.seed, timeout=1800)
    if rs.error:
        ctx.error("AlignSim: " + rs.error)
    elif rs.violation:
        ctx.model_violation("Align", "AlignSim", rs)
    deep = [e for e in rs.emitted if len(e["prog"]) >= 4]
    ctx.cov["programs_from_simulation"] = len(deep)
    # programs on which Align.tla says a second run moves an operator again (Stable violated: only with a threshold)
    open(os.path.join(d, "AlignUnst.cfg"), "w").write(hdr + "  MaxLines = 3\n  Widths = {1, 4, 8}\n  Lens = {1, 2}\n  Breaks = {1, 2, 3}\n  Spans = {0, 1, 2}\n"
                                                      "  Threshs <- DefThreshs\nINVARIANTS EmitUnstable\nCHECK_DEADLOCK FALSE\n")
    ru = tlc_retry("Align", "AlignUnst", cwd=d, workers=1, timeout=1800)
    if ru.error:
        ctx.error("AlignUnst: " + ru.error)
    unstable = [dict(e, twice=True, keep=(k % 3 != 0)) for k, e in enumerate(ru.emitted)]
    open(os.path.join(d, "AlignUnstSim.cfg"), "w").write(hdr + "  MaxLines = 6\n  Widths = {1, 3, 5, 8, 12}\n  Lens = {1, 2, 3}\n  Breaks = {1, 2, 3}\n  Spans = {1, 2, 3}\n"
                                                         "  Threshs <- WideThreshs\nINVARIANTS EmitUnstable\nCHECK_DEADLOCK FALSE\n")
    rus = tlc_retry("Align", "AlignUnstSim", cwd=d, workers=4, simulate=300 if quick else 3000, depth=7, seed=ctx.seed, timeout=1800)
    unstable += [dict(e, twice=True, keep=(k % 3 != 0)) for k, e in enumerate(rus.emitted) if len(e["prog"]) >= 4]
    ctx.cov["programs_predicted_unstable_by_tlc"] = len(unstable)
    ctx.rng.shuffle(unstable)
    ctx.rng.shuffle(cases)
    ctx.rng.shuffle(deep)
    # programs on which the skipped list decides: always replayed
    # every tenth stable program is formatted twice as well (the model says: nothing moves)
    pick = [dict(c, twice=(k % 10 == 0), keep=(k % 20 == 0)) for k, c in enumerate(cases[:2500 if quick else 60000] + deep[:2500 if quick else 40000])] + unstable[:800 if quick else 20000]
    tmp = ctx.work.sub("align")
    jobs = [(unc, tmp, i, c, "func" if i % 3 else "enum") for i, c in enumerate(pick) if not (i % 3 == 0 and any(ln["len"] != 1 for ln in c["prog"] if ln["asg"]))]
    evs = pmap_proc(_job, jobs, nproc=14)
    ctx.cov["evaluations"] = len(evs)
    ok = [e for e in evs if e["rc"] == 0]
    ctx.cov["runs_comparable"] = len(ok)
    tp = os.path.join(ctx.work.path, "align.ndjson")
    write_ndjson(tp, ok)
    rt = tlc_retry("AlignTrace", "AlignTrace", env={"TRACE": tp}, workers=1, timeout=3000, xmx="8g")
    if rt.error:
        ctx.error("AlignTrace: " + rt.error)
    else:
        if rt.violation and rt.violation[0] == "postcondition":
            ctx.error("AlignTrace: trace not consumed to the end")
        elif rt.violation:
            ctx.error("AlignTrace: %s" % (rt.violation,))
        ctx.cov["traces_validated_against_impl"] = len(ok)
        byid = {e["id"]: e for e in ok}
        for rep in rt.emitted:
            e = byid[rep["id"]]
            for b in rep["bad"]:
                ctx.violation("%s|%s" % (b, json.dumps([e["prog"], e["span"], e["thresh"], e["tabstop"], e["how"]])),
                              "%s violated: %s program %s span=%d thresh=%d tabstop=%s: operator columns %s, machine %s" % (
                                  b, e["how"], e["prog"], e["span"], e["thresh"], e["tabstop"], e["cols"], rep.get("expected")),
                              {"kind": "align", "case": e})
            for dn in rep["drift"]:
                ctx.drift.append({"module": "Align", "kind": dn, "how": e["how"], "prog": e["prog"], "span": e["span"], "thresh": e["thresh"],
                                  "tabstop": e["tabstop"], "observed": e["cols"], "expected": rep.get("expected"),
                                  "again_observed": e["again"], "again_expected": rep.get("again")})
    ctx.cov["columns_differing_from_model"] = len(ctx.drift)
    tw = [e for e in ok if e["again"]]
    ctx.cov["formatted_twice"] = len(tw)
    ctx.cov["second_run_moved_an_operator"] = sum(1 for e in tw if e["again"] != e["cols"])
    ctx.cov["second_run_moved_an_operator_without_keep_extra_space"] = sum(1 for e in tw if e["again"] != e["cols"] and not e["keep"])
    ctx.cov["second_run_differs_from_model"] = sum(1 for x in ctx.drift if x["kind"] == "SecondRunAsModel")
    ctx.cov["distinct_nontrivial"] = len({json.dumps([e["prog"], e["span"], e["thresh"], e["tabstop"], e["how"]]) for e in ok if any(c_ for c_ in e["cols"])})
    ctx.cov["rule"] = ("Align.tla: AlignStack transcribed; every program <= 3 lines over 3 widths x 2 operator lengths x 3 break counts x span 0..2 x "
                       "thresh {0, 3, -3} x align_on_tabstop model-checked for the group contracts and emitted; deeper programs (<= 7 lines, 5 widths, "
                       "3 lengths, span 1..3, thresh {0, +-2, +-5}) by TLC simulation; each rendered as a function body (align_assign_*) or an enum "
                       "(align_enum_equ_*), formatted, the operator columns judged by the contracts and compared with the machine's columns")
    if ok:
        ctx.sample({"program": ok[0]["prog"], "columns": ok[0]["cols"]})
    ctx.assumptions += ["left-hand sides are single identifiers, one blank before the operator in the input",
                        "not one of the listed properties: an extension of the specification to the align_* passes"]
