"""Cmt (extra, DESIGN.md 0.6) - the comment writers under the cmt_* options: Cmt.tla's files replayed into the binary,
the text of the comments, the code around them and the grouping judged by CmtTrace.tla."""
import json
import os
import re
import shutil

from .. import obs, lex
from ..common import pmap_proc, tlc_retry, write_ndjson, sh, SPEC

LEVEL = "model_checking"


def line_text(shape, n):
    if shape == "w":
        return "alpha%d beta%d" % (n, n)
    if shape == "tag":
        return "@param p%d desc%d more%d" % (n, n, n)
    if shape == "tagend":
        return "@return r%d" % n
    if shape == "long":
        return " ".join("w%dx%d" % (n, k) for k in range(14))
    if shape == "empty":
        return ""
    raise ValueError(shape)


def render(file, indent):
    """the source text and per item the body text of the comment"""
    out = []
    ctext = []
    n = 0
    for i, it in enumerate(file):
        if it["k"] == "code":
            out.append("int v%d;" % i)
            ctext.append("")
        elif it["k"] == "blank":
            out.append("")
            ctext.append("")
        else:
            texts = []
            for sh_ in it["lines"]:
                n += 1
                texts.append(line_text(sh_, n))
            close = {"same": " */", "tight": "*/", "own": "\n */"}[it["closer"]]
            if it["kind"] == "cpp":
                t = "// " + texts[0]
            elif it["kind"] == "c":
                t = "/* " + ("\n * ".join(texts)).replace(" * \n", " *\n") + close
            else:
                t = "/**\n * " + ("\n * ".join(texts)).replace(" * \n", " *\n") + close
            t = t.replace("\n * \n", "\n *\n")
            ctext.append(body(t))
            if it["pos"] == "trail":
                out[-1] = out[-1] + " " + t
            else:
                out.append(t)
    if indent:
        pre, post = {1: ("void f()\n{", "}"), 2: ("class K\n{\npublic:", "};"), 3: ("namespace n {\nstruct s\n{", "};\n}")}[indent]
        out = [pre] + [("    " + l.replace("\n", "\n    ")) if l else l for l in out] + [post]
    return "\n".join(out) + "\n", ctext


def body(t):
    """non-blank characters of a comment's text, delimiters and star leaders aside"""
    if t.startswith("//"):
        t = t[2:].lstrip("/!<")
        return re.sub(r"\s+", "", t)
    assert t.startswith("/*")
    t = t[2:]
    if t.endswith("*/"):
        t = t[:-2]
    lines = t.split("\n")
    res = []
    for k, ln in enumerate(lines):
        s = ln.strip()
        if k == 0:
            s = s.lstrip("*!<")          # '/**', '/*!' openers
        elif s.startswith("*"):
            s = s[1:]
        res.append(s)
    return re.sub(r"\s+", "", "".join(res))


LAYOUT = [("cmt_star_cont", ["true", "false"]), ("cmt_c_nl_start", ["true", "false"]), ("cmt_c_nl_end", ["true", "false"]),
          ("cmt_cpp_nl_start", ["true", "false"]), ("cmt_cpp_nl_end", ["true", "false"]), ("cmt_indent_multi", ["true", "false"]),
          ("cmt_align_doxygen_javadoc_tags", ["true", "false"]), ("cmt_reflow_mode", ["0", "1", "2"]), ("cmt_width", ["0", "30", "60"]),
          ("cmt_sp_before_star_cont", ["0", "2"]), ("cmt_sp_after_star_cont", ["0", "1", "3"]), ("cmt_multi_check_last", ["true", "false"]),
          ("cmt_multi_first_len_minimum", ["1", "4", "12"]), ("cmt_convert_tab_to_spaces", ["true", "false"]),
          ("cmt_reflow_indent_to_paragraph_start", ["true", "false"]), ("cmt_sp_before_doxygen_javadoc_tags", ["1", "3"]),
          ("indent_col1_comment", ["true", "false"]), ("nl_max", ["0"])]
MODEL = {"cppToC": "cmt_cpp_to_c", "cppGroup": "cmt_cpp_group", "cGroup": "cmt_c_group", "trailCToCpp": "cmt_trailing_single_line_c_to_cpp"}


def _job(a):
    unc, tmp, i, c = a
    src = os.path.join(tmp, "c%d.c" % i)
    cfg = os.path.join(tmp, "c%d.cfg" % i)
    text, ctext = render(c["file"], c.get("ctx", 0))
    obs.write(src, text)
    cfgt = "".join("%s=%s\n" % (MODEL[k], "true" if v else "false") for k, v in sorted(c["o"].items())) + "".join("%s=%s\n" % kv for kv in c["layout"])
    obs.write(cfg, cfgt)
    rc, so, se = sh([unc, "-c", cfg, "-q", "-l", "CPP", "-f", src], cwd=tmp, timeout=20)
    os.unlink(src)
    os.unlink(cfg)
    ev = dict(c, id="cmt|%d" % i, rc=rc, wrap=any(n == "cmt_width" and v != "0" for n, v in c["layout"]), ctext=ctext, textOut="", codeIn=[], codeOut=[], outc=[])
    if rc == 0:
        out = obs.decode(so)
        ev["codeIn"] = [t[1] for t in lex.lex(text, "CPP") if t[0] == "tok"]
        toks = lex.lex(out, "CPP")
        ev["codeOut"] = [t[1] for t in toks if t[0] == "tok"]
        cm = [t for t in toks if t[0].startswith("cmt")]
        ev["outc"] = [{"kind": "cpp" if t[1].startswith("//") else "c", "text": body(t[1])} for t in cm]
        ev["textOut"] = "".join(x["text"] for x in ev["outc"])
        ev["out"] = out
        ev["cfg_text"] = cfgt
        ev["src_text"] = text
    return ev


def run(ctx):
    quick = ctx.tier == "quick"
    unc = ctx.unc()
    r = tlc_retry("Cmt", "Cmt", workers=8, timeout=900)
    ctx.add_tlc(r)
    if r.error:
        ctx.error("Cmt: " + r.error)
    elif r.violation:
        ctx.model_violation("Cmt", "Cmt", r)
    rn = tlc_retry("Cmt", "Cmt_nomerge", workers=4, timeout=300)
    ctx.cov["variant_rejected"] = {"no option setting ever merges two comments": bool(rn.violation)}
    if not rn.violation:
        ctx.error("vacuity: no file within the bounds is regrouped")
    d = os.path.join(ctx.work.path, "spec")
    os.makedirs(d, exist_ok=True)
    shutil.copy(os.path.join(SPEC, "Cmt.tla"), d)
    files = []
    for nm, (mi, ml, shapes) in (("CmtGen1", (1, 3, '{"w", "tag", "tagend", "empty", "long"}')),
                                 ("CmtGen2", (3, 1 if quick else 2, '{"w", "tagend"}' if quick else '{"w", "tagend", "empty"}'))):
        open(os.path.join(d, nm + ".cfg"), "w").write("SPECIFICATION Spec\nCONSTANTS\n  MaxItems = %d\n  MaxLines = %d\n  Shapes = %s\n  Emit = TRUE\n"
                                                      "INVARIANTS EmitFile\nCHECK_DEADLOCK FALSE\n" % (mi, ml, shapes))
        rg = tlc_retry("Cmt", nm, cwd=d, workers=1, timeout=3000, xmx="8g")
        if rg.error:
            ctx.error(nm + ": " + rg.error)
        ctx.cov["files_from_tlc_" + nm] = len(rg.emitted)
        fs = [e["file"] for e in rg.emitted]
        if nm == "CmtGen1":
            # a single comment cannot trail code that is not there: put a code line in front and behind
            fs = [[{"k": "code"}] + f + [{"k": "code"}] for f in fs]
        files += fs
    ctx.rng.shuffle(files)
    cases = []
    nf = 2500 if quick else 60000
    for k, f in enumerate(files[:nf]):
        for rep in range(2 if quick else 3):
            o = {m: ctx.rng.random() < 0.5 for m in MODEL}
            if rep == 0:
                o = {m: False for m in MODEL}
                o[list(MODEL)[k % 4]] = True
                if o["cppGroup"]:
                    o["cppToC"] = True
            layout = [(n, ctx.rng.choice(v)) for n, v in LAYOUT if ctx.rng.random() < 0.5 or n == "nl_max"]
            cases.append({"file": f, "o": o, "layout": layout, "ctx": ctx.rng.choice([0, 0, 1, 1, 2, 3])})
    tmp = ctx.work.sub("cmt")
    evs = pmap_proc(_job, [(unc, tmp, i, c) for i, c in enumerate(cases)], nproc=14)
    ctx.cov["evaluations"] = len(evs)
    ok = [e for e in evs if e["rc"] == 0]
    ctx.cov["runs_comparable"] = len(ok)
    ctx.cov["refused"] = len(evs) - len(ok)
    tp = os.path.join(ctx.work.path, "cmt.ndjson")
    write_ndjson(tp, [{k: v for k, v in e.items() if k not in ("out", "cfg_text", "src_text", "layout")} for e in ok])
    rt = tlc_retry("CmtTrace", "CmtTrace", env={"TRACE": tp}, workers=1, timeout=3000, xmx="8g")
    if rt.error:
        ctx.error("CmtTrace: " + rt.error)
    else:
        if rt.violation and rt.violation[0] == "postcondition":
            ctx.error("CmtTrace: trace not consumed to the end")
        elif rt.violation:
            ctx.error("CmtTrace: %s" % (rt.violation,))
        ctx.cov["traces_validated_against_impl"] = len(ok)
        byid = {e["id"]: e for e in ok}
        for rep in rt.emitted:
            e = byid[rep["id"]]
            for b in rep["bad"]:
                ctx.violation("%s|%s|%s" % (b, json.dumps(e["file"], sort_keys=True), e["cfg_text"].replace("\n", ";")),
                              "%s violated: %r under %s comes out as %r" % (b, e["src_text"], e["cfg_text"].replace("\n", ";"), e["out"]),
                              {"kind": "cmt", "src_text": e["src_text"], "cfg_text": e["cfg_text"], "out": e["out"]})
            for dn in rep["drift"]:
                ctx.drift.append({"module": "Cmt", "kind": dn, "src": e["src_text"], "o": e["o"], "observed": e["outc"], "expected": rep.get("expected")})
    ctx.cov["groupings_differing_from_model"] = len(ctx.drift)
    ctx.cov["distinct_nontrivial"] = len({json.dumps([e["file"], e["o"], e["layout"]], sort_keys=True) for e in ok})
    ctx.cov["rule"] = ("Cmt.tla: every file of <= 3 items model-checked (the model of grouping keeps the text, never merges across code or a blank "
                       "line); TLC emits every single comment (<= 3 lines over five line shapes, three closer placements, own line / trailing) "
                       "and every file of <= 3 items over a smaller alphabet; each is rendered with unique words and formatted under one kind / "
                       "grouping option at a time and seeded combinations, with seeded values of 17 layout options; the non-blank characters of "
                       "the comment bodies, the code tokens and the grouping are judged by CmtTrace.tla")
    ctx.assumptions += ["the items stand at file level, in a function body, in a class body or in a struct inside a namespace (seeded); C++ input", "header / closing-brace comment insertion is outside the model", "not one of the listed properties"]
