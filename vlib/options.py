"""Observation layer for the configuration loader/saver (C15, C16): registry metadata from the
sources and the binary, configuration files rendered from value classes, dumps parsed from
--update-config output, diagnostics parsed from stderr.  No verdicts here."""
import os
import re

from .common import REPO, BUILD, sh

KIND_OF_T = {"bool": "bool", "iarf_e": "iarf", "line_end_e": "lineend", "token_pos_e": "tokenpos",
             "signed": "num", "unsigned": "unum", "string": "string"}
ENUM_VALUES = {"bool": ["false", "true"], "iarf": ["ignore", "add", "remove", "force"],
               "lineend": ["lf", "crlf", "cr", "auto"],
               "tokenpos": ["ignore", "break", "force", "lead", "trail", "join", "lead_break", "lead_force",
                            "trail_break", "trail_force"]}
ALIASES = {"bool": {"true": ["true", "1", "t", "y", "yes", "TRUE", "Yes"], "false": ["false", "0", "f", "n", "no", "False", "N"]},
           "iarf": {"ignore": ["ignore", "i", "IGNORE"], "add": ["add", "a", "2", "t", "true", "y", "yes", "Add"],
                    "remove": ["remove", "r", "0", "f", "false", "n", "no", "REMOVE"], "force": ["force", "1", "Force"]}}


def registry(unc):
    """[{name, kind, bounded, min, max, def}] in registry order + token names + language names."""
    txt = open(os.path.join(REPO, "src", "options.h"), errors="replace").read()
    decl = {}
    for m in re.finditer(r"extern\s+(BoundedOption|Option)<\s*([a-z_A-Z]+)\s*(?:,\s*(-?\d+)\s*,\s*(-?\d+)\s*)?>\s*\n\s*(\w+)\s*;", txt):
        t = m.group(2)
        decl[m.group(5)] = {"kind": KIND_OF_T[t], "bounded": m.group(1) == "BoundedOption",
                            "min": int(m.group(3)) if m.group(3) else 0, "max": int(m.group(4)) if m.group(4) else 0}
    rc, out, err = sh([unc, "-c", "/dev/null", "--update-config"], timeout=60)
    opts = []
    for name, val in parse_dump_lines(out.decode("latin-1"))[0]:
        if name not in decl:
            raise RuntimeError("option %s not found in options.h" % name)
        d = dict(decl[name])
        d["name"] = name
        d["def"] = val
        opts.append(d)
    if len(opts) != len(decl):
        raise RuntimeError("registry mismatch: %d in dump, %d in options.h" % (len(opts), len(decl)))
    tn = open(os.path.join(BUILD, "hooks", "token_names.h"), errors="replace").read()
    tokens = re.findall(r'^\s*"([A-Z_0-9a-z]+)",', tn, re.M)[1:]
    ln = open(os.path.join(REPO, "src", "language_names.cpp"), errors="replace").read()
    blk = ln[ln.index("language_names[]"):ln.index("language_exts[]")]
    langs = re.findall(r'\{\s*"([^"]+)"\s*,\s*e_', blk)
    return opts, tokens, langs


def unescape(s):
    out = []
    i = 0
    while i < len(s):
        if s[i] == "\\" and i + 1 < len(s):
            out.append(s[i + 1])
            i += 2
        else:
            out.append(s[i])
            i += 1
    return "".join(out)


def parse_dump_lines(text):
    """saved configuration text -> ([(name, value)], [(token, word)], [(lang, ext)])"""
    vals, kw, ext = [], [], []
    for line in text.split("\n"):
        line = line.rstrip("\r")
        if not line or line.startswith("#"):
            continue
        m = re.match(r"^(\w+)\s+= (.*)$", line)
        if m:
            v = m.group(2)
            if v.startswith('"'):
                # a string: up to the last quote of the line (a trailing " # string" documentation may follow)
                body = v[1:]
                mm = re.match(r'^((?:[^"\\]|\\.)*)"', body)
                v = unescape(mm.group(1)) if mm else "<<unparsable>>" + body
            else:
                v = v.split("#")[0].strip()
            vals.append((m.group(1), v))
            continue
        p = line.split()
        if p[0] == "type" and len(p) >= 2:
            kw += [("TYPE", w) for w in p[1:]]
        elif p[0] == "custom" and len(p) >= 3 and p[1] == "type":
            kw += [("CUSTOM TYPE (unloadable)", w) for w in p[2:]]
        elif p[0] in ("macro-open", "macro-close", "macro-else") and len(p) >= 2:
            kw.append((p[0].upper().replace("-", "_"), p[1]))
        elif p[0] == "set" and len(p) >= 3:
            kw += [(p[1], w) for w in p[2:]]
        elif p[0] == "file_ext" and len(p) >= 3:
            ext += [(p[1], e) for e in p[2:]]
    return vals, kw, ext


def run_update(unc, cfgpath, with_doc=False, cwd=None, timeout=60):
    rc, out, err = sh([unc, "-c", cfgpath, "--update-config-with-doc" if with_doc else "--update-config"], timeout=timeout, cwd=cwd)
    return rc, out, err


def diag_lines(err, cfgpath):
    """line numbers of the configuration file named in stderr diagnostics"""
    base = re.escape(cfgpath)
    out = []
    for m in re.finditer(base.encode() + rb":(\d+)", err):
        n = int(m.group(1))
        if n not in out:
            out.append(n)
    return out


def chars(s):
    return list(s)


def quote(s):
    """a quoted spelling of value s that split_args reads back as s"""
    return '"' + s.replace("\\", "\\\\").replace('"', '\\"') + '"'
