"""C17 - whitespace hygiene of the output.  Output.tla (writer model) + OutputTrace.tla."""
import json
import os
import shutil

from .. import lex, obs, corpus, cfggen, hazard
from ..common import pmap_proc, log, tlc_retry, write_ndjson, SPEC, sh
from . import pipeline_engine as pe

LEVEL = "model_checking"
EXT = {"C": ".c", "CPP": ".cpp", "JAVA": ".java", "CS": ".cs", "OC": ".m"}


def classify_lines(text, lang, markers=("*INDENT-OFF*", "*INDENT-ON*")):
    """[(no, lead, cls, trail)] for every physical line of text"""
    items = lex.lex(text, lang)
    # spans of comments / string-like literals, and preprocessor lines
    spans = []      # (start, end, kind)
    pp_ranges = []
    ppstart = None
    for k, t, s, e, ln, pp in items:
        if k in ("cmt_c", "cmt_cpp"):
            spans.append((s, e, "cmt"))
        elif k in ("str", "chr", "hdr"):
            spans.append((s, e, "lit"))
        elif k == "pp(":
            ppstart = s
        elif k == "pp)":
            pp_ranges.append((ppstart if ppstart is not None else s, e))
            ppstart = None
    # disabled regions: from the line after a comment holding the off marker to the line of the on marker
    regions = []
    off = None
    for k, t, s, e, ln, pp in items:
        if k in ("cmt_c", "cmt_cpp"):
            if off is None and markers[0] in t:
                off = e
            elif off is not None and markers[1] in t:
                regions.append((off, s))
                off = None
    if off is not None:
        regions.append((off, len(text) + 1))
    # '#pragma asm' ... '#pragma endasm' / '#asm' ... '#endasm'
    low = text
    for a, b in (("#pragma asm", "#pragma endasm"), ("#asm", "#endasm")):
        i = low.find(a)
        while i >= 0:
            j = low.find(b, i + len(a))
            regions.append((i, (j if j >= 0 else len(text)) + len(b)))
            i = low.find(a, (j if j >= 0 else len(text)) + 1) if j >= 0 else -1

    # multi-line '[[ ... ]]' attributes: uncrustify keeps their text as it is
    attrs = []
    toks = [it for it in items if it[0] == "tok"]
    k = 0
    while k + 1 < len(toks):
        if toks[k][1] == "[" and toks[k + 1][1] == "[" and toks[k][3] == toks[k + 1][2]:
            d = 0
            j = k
            while j < len(toks):
                if toks[j][1] == "[":
                    d += 1
                elif toks[j][1] == "]":
                    d -= 1
                    if d == 0:
                        break
                j += 1
            if j < len(toks) and toks[j][4] != toks[k][4]:
                attrs.append((toks[k][2], toks[j][3]))
            k = j + 1
        else:
            k += 1

    def inside(pos, rngs):
        for r in rngs:
            if r[0] < pos < r[1]:
                return True
        return False

    def span_at(pos, strict_start):
        # pos inside a span that started before this position
        for s, e, k in spans:
            if s < pos < e or (not strict_start and s == pos):
                return k
        return None

    out = []
    off0 = 0
    no = 0
    for line, term in obs.split_lines(text):
        no += 1
        start = off0
        end = off0 + len(line)
        off0 = end + len(term)
        stripped = line.lstrip(" \t")
        leadlen = len(line) - len(stripped)
        lead = ["T" if c == "\t" else "S" for c in line[:leadlen]]
        if inside(start, regions) or inside(end, regions):
            cls = "region"
        else:
            k = span_at(start, True) if start > 0 else None
            # a line that begins inside a comment / literal opened earlier
            k0 = None
            for s, e, kk in spans:
                if s < start < e:
                    k0 = kk
                    break
            if k0:
                cls = k0
            elif not stripped:
                cls = "blank"
            else:
                fpos = start + leadlen
                cls = "pp" if any(a <= fpos < b for a, b in pp_ranges) else "code"
                if any(s == fpos and k == "cmt" for s, e, k in spans):
                    cls = "cmtstart" if cls == "code" else cls
        trail = False
        if line and line[-1] in " \t" and stripped:
            # position of the trailing blank: inside a comment / literal?
            pos = end - 1
            kk = None
            for s, e, k2 in spans:
                if s <= pos < e:
                    kk = k2
                    break
            trail = kk is None and cls != "region"
        if cls in ("code", "cmtstart") and (inside(start, attrs) or inside(end, attrs) or any(a <= start <= b for a, b in attrs)):
            cls = "attr"
        if cls == "pp" and any(s_ == start + leadlen and k_ == "cmt" for s_, e_, k_ in spans):
            cls = "ppcmt"
        out.append((no, lead, cls, trail))
    return out


def trailing_breaks(text):
    """number of line breaks that close the file, whitespace-only lines counted as empty"""
    ls = obs.split_lines(text)
    n = 0
    for line, term in reversed(ls):
        if line.strip(" \t") == "" and term:
            n += 1
        elif line.strip(" \t") == "" and not term:
            continue
        else:
            if term and n == 0:
                pass
            break
    # count terminators after the last non-blank line
    cnt = 0
    seen = False
    for line, term in reversed(ls):
        if line.strip(" \t\x0c") != "":
            if term:
                cnt += 1
            seen = True
            break
        if term:
            cnt += 1
    return cnt if seen else cnt


def getopt(cfg_text, name, default):
    v = default
    for n, val, line in pe.cfg_settings(cfg_text):
        if n == name:
            v = val
    return v


IARF = {"i": "ignore", "ignore": "ignore", "a": "add", "add": "add", "r": "remove", "remove": "remove", "f": "force", "force": "force"}


def _job(a):
    unc, tmp, i, (jid, src, cfg, cfg_text, lang) = a
    if cfg is None:
        cfg = os.path.join(tmp, "c%d.cfg" % i)
        obs.write(cfg, cfg_text)
    else:
        cfg_text = open(cfg, errors="replace").read()
    rc, so, se = sh([unc, "-c", cfg, "-q", "-l", lang, "-f", src], timeout=20, cwd=tmp)
    ev = {"e": "File", "id": jid, "rc": rc, "lines": [], "iwt": 0, "ppiwt": -1, "tab": 8, "singleNl": False, "trailspace": False, "cmtTabs": False,
          "eofmode": "ignore", "eofmin": 0, "eofin": 0, "eofout": 0}
    if rc != 0:
        return ev, (jid, src, cfg, cfg_text, lang)
    try:
        ev["iwt"] = int(getopt(cfg_text, "indent_with_tabs", "1"))
        ev["ppiwt"] = int(getopt(cfg_text, "pp_indent_with_tabs", "-1"))
        ev["tab"] = int(getopt(cfg_text, "output_tab_size", "8"))
        ev["eofmin"] = int(getopt(cfg_text, "nl_end_of_file_min", "0"))
    except ValueError:
        ev["rc"] = 98      # option given by reference: not projected
        return ev, (jid, src, cfg, cfg_text, lang)
    ev["cmtTabs"] = getopt(cfg_text, "indent_cmt_with_tabs", "false") in ("true", "t", "1", "y", "yes")
    ev["singleNl"] = getopt(cfg_text, "indent_single_newlines", "false") in ("true", "t", "1", "y", "yes")
    ev["eofmode"] = IARF.get(getopt(cfg_text, "nl_end_of_file", "ignore"), "ignore")
    markers = (getopt(cfg_text, "disable_processing_cmt", "") or "*INDENT-OFF*", getopt(cfg_text, "enable_processing_cmt", "") or "*INDENT-ON*")
    intext = obs.decode(open(src, "rb").read())
    outtext = obs.decode(so)
    seen = {}
    for no, lead, cls, trail in classify_lines(outtext, lang, markers):
        key = ("".join(lead), cls, trail)
        if key not in seen:
            seen[key] = {"no": no, "lead": lead, "cls": cls, "trail": trail, "count": 1}
        else:
            seen[key]["count"] += 1
    ev["lines"] = list(seen.values())
    ev["eofin"] = trailing_breaks(intext)
    ev["eofout"] = trailing_breaks(outtext)
    # a block comment that the end of the file cuts off holds the file's last line breaks: they are comment text (C03),
    # there is no line end behind the last token for nl_end_of_file to act on
    last = None
    for it in lex.lex(intext, lang):
        if it[0] not in ("pp(", "pp)"):
            last = it
    if last is not None and last[0].startswith("cmt") and ((last[1].startswith("/*") and not (len(last[1]) >= 4 and last[1].endswith("*/")))
                                                  or (last[1].startswith("/+") and not (len(last[1]) >= 4 and last[1].endswith("+/")))):
        ev["eofmode"] = "ignore"
        ev["eof_in_open_comment"] = True
    ev["nlines"] = sum(v["count"] for v in seen.values())
    return ev, (jid, src, cfg, cfg_text, lang)


def tab_configs(rng, unc, n):
    """seeded covering of the tab / indent / align option space"""
    out = []
    for k in range(n):
        iwt = k % 3
        l = ["indent_with_tabs=%d" % iwt,
             "output_tab_size=%d" % rng.choice([2, 3, 4, 8]),
             "indent_columns=%d" % rng.choice([1, 2, 3, 4, 5, 8])]
        # the tab policy options are crossed systematically (all 3 x 2 x 2 x 4 combinations over 48 configurations)
        l.append("align_keep_tabs=%s" % ("true" if (k // 3) % 2 else "false"))
        l.append("align_with_tabs=%s" % ("true" if (k // 6) % 2 else "false"))
        l.append("pp_indent_with_tabs=%d" % [-1, 0, 1, 2][(k // 12) % 4])
        for name in ("align_on_tabstop", "indent_align_string", "indent_class",
                     "indent_namespace", "indent_switch_pp", "indent_col1_comment", "indent_func_call_param",
                     "indent_single_newlines", "align_number_right", "align_same_func_call_params"):
            if rng.random() < 0.3:
                l.append("%s=true" % name)
        for name, vals in (("pp_indent", ["ignore", "add", "remove", "force"]), ("pp_space_after", ["ignore", "add", "remove", "force"]),
                           ("align_var_def_span", ["0", "1", "3"]), ("align_assign_span", ["0", "1", "2"]),
                           ("align_right_cmt_span", ["0", "2"]), ("align_pp_define_span", ["0", "2"]), ("align_nl_cont", ["0", "1", "2"]),
                           ("indent_continue", ["0", "2", "4", "-4"]), ("indent_switch_case", ["0", "2", "4"]),
                           ("align_struct_init_span", ["0", "2"]), ("indent_brace", ["0", "2"]), ("pp_indent_count", ["1", "2"]),
                           ("nl_end_of_file", ["ignore", "add", "remove", "force"]), ("nl_end_of_file_min", ["0", "1", "2", "3"]),
                           ("indent_var_def_blk", ["0", "2", "-2"]), ("align_func_params", ["false", "true"]),
                           ("indent_paren_nl", ["false", "true"]), ("indent_label", ["1", "0", "-2", "2"])):
            if rng.random() < 0.35:
                l.append("%s=%s" % (name, rng.choice(vals)))
        if rng.random() < 0.3:
            l.append(cfggen.random_ws_config(rng, unc, n=10).strip())
        out.append("\n".join(l) + "\n")
    return out


EOF_TAILS = [
    ("C", "int f(int a)\n{\n    return a;\n}\n"),
    ("C", "int a;\n#endif\n"),
    ("C", "#define X 1\n"),
    ("C", "int a; /* last */\n"),
    ("C", "int a; // last\n"),
    ("C", "enum e { A, B };\n"),
    ("C", "struct s\n{\n    int a;\n};\n"),
    ("CPP", "namespace n\n{\nint a;\n}\n"),
    ("CPP", "namespace n\n{\nint a;\n} // namespace n\n"),
    ("CPP", "namespace o {\nnamespace n {\nint a;\n}\n}\n"),
    ("C", "int b;\n/* *INDENT-OFF* */\nint   x;\n"),
    ("C", "int b;\n#pragma asm\n  mov  a\n"),
    ("CPP", "class K\n{\npublic:\n    int f() { return 1; }\n};\n"),
    ("CPP", "struct P\n{\n    P()\n    {\n        ok->onClick([this](int code) {\n            run(code);\n        });\n    }\n};\n"),
    ("CPP", "static auto h = make_handler([](int v) {\n    return v + 1;\n});\n"),
    ("CPP", "void g()\n{\n    call([&](int a) { use(a); }, 2);\n}\n"),
    ("CPP", "template<typename T>\nT id(T t)\n{\n    return t;\n}\n"),
    ("JAVA", "class A\n{\n    int f()\n    {\n        return 1;\n    }\n}\n"),
    ("CS", "namespace N\n{\n    class A\n    {\n        int P { get; set; }\n    }\n}\n"),
]


def eof_configs(rng, n):
    out = []
    for k in range(n):
        mode = ["force", "add", "remove", "force", "ignore"][k % 5]
        mn = [1, 2, 3][(k // 5) % 3]
        l = ["nl_end_of_file=%s" % mode, "nl_end_of_file_min=%d" % mn]
        for name, vals in (("nl_max_blank_in_func", ["1", "2"]), ("nl_after_func_body", ["1", "2", "3"]), ("nl_after_func_body_class", ["1", "2"]),
                           ("nl_after_func_body_one_liner", ["1", "2"]), ("nl_after_struct", ["1", "2"]), ("nl_after_class", ["1", "3"]),
                           ("nl_after_namespace", ["1", "2"]), ("nl_before_namespace", ["1", "2"]), ("nl_before_class", ["1", "2"]), ("nl_before_struct", ["2"]),
                           ("nl_inside_namespace", ["1"]), ("nl_max", ["3", "4"]), ("eat_blanks_before_close_brace", ["true"]),
                           ("nl_after_whole_file_endif", ["1", "2"]), ("nl_squeeze_ifdef", ["true"]), ("nl_remove_extra_newlines", ["1"]),
                           ("nl_after_multiline_comment", ["true"]), ("nl_start_of_file", ["remove", "force"])):
            if rng.random() < 0.3:
                l.append("%s=%s" % (name, rng.choice(vals)))
        out.append("\n".join(l) + "\n")
    return out


def dirty(rng, text):
    """seeded dirty whitespace: trailing blanks, tab/space mixes in indentation, whitespace-only lines"""
    out = []
    for l, term in obs.split_lines(text):
        r = rng.random()
        body = l.lstrip(" \t")
        lead = l[:len(l) - len(body)]
        if body and not body.startswith(("*", "#")) and r < 0.5:
            # the original indentation is replaced: it must not matter (and after_tab gets set on first chunks)
            lead = rng.choice(["\t", "  \t", " \t ", "\t  ", "    ", "\t\t", " ", "   \t\t", "\t \t", ""]) * rng.randint(1, 2)
        if r > 0.7 and (not l.rstrip().endswith("\\") or r > 0.85):     # also behind a continuation backslash (gcc splices there too)
            body = body + rng.choice([" ", "\t", "  \t", "   "])
        if not body and rng.random() < 0.4:
            lead = rng.choice(["  ", "\t", " \t"])
        out.append(lead + body + term)
    return "".join(out)


def blind(text, lang):
    """inputs whose line classes the independent lexer cannot establish (stated in the evidence): a line splice
    before the first token of the file (uncrustify does not see the directive that follows as one), nested C#
    interpolated verbatim strings"""
    if text.lstrip(" \t").startswith("\\"):
        return True
    if text.rstrip(" \t\r\n").endswith("\\"):     # the last line break is a line splice, not a line end: nl_end_of_file has nothing to act on
        return True
    if lang == "CS" and ('$@"' in text or '@$"' in text):
        return True
    import re as _re
    if _re.search(r'R"[^()\s"]*"\(', text):      # 'R"FOO"(' : not a raw string of the language (cpp/strings.cpp)
        return True
    if _re.search(r"#\s*ifdef\s+asm\b", text):   # c/i1270.c: the tokenizer switches processing off at '#ifdef asm'
        return True
    # a string literal that runs over a line end without a backslash: uncrustify reads on (CT_STRING_MULTI), the language's
    # lexer ends the literal there - the lines in between are literal text for one and code for the other
    for it in lex.lex(text, lang):
        if it[0] in ("str", "chr"):
            t = it[1]
            q = '"' if '"' in t[:4] else "'"
            body = t[t.index(q) + 1:] if q in t else ""
            if not t.startswith(("R", "LR", "uR", "UR", "u8R")) and (len(body) == 0 or not body.endswith(q)):
                return True
    return False


def run(ctx):
    quick = ctx.tier == "quick"
    unc = ctx.unc()
    r = tlc_retry("Output", "Output", workers=12, timeout=1200)
    ctx.add_tlc(r)
    if r.error:
        ctx.error("Output: " + r.error)
    elif r.violation:
        ctx.model_violation("Output", "Output", r)
    rv = tlc_retry("Output", "Output_keeptabs", workers=8, timeout=600)
    ctx.cov["variant_rejected"] = {"align_keep_tabs on the first chunk of a line": bool(rv.violation)}
    if not rv.violation:
        ctx.error("vacuity: Output with KeepTabsOnFirst satisfies IndentHygiene")
    if not quick:
        r2 = tlc_retry("Output", "Output_T", workers=14, timeout=3000, xmx="12g")
        ctx.add_tlc(r2)
        if r2.violation:
            ctx.model_violation("Output", "Output_T", r2)
        elif r2.error:
            ctx.error("Output_T: " + r2.error)
    tmp = ctx.work.sub("c17")
    jobs = []
    # corpus inputs (C family) dirtied x tab configs
    ins = [c for c in corpus.inputs() if (c.lang or corpus.lang_of(c.inp)) in EXT and os.path.getsize(c.inp) < 40000]
    ctx.rng.shuffle(ins)
    nfiles = 120 if quick else 900
    cfgs = tab_configs(ctx.rng, unc, 48 if quick else 288)
    k = 0
    for c in ins[:nfiles]:
        lang = c.lang or corpus.lang_of(c.inp)
        try:
            t = open(c.inp, "rb").read().decode("utf-8")
        except UnicodeDecodeError:
            continue
        if blind(t, lang):
            continue
        src = os.path.join(tmp, "d%04d%s" % (k, EXT[lang]))
        obs.write(src, dirty(ctx.rng, t).encode("utf-8"))
        for cc in ctx.rng.sample(cfgs, 3 if quick else 6):
            jobs.append(("dirty|%d|%s|%d" % (k, os.path.relpath(c.inp, os.path.join(corpus.REPO, "tests/input")), cfgs.index(cc)), src, None, cc, lang))
        k += 1
    # dense programs x all tab configs
    for lang in hazard.DENSE:
        for vn, text in hazard.variants(lang):
            src = os.path.join(tmp, "dense_%s_%s%s" % (lang, vn, EXT[lang]))
            obs.write(src, dirty(ctx.rng, text))
            for ci, cc in enumerate(cfgs):
                jobs.append(("dense|%s|%s|%d" % (lang, vn, ci), src, None, cc, lang))
    # how the file ends: every kind of last construct x nl_end_of_file x minimum x the options that set newline counts near it
    for ti, (lang, tail) in enumerate(EOF_TAILS):
        for nin in (0, 1, 3, 5):
            src = os.path.join(tmp, "tail%d_%d%s" % (ti, nin, EXT[lang]))
            obs.write(src, tail.rstrip("\n") + "\n" * nin)
            for ci, cc in enumerate(eof_configs(ctx.rng, 10 if quick else 40)):
                jobs.append(("tail|%d|%d|%d" % (ti, nin, ci), src, None, cc, lang))
    # corpus pairs with their own configuration (expected-output universe)
    cs = [c for c in corpus.cases() if (c.lang or corpus.lang_of(c.inp)) in EXT]
    ctx.rng.shuffle(cs)
    for c in cs[:150 if quick else 100000]:
        if blind(open(c.inp, "rb").read().decode("latin-1"), c.lang or corpus.lang_of(c.inp)):
            continue
        jobs.append(("corpus|%s|%s" % (os.path.basename(c.cfg), os.path.relpath(c.inp, os.path.join(corpus.REPO, "tests/input"))),
                     c.inp, c.cfg, None, c.lang or corpus.lang_of(c.inp)))
    res = pmap_proc(_job, [(unc, tmp, i, j) for i, j in enumerate(jobs)], nproc=14)
    events = [e for e, j in res]
    ctx.cov["evaluations"] = len(events)
    ok = [e for e in events if e["rc"] == 0]
    ctx.cov["runs_accepted_by_uncrustify"] = len(ok)
    ctx.cov["output_lines_judged"] = sum(e.get("nlines", 0) for e in ok)
    tp = os.path.join(ctx.work.path, "c17.ndjson")
    write_ndjson(tp, events)
    rt = tlc_retry("OutputTrace", "OutputTrace", env={"TRACE": tp}, workers=1, timeout=1800, xmx="8g")
    if rt.error:
        ctx.error("OutputTrace: " + rt.error)
    else:
        if rt.violation and rt.violation[0] == "postcondition":
            ctx.error("OutputTrace: trace not consumed to the end")
        ctx.cov["traces_validated_against_impl"] = len(events)
        byid = {j[0]: (e, j) for e, j in res}
        for rep in rt.emitted:
            e, j = byid[rep["id"]]
            jid, src, cfg, cfg_text, lang = j
            for b in rep["bad"]:
                parts = jid.split("|")
                sig = "%s|%s" % (b, jid)
                lines = sorted(rep.get("lines", []))[:5]
                classes = {ln["cls"] for ln in e["lines"] if ln["no"] in set(rep.get("lines", []))}
                if classes == {"attr"}:
                    sig = "%s|inside-multi-line-attribute" % b
                elif classes == {"ppcmt"}:
                    sig = "%s|comment-line-in-directive" % b
                ctx.violation(sig, "%s violated for %s at output line(s) %s" % (b, jid, lines),
                              {"kind": "c17", "which": b, "src": src, "lang": lang, "cfg_text": cfg_text, "lines": lines,
                               "src_bytes": open(src, "rb").read()[:200000]})
    shapes = set()
    for e in ok:
        for ln in e["lines"]:
            shapes.add(("".join(ln["lead"]), ln["cls"], ln["trail"], e["iwt"], e["ppiwt"]))
    ctx.cov["distinct_nontrivial"] = len(shapes)
    ctx.cov["rule"] = ("Output.tla model-checked over all chunk lists <= 3 chunks x columns {1,2,4,5,9} x all tab policies; trace validation: "
                       "corpus inputs with seeded dirty whitespace x seeded tab/indent/align configurations, dense programs x all of those "
                       "configurations, corpus (input, config) pairs; distinct non-trivial = distinct (leading-whitespace word, line class, "
                       "trailing blank, indent_with_tabs, pp_indent_with_tabs) combinations judged")
    for e in ok[:2]:
        ctx.sample({"id": e["id"], "iwt": e["iwt"], "lines": [{"lead": "".join(x["lead"]), "cls": x["cls"], "count": x["count"]} for x in e["lines"][:6]]})
    ctx.assumptions += ["line classes (comment / literal / region / preprocessor) come from the independent lexer on the output; C family languages only",
                        "a blank line with whitespace is accepted only with indent_single_newlines=true"]


def replay(path):
    from ..common import build
    import tempfile
    r = json.load(open(path))
    if r.get("kind") == "model":
        print(r.get("tlc_tail", ""))
        return 1
    unc = build("plain")
    d = tempfile.mkdtemp(prefix="c17replay")
    try:
        lang = r["lang"]
        cfg = os.path.join(d, "r.cfg")
        obs.write(cfg, r["cfg_text"])
        src = os.path.join(d, os.path.basename(r["src"]))
        b = r["src_bytes"]
        obs.write(src, b.encode("latin-1") if isinstance(b, str) else b)
        ev, j = _job((unc, d, 0, ("replay", src, cfg, None, lang)))
        rc, so, se = sh([unc, "-c", cfg, "-q", "-l", lang, "-f", src])
        outl = obs.split_lines(obs.decode(so))
        print("command: uncrustify -c r.cfg -q -l %s -f %s (rc=%d)" % (lang, os.path.basename(src), rc))
        for no in r.get("lines", []):
            if 0 < no <= len(outl):
                print("output line %d: %r" % (no, outl[no - 1][0]))
        print("violated clause:", r.get("which"))
        return 1
    finally:
        shutil.rmtree(d, ignore_errors=True)
