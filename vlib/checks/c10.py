"""C10 - output depends only on (bytes, language, configuration, file name)."""
import json
import os
import shutil

from ..common import pmap, log, build, Work, sh
from .. import driver as drv
from .. import corpus
from . import driver_engine as eng

LEVEL = "model_checking"
ENVS = [None, {"LC_ALL": "C"}, {"LC_ALL": "de_DE.UTF-8", "LANG": "de_DE.UTF-8"}, {"HOME": "/nonexistent"},
        {"TZ": "Asia/Tokyo"}, {"MALLOC_PERTURB_": "165"}, {"UNC_VERIF_TRACE": "aux_trace.ndjson", "UNC_VERIF_PASS": "1"}]
OBS = ["L", "s", "ds_for_p", "dot", "dd", "LA"]


def build_pool(ctx, unc, cfg, root, n):
    ins = corpus.inputs()
    ctx.rng.shuffle(ins)
    by_lang = {}
    for c in ins:
        by_lang.setdefault(corpus.lang_of(c.inp), []).append(c)
    picks = []
    langs = sorted(by_lang)
    k = 0
    while len(picks) < n and any(by_lang.values()):
        l = langs[k % len(langs)]
        k += 1
        if by_lang[l]:
            picks.append(by_lang[l].pop())
    def mk(i_c):
        i, c = i_c
        src = open(c.inp, "rb").read()
        if len(src) > 60000:
            return None
        ext = os.path.splitext(c.inp)[1]
        d = os.path.join(root, "ref%d" % i)
        os.makedirs(d, exist_ok=True)
        name = "g%d%s" % (i, ext)
        rc, fmt = drv.ref_format(unc, cfg, name, src, cwd=d)
        # same language whether it comes from -l or from the extension
        rc2, fmt2 = drv.ref_format(unc, cfg, name, src, lang=corpus.lang_of(c.inp), cwd=d)
        shutil.rmtree(d, ignore_errors=True)
        if rc != 0 or rc2 != 0:
            return None
        f = drv.FileSpec(name, src, fmt, "fmt" if fmt == src else "unf", corpus.lang_of(c.inp))
        f.orig = os.path.relpath(c.inp, corpus.REPO)
        f.fmt_l = fmt2
        return f
    pool = [f for f in pmap(mk, list(enumerate(picks)), nproc=16) if f]
    return pool


def run(ctx):
    quick = ctx.tier == "quick"
    unc = ctx.unc()
    eng.model_check(ctx, "Driver_all")
    invs = eng.generate(ctx, "Driver_c10")
    root = ctx.work.sub("world")
    cfg = os.path.join(root, "drv.cfg")
    open(cfg, "wb").write(drv.CFG_TEXT)
    # a formatted twin of each unformatted file gives the "fmt" class in every language
    pool = build_pool(ctx, unc, cfg, root, 40 if quick else 260)
    twins = []
    for f in pool:
        if f.cls == "unf":
            d = os.path.join(root, "tw")
            os.makedirs(d, exist_ok=True)
            rc, again = drv.ref_format(unc, cfg, "t" + f.name, f.fmt, cwd=d)
            if rc == 0 and again == f.fmt:
                t = drv.FileSpec("t" + f.name, f.fmt, f.fmt, "fmt", f.lang)
                t.orig = f.orig + " (formatted)"
                t.fmt_l = f.fmt
                twins.append(t)
    pool += twins
    # files that leave parser state behind (open disabled region, open #if, CR line ends, BOM ...): a delivery
    # mode that handles several files in one process must still deliver the reference bytes for each
    from .c11 import REPS
    d = os.path.join(root, "reps")
    os.makedirs(d, exist_ok=True)
    for n, src in sorted(REPS.items()):
        name = "r_" + n
        rc, fmt = drv.ref_format(unc, cfg, name, src, cwd=d)
        rc2, fmt2 = drv.ref_format(unc, cfg, name, src, lang=corpus.lang_of(name), cwd=d)
        if rc == 0 and rc2 == 0 and src:
            f = drv.FileSpec(name, src, fmt, "fmt" if fmt == src else "unf", corpus.lang_of(name))
            f.orig = "rep:" + n
            f.fmt_l = fmt2
            pool.append(f)
    bycls = {"fmt": [f for f in pool if f.cls == "fmt"], "unf": [f for f in pool if f.cls == "unf"]}
    mism = [f.orig for f in pool if f.fmt_l != f.fmt]
    reps = 1 if quick else 4
    jobs = []
    n = 0
    for rep in range(reps):
        for inv in invs:
            a = inv["a"]
            fs = []
            ok = True
            for c in inv["files"]:
                cand = bycls[c]
                if a["lang"] == "l" and fs:
                    cand = [f for f in cand if f.lang == fs[0].lang]
                cand = [f for f in cand if f.name not in {x.name for x in fs}]
                if not cand:
                    ok = False
                    break
                rp = [f for f in cand if f.orig.startswith("rep:")]
                fs.append(ctx.rng.choice(rp) if rp and len(inv["files"]) > 1 and ctx.rng.random() < 0.5 else ctx.rng.choice(cand))
            if not ok:
                continue
            obs = [o for o in OBS if ctx.rng.random() < 0.3]
            env = ctx.rng.choice(ENVS)
            n += 1
            jobs.append((n, inv, fs, obs, env, cfg))
    # the configuration is one of the four things the bytes may depend on: worlds under other configurations (every option
    # set at random; all align_ / cmt_ / nl_ families on) hold the dense programs of vlib/hazard.py in every language; every
    # single-file command line is executed there with at least one observer option (-L A logs every severity)
    from .. import cfggen, hazard
    xcfgs = [cfggen.random_full_config(ctx.rng, unc, keep_default=ctx.rng.choice([0.0, 0.4])).replace("\ncode_width=", "\n#code_width=")
             for _ in range(5 if quick else 40)]
    reg = cfggen.registry(unc)
    for pre in ("align_", "nl_", "sp_"):
        xcfgs.append("".join("%s=%s\n" % (o["name"], {"bool": "true", "unum": "3", "iarf": "force", "num": "3"}[o["kind"]]) for o in reg
                             if o["name"].startswith(pre) and o["kind"] in ("bool", "unum", "iarf", "num") and "thresh" not in o["name"]))
    # ... and one that inserts a file it names relative to itself
    xcfgs.append("cmt_insert_file_header=aux_hdr.txt\ncmt_insert_func_header=aux_hdr.txt\nindent_columns=3\n")
    single = [inv for inv in invs if len(inv["files"]) == 1]
    nx = 0
    for k, ctext in enumerate(xcfgs):
        rk = os.path.join(root, "x%d" % k)
        os.makedirs(rk, exist_ok=True)
        ck = os.path.join(rk, "x.cfg")
        open(ck, "w").write(ctext)
        if "aux_hdr.txt" in ctext:
            open(os.path.join(rk, "aux_hdr.txt"), "w").write("/* project header */\n")
        xpool = []
        for lang, text in sorted(hazard.DENSE.items()):
            name = "d%d%s" % (k, hazard.EXT[lang])
            rc, fmt = drv.ref_format(unc, ck, name, text.encode(), cwd=rk)
            if rc == 0:
                f = drv.FileSpec(name, text.encode(), fmt, "fmt" if fmt == text.encode() else "unf", lang)
                f.orig = "dense:%s|cfg%d" % (lang, k)
                xpool.append(f)
        for f in xpool:
            cand = [inv for inv in single if inv["files"][0] == f.cls]
            for inv in ctx.rng.sample(cand, min(len(cand), 6 if quick else 16)):
                obs = [o for o in OBS if ctx.rng.random() < 0.3]
                if not ({"L", "LA", "s"} & set(obs)):
                    obs.append(ctx.rng.choice(["LA", "LA", "L", "s"]))
                n += 1
                nx += 1
                jobs.append((n, inv, [f], obs, ctx.rng.choice(ENVS), ck))
    ctx.cov["invocations_under_other_configurations"] = nx

    def do(job):
        n, inv, fs, obs, env, cfg = job
        d = os.path.join(ctx.work.path, "r%06d" % n)
        # with -l the reference is the -l run (identical to the extension run on this tree, checked below)
        o = drv.execute(unc, cfg, inv["a"], fs, d, obs=obs, env=env)
        shutil.rmtree(d, ignore_errors=True)
        return {"a": inv["a"], "files": inv["files"], "o": o, "exp": inv["exp"], "names": [f.orig for f in fs], "obs": obs, "env": env}

    events = pmap(do, jobs, nproc=16)
    ctx.cov["evaluations"] = len(events)
    ctx.cov["pool_files"] = len(pool)
    ctx.cov["pool_languages"] = sorted({f.lang for f in pool})
    ctx.cov["distinct_nontrivial"] = len({json.dumps([e["a"], e["names"]], sort_keys=True) for e in events})
    ctx.cov["rule"] = ("TLC (Driver.tla, family c10) enumerates every sensible command line without --check/--if-changed (source x in-place x "
                       "destination x language source x -p/-q/csv, legal and illegal) x file class sequences; each is executed with corpus "
                       "files of all languages drawn by seed, a random subset of observer options (-L, -s, --dump-steps, UNC_VERIF_TRACE) and a "
                       "random environment (LC_ALL, HOME, TZ, MALLOC_PERTURB_); delivered bytes are compared with the reference run "
                       "(-f to stdout) of the same (bytes, language, config, name); distinct = distinct (command line, files)")
    for e in events[:2]:
        ctx.sample({"args": eng.argsig(e["a"]), "files": e["names"], "obs": e["obs"], "env": e["env"], "cmd": e["o"]["cmd"],
                    "observed": {k: e["o"][k] for k in ("exit", "touched", "stdout")}})
    for o in mism:
        ctx.violation("LangSource|%s" % o, "-l <language of the extension> and extension-based detection give different bytes for %s" % o,
                      {"kind": "langsource", "file": o})
    r = eng.validate(ctx, events, "c10")
    if r is None:
        return
    ndrift = 0
    for rep in r.emitted:
        e = events[rep["l"] - 1]
        bad = [b for b in rep["bad"] if b == "OutputLocation"]
        if rep.get("drift") and not bad:
            ndrift += 1
            ctx.drift.append({"args": eng.argsig(e["a"]), "files": e["files"], "observed": {k: e["o"][k] for k in ("exit", "pass", "fail", "touched", "stdout")}, "expected": rep["exp"]})
        for b in bad:
            sig = "%s|%s|%s" % (b, eng.argsig(e["a"]), ",".join(e["names"]))
            ctx.violation(sig, "%s: `%s` (obs %s, env %s) on %s -> exit=%s touched=%s stdout=%s; model expects %s" % (
                b, " ".join(e["o"]["cmd"]), e["obs"], e["env"], e["names"], e["o"]["exit"], e["o"]["touched"], e["o"]["stdout"], rep["exp"].get("touched")),
                {"kind": "driver10", "a": e["a"], "files": e["files"], "names": e["names"], "obs": e["obs"], "env": e["env"], "observed": e["o"], "expected": rep["exp"]})
    ctx.cov["traces_validated_against_impl"] = len(events) - ndrift
    ctx.cov["drift_invocations"] = ndrift
    ctx.assumptions += ["the reference bytes come from the same binary (mode -f, output on stdout)",
                        "address-space layout randomisation is left on; each invocation is a fresh process"]


def replay(path):
    rp = json.load(open(path))
    print(json.dumps({k: rp[k] for k in rp if k in ("what", "names", "obs", "env")}, indent=1))
    print("re-run: the command in 'what' in a directory holding the named corpus files renamed g<i><ext>; config = vlib/driver.py CFG_TEXT")
    return 0
