"""C07 - disabled regions are copied through untouched.  Region.tla + RegionTrace.tla."""
import json
import os
import shutil
import hashlib
import random

from .. import obs, corpus, cfggen
from ..common import pmap_proc, tlc_retry, write_ndjson, sh, SPEC

LEVEL = "model_checking"
OFFM, ONM = "*INDENT-OFF*", "*INDENT-ON*"
LEXT = {"C": ".c", "CPP": ".cpp", "PAWN": ".pawn", "JAVA": ".java", "CS": ".cs", "D": ".d"}
RAW = ["/* foo %d */ x(); /* then the enable text: *INDENT-ON* */", "\t x  =  [ (  {  %d   ", "  @@ $$ garbage `  %d", "    indented   raw %d\t", "if(a){b;}else   {c ;}  // %d  ", "\"unterminated %d",
       "   a=b+c  ;    /* in region %d */   ", "\t\t\ttabs\tinside\t%d", "#define  X%d   ( 1+2 )", "}  ) ] %d", "   'q %d", "  café  %d  ",
       # lines the tokenizer has other readers for (comments in column 1 under disable_processing_nl_cont)
       # (a region line that ends in a backslash is left out: whether the marker line behind it is 'spliced' is read differently by the
       #  observation layer's lexer and by the line-wise reader of regions)
       "//   note %d   ", "/* col1 %d */   \t"]


def render(kinds, rng, style=0, final_nl=True, lang="C"):
    """kinds -> (text, [line texts])"""
    out = []
    for i, k in enumerate(kinds):
        if k == "code" and lang == "PAWN":
            # (a bare 'f( )' line would make the next line its one-statement body)
            t = ["new   a%d=%d", "  new b%d  = %d", "x%d  =  y+ %d"][(i + style) % 3] % (i, i)
        elif k == "code":
            t = ["int   a%d=%d ;", "  void f%d( void ) ;", "x%d  =  y+ %d;"][(i + style) % 3] % ((i, i) if (i + style) % 3 != 1 else (i,))
        elif k in ("raw",):
            t = rng.choice(RAW) % i
        elif k == "rawon":
            t = "   s%d = \"%s\"  ;  " % (i, ONM)
        elif k == "off":
            t = ["/* %s */", "// %s", "    /* %s */", "/* note %s here */"][(i + style) % 4] % OFFM
        elif k == "offtail":
            # the marker comment behind code, region text behind it on the same line
            code = ("new   g%d=%d;" % (i, i)) if lang == "PAWN" else ("int   g%d=%d ;" % (i, i))
            t = code + " /* %s */" % OFFM + ["   first   line %d", "\tnot   code $$ at all %d\t", "  x  (  %d"][(i + style) % 3] % i
        elif k == "on":
            t = ["/* %s */", "// %s", "  /* %s */", "/* back %s */"][(i + style) % 4] % ONM
        elif k == "offon":
            t = "/* %s nothing %s */" % (OFFM, ONM)
        elif k == "pasm":
            t = "#pragma asm"
        elif k == "pend":
            t = "#pragma endasm"
        elif k == "asm":
            t = "#asm"
        elif k == "endasm":
            t = "#endasm"
        elif k == "blank":
            t = ""
        elif k == "ws":
            t = ["  ", "\t", " \t "][(i + style) % 3]
        out.append(t)
    text = "\n".join(out) + ("\n" if final_nl else "")
    return text, out


def machine(lines):
    """the Region.tla machine run over concrete lines: [(off_before, in_region)].  Outside regions a line that ends in a
    backslash is read together with its continuation lines (a width limit may have split '#pragma asm')."""
    res = []
    off = False
    i, n = 0, len(lines)
    while i < n:
        j = i
        logical = lines[i]
        st0 = logical.lstrip(" \t")
        if not off or st0.startswith(("#", "/*")):
            while logical.rstrip(" \t").endswith("\\") and j + 1 < n and (not off or st0.startswith("#")):
                j += 1
                logical = logical.rstrip(" \t")[:-1] + " " + lines[j]
            # a marker comment that a comment option re-flowed over several lines
            st = logical.lstrip(" \t")
            if st.startswith("/*") and "*/" not in st:
                while "*/" not in lines[j] and j + 1 < n:
                    j += 1
                    logical = logical + " " + lines[j]
        s = " ".join(logical.replace("\t", " ").split())
        if s.startswith("# "):
            s = "#" + s[2:]
        midline = OFFM in s and not s.startswith(("/*", "//", "#")) and "/*" in s and s.find("/*") < s.find(OFFM) and ONM not in s
        sw_off = (not off) and (midline or (OFFM in s and s.startswith(("/*", "//")) and not (ONM in s and s.find(ONM) > s.find(OFFM)))
                                or s.replace("# ", "#") == "#pragma asm" or s.replace("# ", "#") == "#asm")
        # the enabling text must stand in the comment that starts the line (a '/* */' comment: before its first closer)
        on_in_first = ONM in s and (s.startswith("//") or (s.startswith("/*") and ("*/" not in s or s.find(ONM) < s.find("*/"))))
        sw_on = off and (on_in_first or (s.startswith("#pragma") and s.split()[1:2] == ["endasm"]) or s.startswith("#endasm"))
        inreg = off and not sw_on
        for k in range(i, j + 1):
            res.append((off, inreg))
        if sw_off:
            off = True
        elif sw_on:
            off = False
        i = j + 1
    return res


def regions(lines):
    """[[lines of region 1], ...] with whitespace-only lines as ''; one entry per disabling marker, possibly empty"""
    regs = []
    cur = None
    prev_off = False
    prev_line = ""
    for l, (off, inreg) in zip(lines, machine(lines)):
        if off and not prev_off:
            cur = []
            regs.append(cur)
            # region text behind a marker comment that stands behind code on the previous line
            if OFFM in prev_line and not prev_line.lstrip(" \t").startswith(("/*", "//", "#")) and "*/" in prev_line[prev_line.find(OFFM):]:
                tail = prev_line[prev_line.find("*/", prev_line.find(OFFM)) + 2:]
                if tail.strip(" \t"):
                    cur.append(tail)
        prev_off = off
        prev_line = l
        if inreg:
            cur.append("" if l.strip(" \t") == "" else l)

    # the file ends with the line whose marker comment stands behind code: the region is the rest of that line
    if lines and not prev_off and OFFM in prev_line and ONM not in prev_line and not prev_line.lstrip(" \t").startswith(("/*", "//", "#")) \
            and "/*" in prev_line and prev_line.find("/*") < prev_line.find(OFFM) and "*/" in prev_line[prev_line.find(OFFM):]:
        tail = prev_line[prev_line.find("*/", prev_line.find(OFFM)) + 2:]
        regs.append([tail] if tail.strip(" \t") else [])
    return regs


def outside(lines):
    return [l for l, (off, inreg) in zip(lines, machine(lines)) if not inreg]


def unjoin(out_lines, rin):
    """an output line '<region line><blanks>/* ..ON.. */' (the line break in front of the enabling marker comment was deleted, an edge
    line break) is read as the two lines it was; only when the text in front IS a line of a region of the input"""
    known = {y.rstrip(" \t"): y for r in rin for y in r if y != ""}
    res = []
    for l in out_lines:
        if ONM in l and "/*" in l[:l.find(ONM)] and not l.lstrip(" \t").startswith(("/*", "//")):
            cut = l.rfind("/*", 0, l.find(ONM))
            pre = l[:cut].rstrip(" \t")
            if pre in known and ONM not in known[pre]:
                res.append(known[pre])
                res.append(l[cut:])
                continue
        res.append(l)
    return res


def marker_lines(lines):
    return [" ".join(l.split()) for l in lines if OFFM in l or ONM in l or l.strip().startswith(("#pragma", "#asm", "#endasm"))]


def locate(rin, out_lines):
    """the regions of the input as contiguous blocks of the output, in order: [(start, end)] or None.  Used only when a comment
    option rewrote the marker comments themselves (merged two comments), so that re-reading the output finds other regions."""
    norm = ["" if l.strip(" \t") == "" else l for l in out_lines]
    pos, res = 0, []
    for r in rin:
        core = list(r)
        while core and core[0] == "":
            core.pop(0)
        while core and core[-1] == "":
            core.pop()
        if not core:
            res.append((pos, pos))
            continue
        def at(k_):
            # the first line of a region may be the rest of the line behind the marker comment's '*/'
            first = norm[k_] == core[0] or (norm[k_].endswith("*/" + core[0]) and not core[0].lstrip(" \t").startswith(("/*", "//")))
            return first and norm[k_ + 1:k_ + len(core)] == core[1:]
        k = pos
        while k + len(core) <= len(norm) and not at(k):
            k += 1
        if k + len(core) > len(norm):
            return None
        a_, b_ = k, k + len(core)
        while a_ > pos and norm[a_ - 1] == "":
            a_ -= 1
        while b_ < len(norm) and norm[b_] == "":
            b_ += 1
        res.append((a_, b_))
        pos = b_
    return res


def split(text):
    return [l for l, t in obs.split_lines(text)]


# where the marker lines and the region stand: at file level, or nested in a construct (head, tail around the rendered lines)
WRAPS = {
    "func": ("void w(void)\n{\n", "}\n"),
    "enum": ("enum E\n{\n    E1,\n", "    E9\n};\n"),
    "enumlast": ("enum E\n{\n    E1,\n", "};\n"),
    "init": ("int t[] =\n{\n    1,\n", "    9\n};\n"),
    "initlast": ("int t[] =\n{\n    1,\n", "};\n"),
    "struct": ("struct S\n{\n    int m1;\n", "    int m9;\n};\n"),
    "args": ("void w(void)\n{\n    f(1,\n", "      9);\n}\n"),
    "ifbody": ("void w(int a)\n{\n    if (a)\n", "    a++;\n}\n"),
    "switch": ("void w(int a)\n{\n    switch (a)\n    {\n    case 1:\n", "        break;\n    }\n}\n"),
}


def wrap_name(wrap, lang):
    if lang == "PAWN" or not wrap:
        return ""
    if wrap is True:
        return "func"
    if lang in ("JAVA", "CS") and wrap in ("init", "struct", "enum", "enumlast", "initlast"):
        return "func"
    return wrap


def wrap_text(text, wrap):
    if not wrap:
        return text
    head, tail = WRAPS[wrap]
    return head + text + ("" if text.endswith("\n") else "\n") + tail


def _job(a):
    unc, tmp, i, kinds, cfgtext, style, final_nl, seed, wrap, lang = a
    rng = random.Random(seed)
    wrap = wrap_name(wrap, lang)
    text, ls = render(kinds, rng, style, final_nl, lang)
    text = wrap_text(text, wrap)
    src = os.path.join(tmp, "r%d%s" % (i, LEXT[lang]))
    cfg = os.path.join(tmp, "r%d.cfg" % i)
    obs.write(src, text.encode("utf-8"))
    obs.write(cfg, cfgtext)
    rc, so, se, evs = obs.run(unc, ["-c", cfg, "-q", "-l", lang, "-f", src], cwd=tmp, trace=os.path.join(tmp, "r%d.nd" % i), timeout=20)
    res = []
    reshaped = None
    rid = "file|%d" % i
    ev = {"e": "File", "id": rid, "rc": rc, "kinds": kinds, "regs": [], "nregs_out": 0, "ign": [], "ign_expected": []}
    if rc == 0:
        out = obs.decode(so)
        rin = regions(split(text))
        out_lines = unjoin(split(out), rin)
        rout = regions(out_lines)
        if rin != rout and marker_lines(split(text)) != marker_lines(split(out)):
            loc = locate(rin, split(out))
            if loc is not None:
                norm_out = ["" if l.strip(" \t") == "" else l for l in split(out)]
                rout = [norm_out[a_:b_] if r_ and any(x != "" for x in r_) else list(r_) for r_, (a_, b_) in zip(rin, loc)]
                for r_, ro in zip(rin, rout):
                    # a first line found as the rest of a marker line: the rest is the region's line
                    core0 = next((x for x in r_ if x != ""), None)
                    for q, x in enumerate(ro):
                        if core0 is not None and x != core0 and x.endswith("*/" + core0):
                            ro[q] = core0
                            break
                reshaped = loc
                ev["reshaped"] = True
        ev["nregs_out"] = len(rout)
        ev["regs"] = [{"i": a_, "o": (rout[k] if k < len(rout) else ["<missing>"])} for k, a_ in enumerate(rin)]
        tk = obs.event(evs, "Tokenized")
        if tk:
            ev["ign"] = [c[obs.TEXT] for c in tk["chunks"] if c[obs.TYPE] == "IGNORED" and c[obs.TEXT].strip(" \t")]
            ev["ign_expected"] = [l for r in rin for l in r if l != ""]
    res.append(ev)
    # opacity: same kinds, other raw contents
    if rc == 0 and any(k in ("raw", "rawon", "ws", "blank") for k in kinds):
        rng2 = random.Random(seed + 7919)
        # the same number of lines (alignment spans count line breaks, also across a region), other contents
        kinds2 = list(kinds)
        text2, ls2 = render(kinds2, rng2, style, final_nl, lang)
        # keep the non-region lines textually identical: re-render them from the first rendering
        it = iter([l for l, k in zip(ls, kinds) if k not in ("raw",)])
        ls2b = []
        for l, k in zip(ls2, kinds2):
            ls2b.append(l if k == "raw" else next(it))
        text2 = "\n".join(ls2b) + ("\n" if final_nl else "")
        text2 = wrap_text(text2, wrap)
        src2 = os.path.join(tmp, "r%db%s" % (i, LEXT[lang]))
        obs.write(src2, text2.encode("utf-8"))
        rc2, so2, se2 = sh([unc, "-c", cfg, "-q", "-l", lang, "-f", src2], cwd=tmp, timeout=20)
        os.unlink(src2)
        if rc2 == 0:
            o1 = outside(unjoin(split(obs.decode(so)), rin))
            o2 = outside(unjoin(split(obs.decode(so2)), regions(split(text2))))
            if reshaped is not None:
                l1, l2 = split(obs.decode(so)), split(obs.decode(so2))
                loc2 = locate(regions(split(text2)), l2)
                if loc2 is None:
                    loc2 = []
                o1 = [l for k, l in enumerate(l1) if not any(a_ <= k < b_ for a_, b_ in reshaped)]
                o2 = [l for k, l in enumerate(l2) if not any(a_ <= k < b_ for a_, b_ in loc2)]
            res.append({"e": "Opaque", "id": "opaque|%d" % i,
                        "ids": [hashlib.sha1("\n".join(o1).encode()).hexdigest()[:12], hashlib.sha1("\n".join(o2).encode()).hexdigest()[:12]]})
    os.unlink(src)
    os.unlink(cfg)
    return res, (kinds, cfgtext, style, final_nl, seed, wrap, lang)


def run(ctx):
    quick = ctx.tier == "quick"
    unc = ctx.unc()
    r = tlc_retry("Region", "Region", workers=8, timeout=900)
    ctx.add_tlc(r)
    if r.error:
        ctx.error("Region: " + r.error)
    elif r.violation:
        ctx.model_violation("Region", "Region", r)
    d = os.path.join(ctx.work.path, "spec")
    os.makedirs(d, exist_ok=True)
    shutil.copy(os.path.join(SPEC, "Region.tla"), d)
    n = 3 if quick else 4
    open(os.path.join(d, "RegionGen.cfg"), "w").write("SPECIFICATION Spec\nCONSTANTS\n  MaxLines = %d\n  Emit = TRUE\nINVARIANTS EmitFile\nCHECK_DEADLOCK FALSE\n" % n)
    rg = tlc_retry("Region", "RegionGen", cwd=d, workers=1, timeout=1800)
    if rg.error:
        ctx.error("RegionGen: " + rg.error)
    gen = [e["lines"] for e in rg.emitted if any(e["inreg"])]
    ctx.cov["files_from_tlc"] = len(gen)
    # longer seeded sequences following the same machine
    kinds_on = ["code", "code", "off", "pasm", "asm", "offon", "blank", "ws", "offtail"]
    kinds_off = ["raw", "raw", "raw", "blank", "ws", "rawon", "on", "on"]
    extra = []
    for _ in range(150 if quick else 2000):
        seq, off, how = [], False, None
        for i in range(ctx.rng.randint(5, 12)):
            if not off:
                k = ctx.rng.choice(kinds_on)
                if k in ("off", "pasm", "asm", "offtail"):
                    off, how = True, ("off" if k == "offtail" else k)
            else:
                k = ctx.rng.choice(kinds_off)
                if k == "on":
                    k = {"off": "on", "pasm": "pend", "asm": "endasm"}[how]
                    off = False
            seq.append(k)
        if any(k in ("raw", "rawon", "offtail") for k in seq):
            extra.append(seq)
    tmp = ctx.work.sub("c07")
    cfgs = [""] + [cfggen.random_any_config(ctx.rng, unc) for _ in range(11 if quick else 60)]
    cfgs += ["cmt_convert_tab_to_spaces=true\ncmt_indent_multi=true\n", "nl_max=1\neat_blanks_after_open_brace=true\neat_blanks_before_close_brace=true\n",
             "align_var_def_span=3\nalign_assign_span=2\nindent_columns=2\nindent_with_tabs=0\n", "newlines=crlf\ncode_width=20\n",
             "mod_pawn_semicolon=true\n", "disable_processing_nl_cont=true\n", "disable_processing_nl_cont=true\ncmt_width=20\nsp_before_nl_cont=force\nalign_nl_cont=1\n",
             # the options that delete line breaks or add tokens next to whatever stands there
             "nl_remove_extra_newlines=2\n", "nl_remove_extra_newlines=1\n",
             "nl_create_list_one_liner=true\nnl_create_func_def_one_liner=true\nnl_create_if_one_liner=true\nnl_create_for_one_liner=true\nnl_create_while_one_liner=true\n",
             "mod_enum_last_comma=add\nmod_full_brace_if=add\nmod_full_brace_for=add\nmod_full_brace_while=add\nmod_paren_on_return=add\n",
             "mod_enum_last_comma=remove\nmod_full_brace_if=remove\nmod_remove_extra_semicolon=true\nmod_remove_empty_return=true\n",
             "nl_squeeze_ifdef=true\nnl_squeeze_paren_close=true\nnl_max=2\nnl_after_brace_open=true\nnl_after_brace_close=true\n",
             cfggen.all_iarf(unc, "nl_", "remove"), cfggen.all_iarf(unc, "nl_", "force")]
    jobs = []
    allseq = gen + extra
    if quick:
        ctx.rng.shuffle(gen)
        allseq = gen[:500] + extra
    for i, kinds in enumerate(allseq):
        for cfgt in ctx.rng.sample(cfgs, 2 if quick else 4) + ([cfgs[-1 - (i % 2)] if False else ("disable_processing_nl_cont=true\n" if i % 3 == 0 else "")] if any(k in ("raw", "offtail") for k in kinds) else []):
            lang = ctx.rng.choice(["C", "C", "C", "PAWN", "CPP", "JAVA", "CS", "D"])
            if lang == "PAWN" and ctx.rng.random() < 0.5:
                cfgt = cfgt + "mod_pawn_semicolon=true\n"
            if lang in ("JAVA",) and any(k in ("pasm", "pend", "asm", "endasm") for k in kinds):
                lang = "C"
            jobs.append((unc, tmp, len(jobs), kinds, cfgt, ctx.rng.randint(0, 3), ctx.rng.random() < 0.75, ctx.rng.randrange(1 << 30),
                         ctx.rng.choice(["", "", "", "func", "func", "enum", "enumlast", "init", "initlast", "struct", "args", "ifbody", "switch"]), lang))
    # cases that once broke the property (kept so that the repair is checked on every run): regress/C07
    rdir = os.path.join(os.path.dirname(os.path.dirname(os.path.dirname(os.path.abspath(__file__)))), "regress", "C07")
    if os.path.isdir(rdir):
        for f in sorted(os.listdir(rdir)):
            r_ = json.load(open(os.path.join(rdir, f)))
            jobs.append((unc, tmp, len(jobs), r_["kinds"], r_["cfg_text"], r_["style"], r_["final_nl"], r_["seed"], r_["wrap"], r_.get("lang", "C")))
    res = pmap_proc(_job, jobs, nproc=14)
    evs = [e for r_, meta in res for e in r_]
    metas = {}
    for r_, meta in res:
        for e in r_:
            metas[e["id"]] = meta
    ctx.cov["evaluations"] = len(jobs)
    tp = os.path.join(ctx.work.path, "c07.ndjson")
    write_ndjson(tp, evs)
    rt = tlc_retry("RegionTrace", "RegionTrace", env={"TRACE": tp}, workers=1, timeout=1800)
    if rt.error:
        ctx.error("RegionTrace: " + rt.error)
    else:
        if rt.violation and rt.violation[0] == "postcondition":
            ctx.error("RegionTrace: trace not consumed to the end")
        ctx.cov["traces_validated_against_impl"] = len(evs)
        byid = {e["id"]: e for e in evs}
        for rep in rt.emitted:
            e = byid[rep["id"]]
            meta = metas[rep["id"]]
            for b in rep["bad"]:
                sig = "%s|%s" % (b, rep["id"])
                if b == "RegionLost" and all(all(x == "" for x in rg_["i"]) for rg_ in e["regs"][e["nregs_out"]:]):
                    sig = "RegionVerbatim|blank-lines-at-region-edge"
                if b == "RegionVerbatim":
                    # class of the failing line: does it contain the enable marker text outside a leading comment?
                    bad_regs = [e["regs"][k - 1] for k in rep.get("regions", [])]
                    only_rawon = all(all((x == y) or (ONM in x and not x.strip().startswith(("/*", "//"))) for x, y in zip(rg_["i"], rg_["o"]))
                                     and len(rg_["i"]) == len(rg_["o"]) for rg_ in bad_regs) and bool(bad_regs)
                    if only_rawon:
                        sig = "RegionVerbatim|line-contains-enable-marker-text"

                    def edge_blank_only(rg_):
                        a_, b_ = list(rg_["i"]), [x for x in rg_["o"] if x != "<missing>"]
                        # the line break in front of the enabling marker comment is an edge line break as well: when it is
                        # deleted the marker stands behind the region's last line
                        for q, x in enumerate(b_):
                            if ONM in x and "/*" in x[:x.find(ONM)]:
                                pre = x[:x.rfind("/*", 0, x.find(ONM))]
                                for y in a_:
                                    if y != "" and pre.rstrip(" \t") == y.rstrip(" \t"):
                                        b_[q] = y
                        while a_ and a_[0] == "":
                            a_.pop(0)
                        while b_ and b_[0] == "":
                            b_.pop(0)
                        while a_ and a_[-1] == "":
                            a_.pop()
                        while b_ and b_[-1] == "":
                            b_.pop()
                        return a_ == b_
                    if bad_regs and all(edge_blank_only(rg_) for rg_ in bad_regs):
                        sig = "RegionVerbatim|blank-lines-at-region-edge"
                first = next((k for k in meta[0] if k not in ("ws", "blank")), "")
                if meta[5] == "ifbody" and first in ("off", "pasm", "asm", "offon") and b in ("RegionOpaque", "RegionVerbatim", "RegionLost"):
                    # the virtual brace of the unbraced body is opened BEHIND the region that starts the body
                    sig = "%s|unbraced-body-starts-with-region" % b
                ctx.violation(sig, "%s violated for kinds %s (%s, %s): %s" % (b, meta[0], meta[5] or "file level", meta[6], json.dumps(e.get("regs", e.get("ids")))[:600]),
                              {"kind": "c07", "kinds": meta[0], "cfg_text": meta[1], "style": meta[2], "final_nl": meta[3], "seed": meta[4], "wrap": meta[5], "lang": meta[6]})
            for dn in rep["drift"]:
                ctx.drift.append({"module": "Region", "kind": dn, "id": rep["id"], "kinds": meta[0]})
    files = [e for e in evs if e["e"] == "File" and e["rc"] == 0 and e["regs"]]
    ctx.cov["runs_accepted_by_uncrustify"] = len([e for e in evs if e["e"] == "File" and e["rc"] == 0])
    ctx.cov["distinct_nontrivial"] = len({(tuple(e["kinds"]), json.dumps(e["regs"])) for e in files})
    ctx.cov["rule"] = ("Region.tla: all line sequences <= 5 over 12 line kinds model-checked; all sequences <= %d with a region emitted by TLC and "
                       "rendered (4 marker spellings, 11 raw-text shapes, with / without final newline, top level / inside a function body), "
                       "seeded longer sequences; each x seeded configurations drawn from ALL option kinds (code-modifying and comment options "
                       "included); opacity by re-rendering the regions with other contents; non-trivial = accepted run with at least one region, "
                       "distinct by (kinds, region text)" % n)
    if files:
        ctx.sample({"kinds": files[0]["kinds"], "regions": files[0]["regs"]})
    ctx.assumptions += ["alarms only for the documented usage: markers in comments that start their line, '#pragma asm' / '#asm' on their own line",
                        "rendered in C, C++, Java, C#, D and Pawn (the only language-specific interaction found is Pawn's virtual semicolons)"]


def replay(path):
    from ..common import build
    import tempfile
    r = json.load(open(path))
    if r.get("kind") == "model":
        print(r.get("tlc_tail", ""))
        return 1
    unc = build("hooks")
    d = tempfile.mkdtemp(prefix="c07replay")
    try:
        res, meta = _job((unc, d, 0, r["kinds"], r["cfg_text"], r["style"], r["final_nl"], r["seed"], r["wrap"], r.get("lang", "C")))
        bad = False
        for e in res:
            if e["e"] == "File":
                for rg in e["regs"]:
                    if rg["i"] != rg["o"]:
                        bad = True
                        print("region in :", rg["i"])
                        print("region out:", rg["o"])
            else:
                if len(set(e["ids"])) > 1:
                    bad = True
                    print("outside of region differs when the region content changes:", e["ids"])
        print("VIOLATION reproduced" if bad else "property holds on this case")
        return 1 if bad else 0
    finally:
        shutil.rmtree(d, ignore_errors=True)
