"""C19 - spacing options mean what they say at the places they are reported to govern.
Space.tla (arithmetic + clause) with Fusion.tla (MustSeparate) + SpaceTrace.tla."""
import json
import os
import shutil

from .. import lex, obs, corpus, cfggen, hazard, fusion
from ..common import pmap_proc, tlc_retry, write_ndjson, sh, SPEC
from . import c02

LEVEL = "model_checking"
AV = {0: "ignore", 1: "add", 2: "remove", 3: "force"}
VALS = ["ignore", "add", "remove", "force"]
EXT = {"C": ".c", "CPP": ".cpp", "OC": ".m", "JAVA": ".java", "CS": ".cs"}
BASE = ("align_assign_span=0\nalign_var_def_span=0\nalign_right_cmt_span=0\nalign_pp_define_span=0\nalign_struct_init_span=0\nalign_enum_equ_span=0\n"
        "align_nl_cont=0\ncode_width=0\nalign_typedef_span=0\nalign_func_params=false\nalign_number_right=false\nindent_with_tabs=0\n"
        "align_var_struct_span=0\nalign_var_class_span=0\nalign_mix_var_proto=false\nalign_func_proto_span=0\nalign_oc_msg_spec_span=0\n"
        "align_single_line_func=false\nalign_single_line_brace=false\nalign_left_shift=false\nalign_asm_colon=false\nalign_eigen_comma_init=false\n"
        "align_same_func_call_params=false\nalign_oc_decl_colon=false\nalign_oc_msg_colon_span=0\nalign_braced_init_list_span=0\n"
        "align_constr_value_span=0\n")
SPACEY = {
    "C": """struct point {int x; int y;};
union u { int a ; float b ; } ;
enum e {A,B , C};
typedef int (*fp)(int,int);
static int arr[ 3 ]={1,2 ,3};
int f( int a,int * b , char**c ){
    int x=a+1 ;  int *p = & x;
    x = ( a > 0 ) ? a : -a;
    if( x ){ x ++; } else{ --x ; }
    for( x=0;x<10 ;x++ ) { arr [ x%3 ] += x; }
    while(x) x -- ;
    do { x+=2; }while( x < 5 );
    switch ( x ) { case 1 : break ; default: break; }
    x = f ( x , p , ( char ** ) 0 ) ;
    p = ( int* ) c ;  * p = sizeof ( int ) ;
    return( x );
}
#define MAX( a , b ) ( (a)>(b) ? (a):(b) )
#if defined( X ) && ! defined(Y)
#endif
#define MULTI( a , b )   \\
    do {\\
        f( a ) ; \\
        g( b ) ;    \\
        h( a , b ) /* c */  \\
    } while ( 0 )
""",
    "CPP": """namespace n {class K : public B , private C{public: K( ) : m ( 0 ),n( 1 ) { } ~K ( );
template< typename T ,typename U >T g( const T & t , U && u )const{ return static_cast< T >( t ) ; }
int operator ( ) ( int a ) ; K & operator = ( const K& ) ; bool operator == ( const K &o )const;
private: int m ; int n; } ;}
int main( int argc,char * argv [ ] ){
    std :: vector< std::pair< int,int > > v ; auto l = [ & ] ( int x ) -> int { return x*2 ; } ; auto l0 = [ ] ( ) { return 1 ; } ; auto l1 = [] { return 2 ; } ; auto l2 = [  ] ( int y ) { return y ; } ;
    n :: K k ; k . g< int , long >( 1,2L ) ; K * pk = new K ( ) ; delete pk ; pk -> g ( 1 , 2 ) ;
    for ( auto & e : v ) { e . first ++ ; }
    try { throw 1 ; } catch ( int & e ) { } catch( ... ){ }
    if ( argc > 1 && ! argv ) { return - 1 ; }
    int a [ ] = { 1 , 2 } ; a [ 0 ] = a[1] << 2 >> 1 ;
    return l ( argc ) ;
}
enum class E : int { A = 1 , B } ;
using T = int ( * ) ( int ) ;
struct Conv { operator const char * ( ) const ; operator unsigned long ( ) ; } ;
void qt( Obj * a , Obj * b ){
    connect( a , SIGNAL( changed( QList< int > & , int * ) ) , b , SLOT( onChanged( QList< int > & , int * ) ) ) ;
    std :: vector< std :: pair< int , long > > w ; std :: map< int , int > & r = make( a , b ) ; int * p = get( ( a ) ) ; T t = T( ) ;
    connect( a , SIGNAL( done( ) ) , b , SLOT( quit( ) ) ) ; use( w , r , p , t ) ;
}
""",
}


SPACEY["OC"] = """#import <Foundation/Foundation.h>
@protocol P <NSObject>
- ( void ) run : ( int ) a with : ( NSString * ) s ;
@optional
@property ( nonatomic , copy ) NSString * name ;
@end
@interface A : NSObject < P , Q > {
    int m ;
    id < P > d ;
}
+ ( instancetype ) make ;
- ( int ) val : ( int ) a with : ( int ) b ;
@end
@implementation A
@synthesize name = _name ;
- ( int ) val : ( int ) a with : ( int ) b {
    NSArray * arr = @[ @1 , @2 ] ; NSDictionary * d2 = @{ @"k" : @"v" } ;
    NSString * s = [ NSString stringWithFormat : @"%d" , a ] ;
    [ self run : a with : s ] ; [ [ A alloc ] init ] ;
    void ( ^ blk ) ( int ) = ^ ( int x ) { m = x ; } ; blk ( 3 ) ;
    SEL sel = @selector( val : with : ) ; BOOL ok = [ self respondsToSelector : sel ] ;
    @try { @throw s ; } @catch ( NSException * e ) { } @finally { }
    for ( id o in arr ) { if ( o ) { continue ; } }
    return ok ? a : - b ;
}
@end
"""
SPACEY["JAVA"] = """package p . q ;
import java . util . * ;
@SuppressWarnings ( "x" ) public class A < T extends Comparable < T > > extends B implements C , D {
    private final int [ ] arr = new int [ ] { 1 , 2 } ; private Map < String , List < Integer > > m = new HashMap < > ( ) ;
    public A ( int a ) { super ( a ) ; this . arr [ 0 ] = a ; }
    @Override public < U > U f ( U u , int ... rest ) throws E1 , E2 {
        for ( int i = 0 ; i < rest . length ; i ++ ) { if ( i > 1 && ! ( i == 2 ) ) continue ; else break ; }
        for ( String s : m . keySet ( ) ) { System . out . println ( s + "x" ) ; }
        try { g ( ) ; } catch ( E1 | E2 e ) { throw e ; } finally { }
        Runnable r = ( ) -> { g ( ) ; } ; Function < Integer , Integer > h = x -> x * 2 ; Supplier < A > sup = A :: new ;
        synchronized ( this ) { assert u != null : "no" ; }
        int x = rest . length > 0 ? - rest [ 0 ] : + 1 ; x <<= 2 ; x >>>= 1 ;
        switch ( x ) { case 1 : break ; default : return u ; }
        return ( U ) u ;
    }
    enum Col { R , G , B ; }
    interface I { int ap ( int x ) ; }
}
"""
SPACEY["CS"] = """using System ; using System . Collections . Generic ;
namespace N . M {
    [ Serializable ] public class A < T > : B , IC where T : class , new ( ) {
        private readonly int [ ] arr = new int [ ] { 1 , 2 } ; Dictionary < string , List < int > > d = new Dictionary < string , List < int > > ( ) ;
        public int P { get ; private set ; } public int Q { get { return q ; } set { q = value ; } } int q ;
        public A ( int a ) : base ( a ) { this . arr [ 0 ] = a ; }
        public delegate void H ( object s , EventArgs e ) ; public event H Ev ;
        public T F < U > ( U u , params int [ ] rest ) where U : struct {
            foreach ( var s in d . Keys ) { Console . WriteLine ( s + "x" ) ; }
            for ( int i = 0 ; i < rest . Length ; i ++ ) { if ( i > 1 && ! ( i == 2 ) ) continue ; else break ; }
            try { G ( ) ; } catch ( Exception e ) when ( e != null ) { throw ; } finally { }
            Func < int , int > h = x => x * 2 ; Action act = ( ) => { G ( ) ; } ; int ? n = null ; int z = n ?? 0 ;
            var o = new { X = 1 , Y = 2 } ; string t = o ? . ToString ( ) ; lock ( this ) { z ++ ; }
            using ( var r = new R ( ) ) { z = r . V ; } unsafe { int * p = & z ; * p = 1 ; }
            switch ( z ) { case 1 : break ; default : return default ( T ) ; }
            return z > 0 ? new T ( ) : null ;
        }
    }
}
"""


def qt_table():
    """the options options_for_QT.cpp overrides inside SIGNAL( ) / SLOT( )"""
    import re
    t = open(os.path.join(corpus.REPO, "src", "options_for_QT.cpp"), errors="replace").read()
    return set(re.findall(r"\{\s*&options::(\w+)\s*\}", t))


def iarf_sp_options(unc):
    return [o for o in cfggen.registry(unc) if o["kind"] == "iarf" and o["name"].startswith("sp_") and not cfggen.NOT_WS.match(o["name"])]


def coded_configs(unc, rng, nrandom):
    opts = iarf_sp_options(unc)
    cfgs = []
    # coded joint assignments: in run r option i gets the r-th base-4 digit of its index: any two options differ in some run
    for r in range(5):
        cfgs.append(("coded%d" % r, {o["name"]: VALS[(i // (4 ** r)) % 4] for i, o in enumerate(opts)}))
    for k in range(nrandom):
        cfgs.append(("rand%d" % k, {o["name"]: rng.choice(VALS) for o in opts}))
    return cfgs, [o["name"] for o in opts]


def cfg_text(assign):
    return BASE + "".join("%s=%s\n" % kv for kv in assign.items())


QT = qt_table()


def _job(a):
    unc, tmp, i, src, lang, cname, assign = a
    cfg = os.path.join(tmp, "s_%s.cfg" % cname)
    if not os.path.exists(cfg):
        obs.write(cfg, cfg_text(assign))
    rc, so, se, evs = obs.run(unc, ["-c", cfg, "-q", "-l", lang, "-f", src], cwd=tmp, trace=os.path.join(tmp, "s%d.nd" % i), flags=["SPACE"], timeout=30)
    if rc != 0:
        return [], {"rc": rc}
    pre = obs.event(evs, "PreOutput")
    if not pre:
        return [], {"rc": rc}
    # chunks in output order (non-empty, not newline) <-> lexer items of the output (comments included)
    chunks = [c for c in pre["chunks"] if c[obs.TYPE] not in ("NEWLINE", "NL_CONT") and c[obs.TEXT] != ""]
    out = obs.decode(so)
    items = [it for it in lex.lex(out, lang) if it[0] not in ("pp(", "pp)")]
    pos = {}       # (orig line, orig col) -> (index of first item, index of last item) of the chunk in the output
    k = 0
    ok = True
    for c in chunks:
        if k >= len(items):
            ok = False
            break
        t = c[obs.TEXT]
        it = items[k]
        if it[1] == t or (c[obs.TYPE].startswith("COMMENT") and it[0].startswith("cmt")):
            pos[(c[obs.OLINE], c[obs.OCOL])] = (k, k)
            k += 1
            continue
        # one chunk, several tokens of the independent lexer ('()', '[]', '@interface', 'operator ()', an ignored line)
        want = "".join(t.split())
        acc = ""
        j = k
        while j < len(items) and len(acc) < len(want) and j - k < 60:
            acc += "".join(items[j][1].split())
            j += 1
        if acc == want:
            pos[(c[obs.OLINE], c[obs.OCOL])] = (k, j - 1)
            k = j
            continue
        ok = False
        break
    if not ok:
        return [], {"rc": 0, "unmapped": True}
    seen = {}
    res = []
    src_lines = open(src, "rb").read().decode("latin-1").replace("\r\n", "\n").replace("\r", "\n").split("\n")
    for e in evs:
        if e.get("e") != "Space":
            continue
        if e["t2"] == "NL_CONT":
            # the blank run before a backslash-newline: measured in the output bytes behind the first token
            p1 = pos.get((e["l1"], e["c1"]))
            if p1 is None or e["s1"] == "" or e["l1"] != e["l2"]:
                continue
            i1 = items[p1[1]]
            k2 = i1[3]
            while k2 < len(out) and out[k2] == " ":
                k2 += 1
            if out[k2:k2 + 2] != "\\\n":
                continue
            gout, gin = k2 - i1[3], e["c2"] - e["oce1"]
            rule = e["rule"]
            val = assign.get(rule, "")
            # a backslash-newline that a newline option inserted has no gap in the input
            ininput = e["l2"] <= len(src_lines) and src_lines[e["l2"] - 1].rstrip(" \t\r").endswith("\\")
            key = (rule, val, e["av"], e["force"], min(gin, 3), ininput, min(gout, 3), True, "nlcont", e["t1"])
            if key in seen:
                continue
            seen[key] = 1
            res.append({"id": "%s|%s|%d:%d" % (cname, os.path.basename(src), e["l1"], e["c1"]), "rule": rule, "val": val, "av": AV.get(e["av"], "?"),
                        "force": e["force"], "minsp": e["min_sp"], "gin": max(gin, 0), "same": ininput, "gout": max(gout, 0), "outsame": True,
                        "cmt2": False, "s1": list(e["s1"][-12:]), "s2": ["\\"], "lang": lang, "t1": e["t1"], "t2": e["t2"],
                        "src": src, "cname": cname, "qt": e.get("qt", 0), "qtrule": rule in QT})
            continue
        p1 = pos.get((e["l1"], e["c1"]))
        p2 = pos.get((e["l2"], e["c2"]))
        if p1 is None or p2 is None or p2[0] != p1[1] + 1 or e["s1"] == "" or e["s2"] == "":
            continue
        i1, i2 = items[p1[1]], items[p2[0]]
        outsame = i1[4] + i1[1].count("\n") == i2[4]
        gout = (i2[2] - i1[3]) if outsame else 0
        same = e["l1"] == e["l2"]
        gin = (e["c2"] - e["oce1"]) if same else 0
        rule = e["rule"]
        val = assign.get(rule, "")
        cmt2 = e["t2"].startswith("COMMENT")
        key = (rule, val, e["av"], e["force"], min(gin, 3), same, min(gout, 3), outsame, cmt2, e["s1"][-3:], e["s2"][:3])
        if key in seen:
            continue
        seen[key] = 1
        res.append({"id": "%s|%s|%d:%d" % (cname, os.path.basename(src), e["l1"], e["c1"]), "rule": rule, "val": val, "av": AV.get(e["av"], "?"),
                    "force": e["force"], "minsp": e["min_sp"], "gin": max(gin, 0), "same": same, "gout": max(gout, 0), "outsame": outsame,
                    "cmt2": cmt2, "s1": list(e["s1"][-12:]), "s2": list(e["s2"][:12]), "lang": lang, "t1": e["t1"], "t2": e["t2"],
                    "src": src, "cname": cname, "qt": e.get("qt", 0), "qtrule": rule in QT})
    return res, {"rc": 0}


def run(ctx):
    quick = ctx.tier == "quick"
    unc = ctx.unc()
    r = tlc_retry("Space", "Space", workers=4, timeout=300)
    ctx.add_tlc(r)
    if r.error:
        ctx.error("Space: " + r.error)
    elif r.violation:
        ctx.model_violation("Space", "Space", r)
    rw = tlc_retry("Space", "Space_wrong", workers=4, timeout=300)
    ctx.cov["variant_rejected"] = {"do_space returns another option's value": bool(rw.violation)}
    if not rw.violation:
        ctx.error("vacuity: WrongOption satisfies ValueObeyed")
    tmp = ctx.work.sub("c19")
    cfgs, names = coded_configs(unc, ctx.rng, 6 if quick else 50)
    if not quick:
        # the statement's exhaustive sweep: every option at each value with all others at a different value
        for n_ in names:
            for v in VALS:
                others = VALS[(VALS.index(v) + 1 + (hash(n_) % 3)) % 4]
                a = {m: others for m in names}
                a[n_] = v
                cfgs.append(("one_%s_%s" % (n_, v), a))
    ctx.cov["iarf_sp_options"] = len(names)
    srcs = []
    for lang, t in SPACEY.items():
        p = os.path.join(tmp, "spacey%s" % EXT[lang])
        obs.write(p, t)
        srcs.append((p, lang))
        # same program with every gap closed where legal / widened: gapIn classes 0, 1, 2+
        p2 = os.path.join(tmp, "spacey2%s" % EXT[lang])
        obs.write(p2, t.replace(" ( ", "(").replace(" , ", ",").replace(" ;", ";").replace("  ", " "))
        srcs.append((p2, lang))
    for lang in ("C", "CPP", "OC", "JAVA", "CS"):
        p = os.path.join(tmp, "dense%s" % EXT[lang])
        obs.write(p, hazard.DENSE[lang])
        srcs.append((p, lang))
    ins = [c for c in corpus.inputs() if (c.lang or corpus.lang_of(c.inp)) in EXT and os.path.getsize(c.inp) < 12000]
    ctx.rng.shuffle(ins)
    for c in ins[:50 if quick else 400]:
        srcs.append((c.inp, c.lang or corpus.lang_of(c.inp)))
    jobs = []
    for (cname, assign) in cfgs:
        use = srcs if (quick or not cname.startswith("one_")) else srcs[:6] + ctx.rng.sample(srcs[6:], 6)
        for (src, lang) in use:
            jobs.append((unc, tmp, len(jobs), src, lang, cname, assign))
    res = pmap_proc(_job, jobs, nproc=14)
    evs = [e for r_, info in res for e in r_]
    ctx.cov["evaluations"] = len(jobs)
    ctx.cov["runs_unmapped"] = sum(1 for r_, info in res if info.get("unmapped"))
    ctx.cov["runs_refused"] = sum(1 for r_, info in res if info.get("rc"))
    if ctx.cov["runs_refused"]:
        # the programs are valid and the configurations only set spacing options: a refusal judges nothing (the Java program was refused in
        # every run while it held '@ SuppressWarnings' - a blank behind the '@' is 'garbage' for uncrustify's Java tokenizer)
        ctx.error("vacuity: %d runs of the generated programs were refused" % ctx.cov["runs_refused"])
    ctx.cov["runs_refused_which"] = sorted({"%s|%s|rc=%s" % (os.path.basename(j[3]), j[5], info.get("rc")) for (r_, info), j in zip(res, jobs) if info.get("rc")})[:40]
    ctx.cov["pair_classes_judged"] = len(evs)
    ctx.cov["rules_seen"] = len({e["rule"] for e in evs})
    ctx.cov["option_rules_seen"] = len({e["rule"] for e in evs if e["val"]})
    # TLC per language (Fusion's table is per language)
    d = c02.spec_dir(ctx)
    assigns = dict(cfgs)
    for lang in ("C", "CPP", "OC", "JAVA", "CS"):
        le = [e for e in evs if e["lang"] == lang]
        if not le:
            continue
        tp = os.path.join(ctx.work.path, "c19-%s.ndjson" % lang)
        write_ndjson(tp, [{k: v for k, v in e.items() if k not in ("src", "cname", "lang")} for e in le])
        cfgp = os.path.join(d, "SpaceTrace_%s.cfg" % lang)
        open(cfgp, "w").write("SPECIFICATION TSpec\nCONSTANTS\n  Lang = \"%s\"\n  Cpp11Shift = TRUE\n  Fixed = TRUE\n  Fixed2 = TRUE\n  Fixed3 = TRUE\n  Fixed4 = TRUE\n"
                              "  Emit = FALSE\n  MaxGap = 3\n  WrongOption = FALSE\nPOSTCONDITION TraceAccepted\nCHECK_DEADLOCK FALSE\n" % lang)
        rt = tlc_retry("SpaceTrace", "SpaceTrace_%s" % lang, cwd=d, env={"TRACE": tp}, workers=1, timeout=3000, xmx="8g")
        if rt.error:
            ctx.error("SpaceTrace %s: %s" % (lang, rt.error))
            continue
        if rt.violation and rt.violation[0] == "postcondition":
            ctx.error("SpaceTrace %s: trace not consumed to the end" % lang)
        ctx.cov["traces_validated_against_impl"] += len(le)
        byid = {}
        for e in le:
            byid.setdefault(e["id"], e)
        for rep in rt.emitted:
            e = le[rep["l"] - 1]
            for b in rep["bad"]:
                sig = "%s|%s|%s|%s|%s" % (b, e["rule"], e["val"], e["t1"], e["t2"])
                if e["rule"] == "sp_macro_func" and e["val"] == "remove" and e["gout"] == 1:
                    sig = "ValueObeyed|sp_macro_func|remove-is-force"
                ctx.violation(sig, "the space log attributes the gap between %r (%s) and %r (%s) to '%s' = %s, but the output has %d blank(s) (input %s; do_space returned %s, forced=%d) [%s]" % (
                    "".join(e["s1"]), e["t1"], "".join(e["s2"]), e["t2"], e["rule"], e["val"], e["gout"],
                    ("%d" % e["gin"]) if e["same"] else "on two lines", e["av"], e["force"], e["id"]),
                    {"kind": "c19", "rule": e["rule"], "src": e["src"], "lang": lang, "cfg_text": cfg_text(assigns[e["cname"]]),
                     "src_bytes": open(e["src"], "rb").read()[:100000], "pair": ["".join(e["s1"]), "".join(e["s2"])], "at": e["id"]})
            for dn in rep["drift"]:
                ctx.drift.append({"module": "Space", "kind": dn, "rule": e["rule"], "val": e["val"], "av": e["av"], "t1": e["t1"], "t2": e["t2"]})
    ctx.cov["distinct_nontrivial"] = len({(e["rule"], e["val"], e["gin"], e["gout"], e["same"]) for e in evs if e["val"]})
    ctx.cov["rule"] = ("Space.tla model-checked over all (value, forced, input gap, same line) cases and the wrong-option variant rejected; coded joint "
                       "assignments (5 runs separate all %d iarf sp_ options pairwise) + seeded random joint assignments%s over spacing-dense programs "
                       "and corpus inputs; every Space hook event is joined with the gap measured in the output bytes; distinct = (rule, configured "
                       "value, input gap, output gap) classes for rules that are options" % (len(names), "" if quick else " + every option x 4 values singly"))
    for e in evs[:2]:
        ctx.sample({k: e[k] for k in ("id", "rule", "val", "av", "gin", "gout", "same")})
    ctx.assumptions += ["alignment, width splitting and tabs are switched off (BASE) so that the gap in the output is the one space_text() chose",
                        "pairs whose second element is a comment, pairs on different output lines and rules with min_sp > 1 are mechanism-only",
                        "Ignore is excused where the pair would lex differently when glued (chunk boundaries made by uncrustify such as '>' '>')"]


def replay(path):
    from ..common import build
    import tempfile
    r = json.load(open(path))
    if r.get("kind") == "model":
        print(r.get("tlc_tail", ""))
        return 1
    unc = build("hooks")
    d = tempfile.mkdtemp(prefix="c19replay")
    try:
        src = os.path.join(d, os.path.basename(r["src"]))
        b = r["src_bytes"]
        obs.write(src, b.encode("latin-1") if isinstance(b, str) else b)
        cfg = os.path.join(d, "r.cfg")
        obs.write(cfg, r["cfg_text"])
        rc, so, se = sh([unc, "-c", cfg, "-l", r["lang"], "-L", "66", "-f", src])
        print("pair:", r["pair"], "rule:", r["rule"], "at", r["at"])
        ln = int(r["at"].rsplit("|", 1)[1].split(":")[0])
        for l in se.decode("latin-1").split("\n"):
            if "orig line is %d," % ln in l and ("rule" in l or "do_space" in l):
                print(l[:200])
        print(so.decode("latin-1")[:1500])
        return 1
    finally:
        shutil.rmtree(d, ignore_errors=True)
