"""C08 - line endings.  LineEnd.tla (census, choice, writer substitution) + LineEndTrace.tla."""
import json
import os
import shutil
import hashlib

from .. import obs, corpus, hazard
from ..common import pmap_proc, tlc_retry, write_ndjson, sh
from .c03 import COMMENTS

LEVEL = "model_checking"
TERM = {"lf": "\n", "crlf": "\r\n", "cr": "\r"}
EXT = {"C": ".c", "CPP": ".cpp", "JAVA": ".java", "CS": ".cs", "OC": ".m", "D": ".d", "VALA": ".vala", "PAWN": ".p", "ECMA": ".es"}
BOXED = """/**********
 * boxed  *
 **********/
int b1;
/*
 * star block
 * two
 */
int b2; /* trailing
           continued */
/* a
   b
   c */
void f(void)
{
    /********
     * in   *
     ********/
    int x = 1; // t1
               // t2
}
"""


def render(layout):
    out = []
    carry = ""
    prevk = "code"
    for i, ln in enumerate(layout):
        k, t = ln["k"], ln["t"]
        text = carry
        carry = ""
        if k == "code":
            text += "int a%d;" % i
        elif k == "cmt":
            text += "/* c%d" % i
            carry = "*/ "
        elif k == "bs":
            text += ("+ w%d \\" % i) if prevk == "bs" else ("#define M%d v%d \\" % (i, i))
            carry = "  "
        elif k == "cppbs":
            text += "// c%d \\" % i
            carry = "  more "
        elif k == "str":
            text += 'const char *s%d = "a%d\\' % (i, i)
            carry = 'b%d"; ' % i
        elif k == "off":
            text += "/* *INDENT-OFF* */"
        elif k == "region":
            text += "  raw   %d  ;" % i
        elif k == "on":
            text += "/* *INDENT-ON* */"
        out.append(text + TERM[t])
        prevk = k
    return "".join(out)


def terms_in(b):
    s = set()
    i, n = 0, len(b)
    while i < n:
        c = b[i:i + 1]
        if c == b"\r":
            if b[i + 1:i + 2] == b"\n":
                s.add("crlf")
                i += 2
                continue
            s.add("cr")
        elif c == b"\n":
            s.add("lf")
        i += 1
    return sorted(s)


def to_lf(b):
    return b.replace(b"\r\n", b"\n").replace(b"\r", b"\n")


def convert(b, how, rng=None):
    lf = to_lf(b)
    if how == "mixed":
        parts = lf.split(b"\n")
        out = []
        prev = "lf"
        for i, p in enumerate(parts[:-1]):
            t = rng.choice(["lf", "crlf", "cr"])
            if prev == "cr" and p == b"" and t == "lf":
                t = "crlf"          # CR followed by an empty line ending in LF would read as one CRLF
            out.append(p + TERM[t].encode())
            prev = t
        out.append(parts[-1])
        return b"".join(out)
    return lf.replace(b"\n", TERM[how].encode())


def cid(b):
    return hashlib.sha1(b).hexdigest()[:12]


def _layout_job(a):
    unc, tmp, i, layout, opt = a
    src = os.path.join(tmp, "l%d.c" % i)
    obs.write(src, render(layout).encode())
    cfg = os.path.join(tmp, "nl_%s.cfg" % opt)
    rc, so, se, evs = obs.run(unc, ["-c", cfg, "-q", "-l", "C", "-f", src], cwd=tmp, trace=os.path.join(tmp, "l%d.nd" % i), timeout=20)
    tk = obs.event(evs, "Tokenized")
    le = tk["le"] if tk else []
    chosen = {"\n": "lf", "\r\n": "crlf", "\r": "cr"}.get(tk["newline"], "") if tk else ""
    ev = {"e": "Layout", "id": "layout|%d|%s" % (i, opt), "layout": layout, "opt": opt, "rc": rc, "terms": terms_in(so) if rc == 0 else [],
          "le": le, "chosen": chosen}
    res = [ev]
    if rc == 0 and opt != "auto":
        ids = [cid(to_lf(so))]
        for how in ("lf", "crlf", "cr"):
            src2 = os.path.join(tmp, "l%d_%s.c" % (i, how))
            obs.write(src2, convert(render(layout).encode(), how))
            rc2, so2, se2 = sh([unc, "-c", cfg, "-q", "-l", "C", "-f", src2], cwd=tmp, timeout=20)
            ids.append(cid(to_lf(so2)) if rc2 == 0 else "rc%d" % rc2)
            os.unlink(src2)
        res.append({"e": "Commute", "id": "layoutconv|%d|%s" % (i, opt), "ids": ids})
    os.unlink(src)
    return res


def _file_job(a):
    unc, tmp, i, jid, data, lang, cfgbase = a
    import random
    rng = random.Random(i)
    res = []
    outs = {}
    ext = EXT.get(lang, ".c")
    variants = {how: convert(data, how, rng) for how in ("lf", "crlf", "cr", "mixed")}
    for opt in ("lf", "crlf", "cr"):
        cfg = os.path.join(tmp, "f%d_%s.cfg" % (i, opt))
        obs.write(cfg, cfgbase + "newlines=%s\n" % opt)
        for how, b in variants.items():
            if opt != "lf" and how not in ("lf", "mixed"):
                continue
            src = os.path.join(tmp, "f%d_%s%s" % (i, how, ext))
            obs.write(src, b)
            rc, so, se = sh([unc, "-c", cfg, "-q", "-l", lang, "-f", src], cwd=tmp, timeout=30)
            os.unlink(src)
            outs[(opt, how)] = (rc, so)
        os.unlink(cfg)
    if outs[("lf", "lf")][0] != 0:
        return []
    res.append({"e": "Commute", "id": "conv|%s" % jid, "ids": [cid(to_lf(o)) if rc == 0 else "rc%d" % rc for (opt, how), (rc, o) in sorted(outs.items()) if opt == "lf"]})
    base = outs[("lf", "lf")][1]
    ids = [cid(base)]
    ok = terms_in(base) in ([], ["lf"])
    for opt in ("crlf", "cr"):
        rc, o = outs[(opt, "lf")]
        ids.append(cid(to_lf(o)) if rc == 0 else "rc%d" % rc)
        ok = ok and (rc != 0 or terms_in(o) in ([], [opt]))
        rc, o = outs[(opt, "mixed")]
        ids.append(cid(to_lf(o)) if rc == 0 else "rc%d" % rc)
        ok = ok and (rc != 0 or terms_in(o) in ([], [opt]))
    res.append({"e": "Subst", "id": "subst|%s" % jid, "ids": ids, "termsok": ok})
    # newlines=auto with a one-line header / footer file in another convention than the source
    if i % 4 == 0 and not cfgbase and len(data.split(b"\n")) > 4:
        for how in ("lf", "crlf", "cr"):
            for ft in ("lf", "crlf", "cr"):
                if ft == how:
                    continue
                for which in ("footer", "header"):
                    ins = os.path.join(tmp, "f%d_ins.txt" % i)
                    obs.write(ins, b"/* inserted text */" + TERM[ft].encode())
                    cfg = os.path.join(tmp, "f%d_ins.cfg" % i)
                    obs.write(cfg, "newlines=auto\ncmt_insert_file_%s=%s\n" % (which, ins))
                    src = os.path.join(tmp, "f%d_i%s%s" % (i, how, ext))
                    obs.write(src, variants[how])
                    rc, so, se = sh([unc, "-c", cfg, "-q", "-l", lang, "-f", src], cwd=tmp, timeout=30)
                    for f_ in (src, cfg, ins):
                        os.unlink(f_)
                    res.append({"e": "Insert", "id": "insert|%s|%s|%s|%s" % (jid, how, ft, which), "rc": rc, "src": how, "terms": terms_in(so) if rc == 0 else []})
    return res


def run(ctx):
    quick = ctx.tier == "quick"
    unc = ctx.unc()
    # model: design and the census as it was before the repair
    rm = tlc_retry("LineEnd", "LineEnd", workers=8, timeout=900)
    ctx.add_tlc(rm)
    if rm.error:
        ctx.error("LineEnd: " + rm.error)
    elif rm.violation:
        ctx.model_violation("LineEnd", "LineEnd", rm)
    ra = tlc_retry("LineEnd", "LineEnd_asbuilt", workers=4, timeout=600)
    ctx.cov["asbuilt_variant_rejected"] = bool(ra.violation)
    if not ra.violation:
        ctx.error("vacuity: the census that skips continued lines satisfies AutoPicksMostFrequent")
    # M-gen: all layouts up to the bound
    d = os.path.join(ctx.work.path, "spec")
    os.makedirs(d, exist_ok=True)
    from ..common import SPEC
    for f in ("LineEnd.tla",):
        shutil.copy(os.path.join(SPEC, f), d)
    n = 2 if quick else 3
    open(os.path.join(d, "LineEndGen.cfg"), "w").write(
        'SPECIFICATION Spec\nCONSTANTS\n  MaxLines = %d\n  Counted = {"code", "cmt", "bs", "cppbs", "str", "on"}\n  Emit = TRUE\n'
        'INVARIANTS EmitLayout\nCHECK_DEADLOCK FALSE\n' % n)
    rg = tlc_retry("LineEnd", "LineEndGen", cwd=d, workers=1, timeout=1200)
    if rg.error:
        ctx.error("LineEndGen: " + rg.error)
    gen = [(e["layout"], e["opt"]) for e in rg.emitted]
    # longer layouts: seeded walk through the well-formed ones (same WF as the spec, enforced by construction below)
    import itertools
    kinds_next = {"code": ["code", "cmt", "bs", "cppbs", "str", "off"], "cmt": ["code", "cmt", "cppbs", "str"], "bs": ["code", "bs"],
                  "cppbs": ["code"], "str": ["code", "cmt"], "off": ["region", "on"], "region": ["region", "on"],
                  "on": ["code", "cmt", "bs", "cppbs", "str", "off"]}
    extra = []
    for _ in range(250 if quick else 3000):
        ln = ctx.rng.randint(4, 7)
        seq = []
        k = "code"
        prev = "on"
        for i in range(ln):
            k = ctx.rng.choice(kinds_next[prev])
            seq.append({"k": k, "t": ctx.rng.choice(["lf", "crlf", "cr"])})
            prev = k
        # close: last kind must be code / on / region, regions closed
        while seq[-1]["k"] not in ("code", "on") or any(False for _ in ()):
            opts = kinds_next[seq[-1]["k"]]
            k = "on" if "on" in opts and seq[-1]["k"] in ("off", "region") else ("code" if "code" in opts else opts[0])
            seq.append({"k": k, "t": ctx.rng.choice(["lf", "crlf", "cr"])})
        extra.append((seq, ctx.rng.choice(["lf", "crlf", "cr", "auto", "auto"])))
    tmp = ctx.work.sub("c08")
    for opt in ("lf", "crlf", "cr", "auto"):
        obs.write(os.path.join(tmp, "nl_%s.cfg" % opt), "newlines=%s\n" % opt)
    jobs = [(unc, tmp, i, lay, opt) for i, (lay, opt) in enumerate(gen + extra)]
    evs = [e for r in pmap_proc(_layout_job, jobs, nproc=14) for e in r]
    ctx.cov["layouts_from_tlc"] = len(gen)
    ctx.cov["layouts_seeded_longer"] = len(extra)
    # files: dense programs, a comment-shape file, corpus inputs
    files = []
    for lang in hazard.DENSE:
        for vn, text in hazard.variants(lang):
            files.append(("dense_%s_%s" % (lang, vn), text.encode(), lang))
    files.append(("boxed", BOXED.encode(), "C"))
    files.append(("comments", ("\n".join("int v%d; %s\nint w%d;" % (i, c, i) for i, c in enumerate(COMMENTS)) + "\n").encode(), "C"))
    ins = corpus.inputs()
    ctx.rng.shuffle(ins)
    k = 0
    for c in ins:
        if k >= (60 if quick else 1400):
            break
        b = open(c.inp, "rb").read()
        if len(b) > 30000 or b[:2] in (b"\xff\xfe", b"\xfe\xff") or b"\x00" in b:
            continue
        files.append(("corpus|" + os.path.relpath(c.inp, os.path.join(corpus.REPO, "tests/input")), b, c.lang or corpus.lang_of(c.inp)))
        k += 1
    cfgbases = ["", "indent_columns=3\nindent_with_tabs=0\ncmt_indent_multi=true\nnl_max=2\nsp_compare=force\nsp_arith=force\nsp_assign=force\nsp_after_comma=force\n"]
    fjobs = []
    for i, (jid, b, lang) in enumerate(files):
        for ci, cb in enumerate(cfgbases if (not quick or not jid.startswith("corpus")) else cfgbases[:1]):
            fjobs.append((unc, tmp, i * 4 + ci, "%s|cfg%d" % (jid, ci), b, lang, cb))
    fres = pmap_proc(_file_job, fjobs, nproc=14)
    evs += [e for r in fres for e in r]
    ctx.cov["evaluations"] = len(jobs) + len(fjobs)
    tp = os.path.join(ctx.work.path, "c08.ndjson")
    write_ndjson(tp, evs)
    rt = tlc_retry("LineEndTrace", "LineEndTrace_tree", env={"TRACE": tp}, workers=1, timeout=1800)
    if rt.error:
        ctx.error("LineEndTrace: " + rt.error)
    else:
        ctx.cov["traces_validated_against_impl"] = len(evs)
        byid = {e["id"]: e for e in evs}
        data = {("%s|cfg%d" % (jid, ci)): (b, lang, cb) for (jid, b, lang) in files for ci, cb in enumerate(cfgbases)}
        for rep in rt.emitted:
            e = byid[rep["id"]]
            for b in rep["bad"]:
                if e["e"] == "Layout":
                    kinds = "+".join(sorted({x["k"] for x in e["layout"]}))
                    sig = "%s|layout|%s|%s" % (b, e["opt"], "".join("%s:%s," % (x["k"], x["t"]) for x in e["layout"]))
                    if b == "AutoPicksMostFrequent" and rep.get("why"):
                        # which line kind carries the uncounted terminators: the signature of a census gap
                        sig = "%s|uncounted-kind|%s" % (b, "+".join(sorted(rep["why"])))
                    ctx.violation(sig, "%s violated: layout %s with newlines=%s gives terminators %s (census %s)" % (
                        b, [(x["k"], x["t"]) for x in e["layout"]], e["opt"], e["terms"], e["le"]),
                        {"kind": "layout", "layout": e["layout"], "opt": e["opt"]})
                elif e["id"].startswith("layoutconv|"):
                    le = byid["layout|" + e["id"].split("|", 1)[1]]
                    sig = "%s|layoutkinds|%s" % (b, "+".join(sorted({x["k"] for x in le["layout"]})))
                    ctx.violation(sig, "%s violated: layout %s formatted with newlines=%s gives different text when its terminators are converted (%s)" % (
                        b, [(x["k"], x["t"]) for x in le["layout"]], le["opt"], e["ids"]),
                        {"kind": "layoutconv", "layout": le["layout"], "opt": le["opt"]})
                elif e["e"] == "Insert":
                    _, jid_, how_, ft_, which_ = e["id"].rsplit("|", 4)
                    ctx.violation("%s|inserted-%s|%s-source|%s-text" % (b, which_, how_, ft_),
                                  "%s violated: newlines=auto, a %s source and a one-line %s file ending in %s (cmt_insert_file_%s): the output's terminators are %s" % (
                                      b, how_.upper(), which_, ft_.upper(), which_, e["terms"]),
                                  {"kind": "insert", "id": e["id"]})
                else:
                    key = e["id"].split("|", 1)[1]
                    bb, lang, cb = data.get(key, (b"", "C", ""))
                    ctx.violation("%s|%s" % (b, key), "%s violated for %s: outputs differ between terminator conventions %s" % (b, key, e["ids"]),
                                  {"kind": "file", "which": e["e"], "lang": lang, "cfg_text": cb, "src_bytes": bb[:200000]})
            for dn in rep["drift"]:
                ctx.drift.append({"module": "LineEnd", "kind": dn, "id": rep["id"], "le": e.get("le"), "chosen": e.get("chosen")})
    ok = [e for e in evs if e["e"] == "Layout" and e["rc"] == 0]
    ctx.cov["distinct_nontrivial"] = len({(json.dumps(e["layout"]), e["opt"]) for e in ok if len({x["t"] for x in e["layout"]}) > 1}) + \
        len({e["id"] for e in evs if e["e"] == "Commute"})
    ctx.cov["rule"] = ("LineEnd.tla: all well-formed layouts <= 4 lines x 8 line kinds x 3 terminators x 4 option values model-checked; all layouts "
                       "<= %d lines emitted by TLC and replayed (each with 4 runs: as is and converted to LF/CRLF/CR), seeded longer layouts; files "
                       "(dense programs, comment shapes incl. boxed comments, corpus inputs of all languages) formatted under lf/crlf/cr in LF, "
                       "CRLF, CR and mixed conventions; non-trivial = layout with at least two different terminators, or a file comparison" % n)
    if ok:
        ctx.sample({"layout": ok[len(ok) // 2]["layout"], "opt": ok[len(ok) // 2]["opt"], "terms": ok[len(ok) // 2]["terms"]})
    ctx.assumptions += ["terminators inside string literals are rendered only as backslash-newline (raw strings are covered by the file-level commutation runs)",
                        "UTF-16 inputs are excluded here (C09 covers them)"]


def replay(path):
    from ..common import build
    import tempfile
    r = json.load(open(path))
    if r.get("kind") == "model":
        print(r.get("tlc_tail", ""))
        return 1
    unc = build("plain")
    d = tempfile.mkdtemp(prefix="c08replay")
    try:
        if r["kind"] == "layoutconv":
            outs = {}
            for how in ("asis", "lf", "crlf", "cr"):
                b = render(r["layout"]).encode()
                b = b if how == "asis" else convert(b, how)
                src = os.path.join(d, "l.c")
                obs.write(src, b)
                rc, so, se = sh([unc, "-c", "-", "-q", "--set", "newlines=" + r["opt"], "-l", "C", "-f", src])
                outs[how] = to_lf(so)
                print(how, repr(b), "->", repr(so))
            same = len(set(outs.values())) == 1
            print("property holds on this case" if same else "VIOLATION reproduced: outputs differ")
            return 0 if same else 1
        if r["kind"] == "layout":
            src = os.path.join(d, "l.c")
            obs.write(src, render(r["layout"]).encode())
            rc, so, se = sh([unc, "-c", "-", "-q", "--set", "newlines=" + r["opt"], "-l", "C", "-f", src])
            print("input :", repr(render(r["layout"])))
            print("output:", repr(so.decode("latin-1")), "terminators:", terms_in(so))
            return 1
        b = r["src_bytes"]
        b = b.encode("latin-1") if isinstance(b, str) else b
        cfg = os.path.join(d, "r.cfg")
        outs = {}
        for how in ("lf", "crlf", "cr"):
            src = os.path.join(d, "in_" + how + EXT.get(r["lang"], ".c"))
            obs.write(src, convert(b, how))
            obs.write(cfg, r["cfg_text"] + "newlines=lf\n")
            rc, so, se = sh([unc, "-c", cfg, "-q", "-l", r["lang"], "-f", src])
            outs[how] = to_lf(so)
            print("input in %s convention -> output id %s (rc=%d)" % (how, cid(outs[how]), rc))
        same = len(set(outs.values())) == 1
        print("property holds on this case" if same else "VIOLATION reproduced: outputs differ")
        return 0 if same else 1
    finally:
        shutil.rmtree(d, ignore_errors=True)
