"""Engine shared by C02 / C03 / C04 / C07: observe a run of the hooked binary as a sequence of
Pipeline events and let PipelineTrace.tla judge it.  Projections only."""
import json
import os
import re

from .. import lex, obs, corpus
from ..common import tlc_retry, write_ndjson, SPEC, log

M64 = (1 << 64) - 1


class Dig:
    __slots__ = ("h", "n")

    def __init__(self):
        self.h = 1469598103934665603
        self.n = 0

    def add(self, v):
        self.h ^= (v & 0xFFFFFFFF)
        self.h = (self.h * 1099511628211) & M64

    def add_text(self, t):
        for ch in t:
            self.add(ord(ch))
        self.add(-1)
        self.n += 1


def digests(chunks):
    """the six projections of verif::pass(), computed from a Tokenized / PreOutput dump"""
    tok, cmt, st, nl, ign, chars = Dig(), Dig(), Dig(), Dig(), Dig(), Dig()
    for c in chunks:
        t, text = c[obs.TYPE], c[obs.TEXT]
        if t in ("NEWLINE", "NL_CONT"):
            nl.add(c[obs.NL])
            nl.add(1 if t == "NL_CONT" else 0)
            nl.n += 1
        elif t in ("COMMENT", "COMMENT_MULTI", "COMMENT_CPP", "COMMENT_ENDIF", "COMMENT_CPP_ENDIF"):
            cmt.add_text(text)
        elif t == "IGNORED":
            ign.add_text(text)
        elif len(text) > 0:
            if t in ("STRING", "STRING_MULTI", "CHAR"):
                st.add_text(text)
            tok.add_text(text)
            for ch in text:
                if ch not in " \t\n\r":
                    chars.add(ord(ch))
                    chars.n += 1
    return {"tok": "%x" % tok.h, "chars": "%x" % chars.h, "cmt": "%x" % cmt.h, "str": "%x" % st.h,
            "nl": "%x" % nl.h, "ign": "%x" % ign.h}


KEYS = ("tok", "chars", "cmt", "str", "nl", "ign")


def project_lexer(text, lang):
    items = lex.lex(text, lang)
    return lex.token_stream(items), lex.comments(items), lex.literals(items)


def project_chunks(chunks):
    """token / comment / literal sequences according to uncrustify's own tokenizer"""
    toks, cmts, lits = [], [], []
    inpp = False
    for c in chunks:
        t, text, pp = c[obs.TYPE], c[obs.TEXT], c[obs.PP]
        if pp and not inpp:
            toks.append("<PP>")
        if inpp and not pp:
            toks.append("</PP>")
        inpp = bool(pp)
        if t in ("NEWLINE", "NL_CONT"):
            continue
        if t in ("COMMENT", "COMMENT_MULTI"):
            cmts.append(lex.comment_norm("cmt_c", text))
        elif t == "COMMENT_CPP":
            cmts.append(lex.comment_norm("cmt_cpp", text))
        elif t == "IGNORED":
            s = text.strip(" \t\r\n")
            if s:
                toks.append(s)
        elif len(text) > 0:
            if t in ("STRING", "STRING_MULTI", "CHAR"):
                lits.append(text)
            toks.append(text)
    if inpp:
        toks.append("</PP>")
    return lex.norm_angle(toks), cmts, lits


CMT_RE = re.compile(r"^(cmt_|sp_cmt_cpp_|mod_add_long_|mod_add_force_c_closebrace_comment|string_replace_tab_chars|"
                    r"align_keep_extra_space)")
OFF = ("false", "ignore", "0", "", '""')


def cfg_settings(cfg_text):
    for l in cfg_text.split("\n"):
        l = l.split("#")[0].strip()
        if not l:
            continue
        p = l.replace("=", " ").split()
        yield p[0].lower(), (p[1].lower() if len(p) > 1 else ""), l


def cfg_flags(cfg_text):
    """(modOn, cmtOn): what the configuration licenses"""
    mod = cmt = False
    for name, v, line in cfg_settings(cfg_text):
        if CMT_RE.match(name):
            if v not in OFF:
                cmt = True
            continue
        if corpus.MOD_RE.match(line):
            if name.startswith("mod_") and v in OFF:
                continue
            mod = True
    return mod, cmt


def observe(unc, src, cfg, lang, tmp, rid, cfg_text=None, relex=None, extra=(), timeout=15):
    """one execution -> (events, info).  relex: None = lexer for the C family, own tokenizer otherwise;
    True = own tokenizer always."""
    safe = "%08x" % (hash(rid) & 0xFFFFFFFF) + re.sub(r"[^A-Za-z0-9_.-]", "_", str(rid))[-40:]
    tr = os.path.join(tmp, "t%s.nd" % safe)
    args = ["-c", cfg, "-q"] + (["-l", lang] if lang else []) + list(extra) + ["-f", src]
    rc, so, se, evs = obs.run(unc, args, cwd=tmp, trace=tr, flags=["PASS"], timeout=timeout)
    if cfg_text is None:
        cfg_text = open(cfg, errors="replace").read() if os.path.exists(cfg) else ""
    modOn, cmtOn = cfg_flags(cfg_text)
    out = [{"e": "Run", "id": rid, "modOn": modOn, "cmtOn": cmtOn, "rc": rc}]
    info = {"rc": rc, "out": so, "err": se, "modOn": modOn, "cmtOn": cmtOn}
    if rc != 0:
        return out, info
    tk = obs.event(evs, "Tokenized")
    prev = digests(tk["chunks"]) if tk else None
    for e in evs:
        if e.get("e") == "Pass":
            ch = [k for k in KEYS if prev is not None and e[k] != prev[k]]
            out.append({"e": "Pass", "id": rid, "name": e["name"], "changed": ch})
            prev = e
    pre = obs.event(evs, "PreOutput")
    info["pre"] = pre
    info["tok"] = tk
    inb = open(src, "rb").read()
    own = relex if relex is not None else (lang not in lex.C_FAMILY)
    if own:
        tin, cin, lin = project_chunks(tk["chunks"]) if tk else ([], [], [])
        src2 = os.path.join(tmp, "r%s_%s" % (safe, os.path.basename(src)))
        obs.write(src2, so)
        rc2, so2, se2, evs2 = obs.run(unc, ["-c", cfg, "-q"] + (["-l", lang] if lang else []) + ["-f", src2],
                                      cwd=tmp, trace=tr + "2", flags=[], timeout=timeout)
        os.unlink(src2)
        tk2 = obs.event(evs2, "Tokenized")
        if tk2 is None:
            out.append({"e": "Out", "id": rid, "tin": tin, "tout": ["<second run refused rc=%d>" % rc2], "cin": cin,
                        "cout": cin, "lin": lin, "lout": lin})
            info["relex_refused"] = rc2
            return out, info
        tout, cout, lout = project_chunks(tk2["chunks"])
    else:
        tin, cin, lin = project_lexer(obs.decode(inb), lang)
        tout, cout, lout = project_lexer(obs.decode(so), lang)
    out.append({"e": "Out", "id": rid, "tin": tin, "tout": tout, "cin": cin, "cout": cout, "lin": lin, "lout": lout})
    return out, info


def judge(ctx, events, tag="pipe"):
    """run PipelineTrace over the events; returns list of reports (dicts with bad/drift)"""
    if not events:
        return []
    p = os.path.join(ctx.work.path, "%s-trace.ndjson" % tag)
    write_ndjson(p, events)
    r = tlc_retry("PipelineTrace", "PipelineTrace", env={"TRACE": p}, workers=1, timeout=1800, xmx="8g")
    if r.error:
        ctx.error("PipelineTrace: " + r.error)
        return []
    if r.violation and r.violation[0] == "postcondition":
        ctx.error("PipelineTrace: trace not consumed to the end (diameter %d of %d events)" % (r.diameter, len(events)))
    ctx.cov["traces_validated_against_impl"] += sum(1 for e in events if e["e"] == "Run")
    ctx.cov["trace_events"] = ctx.cov.get("trace_events", 0) + len(events)
    return r.emitted


def first_diff(a, b, ctxn=3):
    k = 0
    while k < min(len(a), len(b)) and a[k] == b[k]:
        k += 1
    return k, a[max(0, k - ctxn):k + ctxn + 1], b[max(0, k - ctxn):k + ctxn + 1]
