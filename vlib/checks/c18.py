"""C18 - indentation reflects block nesting.  Indent.tla (Prog grammar + closed-form columns) +
IndentTrace.tla."""
import json
import os
import shutil
import random

from .. import obs
from ..common import pmap_proc, tlc_retry, write_ndjson, sh, SPEC

LEVEL = "model_checking"
CMODE = ["trail", "own", True]     # comment layout of the third rendering: behind every line / before every line / seeded


def render(prog, rng, lang="CPP", comments=False):
    """kinds -> text; one line per kind, original indentation seeded at random; comments=True: trailing comments behind
    lines and comment lines of their own between them (their own placement is not judged, only that of the code lines)"""
    out = []
    n = 0
    stack = []
    last = None
    # headers whose block is followed by 'else' must be an 'if'
    if_needed = set()
    opens = []
    hdr_of = {}
    for idx, k in enumerate(prog):
        if k in ("open", "cbopen"):
            opens.append(idx)
        elif k == "close":
            o = opens.pop()
            if idx + 1 < len(prog) and prog[idx + 1] == "elseh":
                if_needed.add(o - 1)
    for idx, k in enumerate(prog):
        n += 1
        if k == "func":
            t = "void f%d(int a)" % n
        elif k == "hdr":
            # an 'if' when an else follows its block, otherwise if / while / for in turn
            t = ["if (a > %d)", "while (a < %d)", "for (a = 0; a < %d; a++)"][0 if idx in if_needed else n % 3] % n
        elif k == "elseh":
            t = "else"
        elif k == "doh":
            t = "do"
        elif k == "dowhile":
            t = "while (a < %d);" % n
        elif k == "tryh":
            t = "try"
        elif k == "catchh":
            t = "catch (int e%d)" % n
        elif k == "switch":
            t = "switch (a + %d)" % n
        elif k == "ns":
            t = "namespace n%d" % n
        elif k == "cls":
            t = "class S%d" % n
        elif k == "ext":
            t = 'extern "C"'
        elif k == "enumh":
            t = "enum E%d" % n
        elif k == "enumr":
            t = "V%d," % n
        elif k == "acc":
            t = ["public:", "private:", "protected:"][n % 3]
        elif k in ("open", "cbopen"):
            t = "{"
            stack.append("cb" if k == "cbopen" else last)
        elif k == "close":
            fk = stack.pop()
            t = "};" if fk in ("cls", "enumh") else "}"
        elif k == "stmt":
            top = stack[-1] if stack else "file"
            t = ("int m%d;" % n) if top == "cls" else (["a = a + %d;", "g(a, %d);", "a += %d;"][n % 3] % n)
        elif k == "case":
            t = ["case %d:", "case 1 << %d:", "case (%d):"][n % 3] % n
        else:
            t = "/* ? */"
        ind = rng.choice(["", " ", "  ", "\t", "    ", "\t\t", "   \t", "        ", "      "])
        if comments == "trail":
            t += rng.choice([" ", "  ", "\t", "     "]) + ["// c%d", "/* c%d */"][n % 2] % n
        elif comments == "own":
            out.append(rng.choice(["", "  ", "\t\t", "          "]) + ["// own line %d", "/* own line %d */"][n % 2] % n)
        elif comments:
            if rng.random() < 0.12:
                out.append(rng.choice(["", "  ", "\t\t", "          "]) + rng.choice(["// own line %d", "/* own line %d */"]) % n)
            if rng.random() < 0.35:
                t += rng.choice([" ", "  ", "\t", "     "]) + rng.choice(["// c%d", "/* c%d */"]) % n
        out.append(ind + t)
        last = k
    return "\n".join(out) + "\n"


def columns(text, tab):
    cols = []
    for line, term in obs.split_lines(text):
        if line.strip(" \t") == "" or line.lstrip(" \t").startswith(("// own line", "/* own line")):
            continue
        c = 1
        for ch in line:
            if ch == " ":
                c += 1
            elif ch == "\t":
                c = ((c - 1) // tab + 1) * tab + 1
            else:
                break
        cols.append(c)
    return cols


def _job(a):
    unc, tmp, i, prog, o, extra, seed = a
    cfgt = ("indent_columns=%d\nindent_namespace=%s\nindent_class=%s\nindent_extern=%s\nindent_switch_case=%d\nindent_braces=%s\nindent_brace=%d\n"
            "indent_access_spec=%d\n" % (
        o["ic"], str(o["ns"]).lower(), str(o["cls"]).lower(), str(o["ext"]).lower(), o["sc"], str(o["br"]).lower(), o["ib"], o["as"])) + extra["text"]
    cfg = os.path.join(tmp, "i%d.cfg" % i)
    obs.write(cfg, cfgt)
    cs = []
    rc = 0
    for r in range(3):
        rng = random.Random(seed * 2 + r)
        src = os.path.join(tmp, "i%d_%d.cpp" % (i, r))
        obs.write(src, render(prog, rng, comments=CMODE[seed % 3] if r == 2 else False))
        rc_, so, se = sh([unc, "-c", cfg, "-q", "-l", "CPP", "-f", src], cwd=tmp, timeout=20)
        os.unlink(src)
        if rc_ != 0:
            rc = rc_
            break
        c = columns(obs.decode(so), extra["tab"])
        if len(c) != len(prog):
            rc = 97          # the output re-broke lines: not comparable line by line
            break
        cs.append(c)
    os.unlink(cfg)
    return {"id": "prog|%d" % i, "prog": prog, "o": o, "rc": rc, "c1": cs[0] if rc == 0 else [], "c2": cs[1] if rc == 0 else [],
            "c3": cs[2] if rc == 0 else [], "cfg_text": cfgt, "seed": seed, "tab": extra["tab"]}


# ---- statement trees with unbraced bodies (Nest.tla): one token group per line
NEST_TXT = {"I": "if (a > %d)", "E": "else", "L": "while (a < %d)", "D": "do", "W": "while (a < %d);", "T": "try", "C": "catch (%s e%d)", "F": "finally",
            "{": "{", "}": "}", "S": "a = a + %d;"}
NEST_EXT = {"C": ".c", "CPP": ".cpp", "JAVA": ".java", "CS": ".cs"}


def nest_render(lines, lang, rng, comments=False):
    out = []
    head = {"C": ["void f(int a)", "{"], "CPP": ["void f(int a)", "{"], "JAVA": ["class K", "{", "void f(int a)", "{"], "CS": ["class K", "{", "void f(int a)", "{"]}[lang]
    tail = ["}"] * (len(head) // 2)
    n = 0
    for ln in head:
        out.append(ln)
    for ln in lines:
        n += 1
        t = NEST_TXT[ln["t"]]
        if ln["t"] == "C":
            t = t % ("int" if lang == "CPP" else "Exception", n)
        elif "%d" in t:
            t = t % n
        if comments and rng.random() < 0.4:
            t += rng.choice([" // c%d", " /* c%d */"]) % n
        out.append(rng.choice(["", " ", "\t", "      ", "\t\t\t", "  \t "]) + t)
    out += tail
    return "\n".join(out) + "\n", len(head), len(tail)


def _nest_job(a):
    unc, tmp, i, lines, lang, ic, seed, ei = a
    cfg = os.path.join(tmp, "n%d.cfg" % i)
    obs.write(cfg, "indent_columns=%d\nindent_with_tabs=0\nindent_class=true\nindent_else_if=%s\n" % (ic, "true" if ei else "false"))
    cs = []
    rc = 0
    nh = nt = 0
    for r in range(3):
        text, nh, nt = nest_render(lines, lang, random.Random(seed * 3 + r), comments=(r == 2))
        src = os.path.join(tmp, "n%d_%d%s" % (i, r, NEST_EXT[lang]))
        obs.write(src, text)
        rc_, so, se = sh([unc, "-c", cfg, "-q", "-l", lang, "-f", src], cwd=tmp, timeout=20)
        os.unlink(src)
        if rc_ != 0:
            rc = rc_
            break
        c = columns(obs.decode(so), 8)
        if len(c) != len(lines) + nh + nt:
            rc = 97
            break
        cs.append(c[nh:len(c) - nt])
    # the same statements as a fragment (--frag): no function around them, the first line's indentation is the base, tabs in the output
    colsf, fbase = [], 0
    if rc == 0 and lang in ("C", "CPP") and i % 3 == 0:
        rr = random.Random(seed * 7 + 1)
        fb = rr.choice([2, 3, 5, 11])
        ts = rr.choice([4, 8])
        text, nh, nt = nest_render(lines, lang, random.Random(seed * 3), comments=False)
        body = text.split("\n")[nh:nh + len(lines)]
        body[0] = " " * fb + body[0].lstrip(" \t")
        src = os.path.join(tmp, "n%d_f%s" % (i, NEST_EXT[lang]))
        obs.write(src, "\n".join(body) + "\n")
        obs.write(cfg, "indent_columns=%d\nindent_with_tabs=%d\noutput_tab_size=%d\nindent_class=true\nindent_else_if=%s\n" % (ic, rr.choice([1, 2]), ts, "true" if ei else "false"))
        rc_, so, se = sh([unc, "-c", cfg, "-q", "-l", lang, "--frag", "-f", src], cwd=tmp, timeout=20)
        os.unlink(src)
        if rc_ == 0:
            c = columns(obs.decode(so), ts)
            if len(c) == len(lines):
                colsf, fbase = c, fb + 1
    os.unlink(cfg)
    base = 1 + ic * (nh // 2)
    return {"id": "nest|%d" % i, "rc": rc, "lines": lines, "ic": ic, "base": base, "lang": lang, "seed": seed, "ei": ei,
            "cols": cs[0] if rc == 0 else [], "cols2": (cs[1] if cs[1] == cs[2] else cs[2]) if rc == 0 else [], "colsf": colsf, "fbase": fbase}


def run(ctx):
    quick = ctx.tier == "quick"
    unc = ctx.unc()
    r = tlc_retry("Indent", "Indent", workers=8, timeout=900)
    ctx.add_tlc(r)
    if r.error:
        ctx.error("Indent: " + r.error)
    elif r.violation:
        ctx.model_violation("Indent", "Indent", r)
    d = os.path.join(ctx.work.path, "spec")
    os.makedirs(d, exist_ok=True)
    shutil.copy(os.path.join(SPEC, "Indent.tla"), d)
    n, dep = (10, 3) if quick else (12, 4)
    open(os.path.join(d, "IndentGen.cfg"), "w").write("SPECIFICATION Spec\nCONSTANTS\n  MaxLines = %d\n  MaxDepth = %d\n  Emit = TRUE\nINVARIANTS EmitProg\nCHECK_DEADLOCK FALSE\n" % (n, dep))
    rg = tlc_retry("Indent", "IndentGen", cwd=d, workers=1, timeout=3000, xmx="8g")
    if rg.error:
        ctx.error("IndentGen: " + rg.error)
    progs = [e["prog"] for e in rg.emitted]
    ctx.cov["programs_from_tlc"] = len(progs)
    ctx.add_tlc(rg)
    # deeper derivations: random walks of the same grammar (TLC -simulate is used in thorough)
    if not quick:
        open(os.path.join(d, "IndentSim.cfg"), "w").write("SPECIFICATION Spec\nCONSTANTS\n  MaxLines = 24\n  MaxDepth = 6\n  Emit = TRUE\nINVARIANTS EmitProg\nCHECK_DEADLOCK FALSE\n")
        rs = tlc_retry("Indent", "IndentSim", cwd=d, workers=4, simulate=4000, depth=26, seed=ctx.seed, timeout=1200)
        seen = {tuple(p) for p in progs}
        for e in rs.emitted:
            if tuple(e["prog"]) not in seen:
                seen.add(tuple(e["prog"]))
                progs.append(e["prog"])
        ctx.cov["programs_from_simulation"] = len(progs) - ctx.cov["programs_from_tlc"]
    tmp = ctx.work.sub("c18")
    jobs = []
    if quick:
        # every pair of adjacent line kinds the grammar derives is kept (three programs each), the rest is a seeded slice
        ctx.rng.shuffle(progs)
        need, keep, rest = {}, [], []
        for p in sorted(progs, key=len):
            bg = {(p[k], p[k + 1]) for k in range(len(p) - 1)}
            if any(need.get(b, 0) < 3 for b in bg):
                keep.append(p)
                for b in bg:
                    need[b] = need.get(b, 0) + 1
            else:
                rest.append(p)
        ctx.cov["adjacent_kind_pairs_covered"] = len(need)
        progs = sorted(keep + rest[:max(0, 450 - len(keep))], key=len)
    for i, p in enumerate(progs):
        for rep in range(2 if quick else 3):
            ic = ctx.rng.choice([1, 2, 3, 4, 4, 8, 5])
            o = {"ic": ic, "ns": ctx.rng.random() < 0.4, "cls": ctx.rng.random() < 0.4, "ext": ctx.rng.random() < 0.4,
                 "sc": ctx.rng.choice([0, 0, ic]), "br": ctx.rng.random() < 0.2, "ib": 0, "as": ctx.rng.choice([1, 1, 0, -ic, 3])}
            if not o["br"] and ctx.rng.random() < 0.3:
                o["ib"] = ctx.rng.choice([1, 2, 3])
            iwt = ctx.rng.choice([0, 1, 2])
            tab = ctx.rng.choice([2, 4, 8, ic])
            ex = "indent_with_tabs=%d\noutput_tab_size=%d\n" % (iwt, tab)
            if ctx.rng.random() < 0.3:
                ex += "indent_else_if=false\nindent_label=1\n"
            jobs.append((unc, tmp, len(jobs), p, o, {"text": ex, "tab": tab}, ctx.rng.randrange(1 << 30)))
    evs = pmap_proc(_job, jobs, nproc=14)
    ctx.cov["evaluations"] = len(evs)
    ok = [e for e in evs if e["rc"] == 0]
    ctx.cov["runs_comparable"] = len(ok)
    ctx.cov["runs_rebroken_or_refused"] = len(evs) - len(ok)
    tp = os.path.join(ctx.work.path, "c18.ndjson")
    write_ndjson(tp, [{k: v for k, v in e.items() if k not in ("cfg_text", "seed", "tab")} for e in evs])
    rt = tlc_retry("IndentTrace", "IndentTrace", env={"TRACE": tp}, workers=1, timeout=3000, xmx="8g")
    if rt.error:
        ctx.error("IndentTrace: " + rt.error)
    else:
        if rt.violation and rt.violation[0] == "postcondition":
            ctx.error("IndentTrace: trace not consumed to the end")
        ctx.cov["traces_validated_against_impl"] = len(evs)
        byid = {e["id"]: e for e in evs}
        for rep in rt.emitted:
            e = byid[rep["id"]]
            for b in rep["bad"]:
                kinds = "+".join(sorted(set(e["prog"])))
                sig = "%s|%s|%s" % (b, ",".join(e["prog"]), json.dumps(e["o"], sort_keys=True))
                ctx.violation(sig, "%s violated: program %s with %s: columns %s (second rendering %s, rendering with comments %s), closed form %s" % (
                    b, e["prog"], e["o"], e["c1"], e["c2"], e["c3"], rep.get("expected")),
                    {"kind": "c18", "prog": e["prog"], "cfg_text": e["cfg_text"], "seed": e["seed"], "tab": e["tab"], "o": e["o"]})
            for dn in rep["drift"]:
                ctx.drift.append({"module": "Indent", "kind": dn, "prog": e["prog"], "o": e["o"], "observed": e["c1"], "expected": rep.get("expected")})
    # ---- unbraced bodies: statement trees from Nest.tla
    r = tlc_retry("Nest", "Nest", workers=4, timeout=600)
    ctx.add_tlc(r)
    if r.error:
        ctx.error("Nest: " + r.error)
    elif r.violation:
        ctx.model_violation("Nest", "Nest", r)
    shutil.copy(os.path.join(SPEC, "Nest.tla"), d)
    open(os.path.join(d, "NestGen.cfg"), "w").write("SPECIFICATION Spec\nCONSTANTS\n  Depth = %d\n  WithTry = TRUE\n  Emit = TRUE\nINVARIANTS EmitLines\nCHECK_DEADLOCK FALSE\n" % 2)
    rn = tlc_retry("Nest", "NestGen", cwd=d, workers=1, timeout=1800)
    if rn.error:
        ctx.error("NestGen: " + rn.error)
    trees = [(e["lines"], False) for e in rn.emitted] + [(e["lines_ei"], True) for e in rn.emitted if e["lines_ei"] != e["lines"]]
    ctx.cov["statement_trees_from_tlc"] = len(trees)
    njobs = []
    for ti, (lines, ei) in enumerate(trees):
        has_try = any(x["t"] == "T" for x in lines)
        has_fin = any(x["t"] == "F" for x in lines)
        langs = ["JAVA", "CS"] if has_fin else (["CPP", "JAVA", "CS"] if has_try else ["C", "CPP", "JAVA", "CS"])
        for lang in (langs if not quick else [langs[ti % len(langs)]]):
            njobs.append((unc, tmp, len(njobs), lines, lang, ctx.rng.choice([2, 3, 4, 8]), ctx.rng.randrange(1 << 30), ei))
    nevs = pmap_proc(_nest_job, njobs, nproc=14)
    ctx.cov["evaluations"] += len(nevs)
    nok = [e for e in nevs if e["rc"] == 0]
    ctx.cov["tree_runs_comparable"] = len(nok)
    ctx.cov["tree_runs_rebroken_or_refused"] = len(nevs) - len(nok)
    tp2 = os.path.join(ctx.work.path, "c18nest.ndjson")
    write_ndjson(tp2, [{k: v for k, v in e.items() if k not in ("seed",)} for e in nok])
    rt2 = tlc_retry("NestTrace", "NestTrace", env={"TRACE": tp2}, workers=1, timeout=3000, xmx="8g")
    if rt2.error:
        ctx.error("NestTrace: " + rt2.error)
    else:
        if rt2.violation and rt2.violation[0] == "postcondition":
            ctx.error("NestTrace: trace not consumed to the end")
        ctx.cov["traces_validated_against_impl"] += len(nok)
        byid2 = {e["id"]: e for e in nok}
        for rep in rt2.emitted:
            e = byid2[rep["id"]]
            shape = " ".join(x["t"] for x in e["lines"])
            for b in rep["bad"]:
                ctx.violation("%s|nest|%s|%s" % (b, shape, e["lang"]), "%s violated: statement tree '%s' (%s, indent_columns=%d): columns %s (with comments %s), by nesting %s" % (
                    b, shape, e["lang"], e["ic"], e["cols"], e["cols2"], rep.get("expected")),
                    {"kind": "c18nest", "lines": e["lines"], "lang": e["lang"], "ic": e["ic"], "seed": e["seed"], "ei": e["ei"]})
    ctx.cov["distinct_nontrivial"] = len({(tuple(e["prog"]), json.dumps(e["o"], sort_keys=True)) for e in ok if len(e["prog"]) >= 6}) + len(nok)
    ctx.cov["rule"] = ("Indent.tla: every derivation of the block grammar up to %d lines / depth %d is generated by TLC (and the closed form is shown "
                       "to satisfy the three structural predicates on each); each program is rendered twice with different seeded original "
                       "indentation and formatted under seeded (indent_columns 1..8, indent_namespace/class/extern, indent_switch_case, "
                       "indent_braces, indent_with_tabs 0..2, tab size) configurations; non-trivial = comparable run of a program with >= 6 lines" % (n, dep))
    if ok:
        e = ok[len(ok) // 2]
        ctx.sample({"prog": e["prog"], "options": e["o"], "columns": e["c1"]})
    ctx.assumptions += ["programs are rendered in C++ with braces on their own lines (the default brace style keeps them there)",
                        "options without a closed form (continuation lines, labels, trailing comments) are excluded as the statement excludes them"]


def replay(path):
    from ..common import build
    import tempfile
    r = json.load(open(path))
    if r.get("kind") == "model":
        print(r.get("tlc_tail", ""))
        return 1
    unc = build("plain")
    d = tempfile.mkdtemp(prefix="c18replay")
    try:
        cfg = os.path.join(d, "r.cfg")
        obs.write(cfg, r["cfg_text"])
        for k in range(3):
            src = os.path.join(d, "r%d.cpp" % k)
            obs.write(src, render(r["prog"], random.Random(r["seed"] * 2 + k), comments=CMODE[r["seed"] % 3] if k == 2 else False))
            rc, so, se = sh([unc, "-c", cfg, "-q", "-l", "CPP", "-f", src])
            print("--- rendering %d (rc=%d), columns %s" % (k, rc, columns(obs.decode(so), r["tab"])))
            print(so.decode("latin-1"))
        return 1
    finally:
        shutil.rmtree(d, ignore_errors=True)
