"""C01 - formatting preserves program meaning (compile equivalence).  Meaning.tla (expression
neighbourhoods, history invariant), Mods.tla (statement trees) as generators; gcc / g++ / clang /
javac as the observation of 'meaning'; MeaningTrace.tla judges the histories."""
import hashlib
import json
import os
import shutil

from .. import obs, cfggen, hazard
from ..common import pmap_proc, tlc_retry, write_ndjson, sh, SPEC
from . import pipeline_engine as pe

LEVEL = "exploration"
HDR_C = "extern int a, b, c, r, k[8];\nextern int *p, *q;\nextern long d;\nextern int A[64], N[64], X[64], I[64];\nextern int g(int, int);\n"
PROG = {
    "C": "#include <stdbool.h>\n" + HDR_C + """
struct pt { int x; int y; };
union un { int i; float f; };
enum en { E0, E1 = 3, E2 };
typedef int (*fn)(int, int);
static int tbl[] = { 1, 2, 3, };
const char *msg = "a  b\\tc" "d";
const char *tabs = /* sep */ "name\tvalue";
const char *tab2 =
    // a literal with a raw tab is the first thing behind this comment
    "\t";
const char tab3 = /* c */ '\t';
const char *astral = "\U00020BB7 \U0010FFFD \U0001F600 \u00e9 \u20ac";
unsigned int u1; unsigned u2; long int l1; short int s1; signed int g1;
#define SQ(x) ((x) * (x))
#define MAX(x, y) ((x) > (y) ? (x) : (y))
#define TWO 1 + \\
    1
#if defined(NOPE) && !defined(YES)
#error no
#elif 1
int pick = 1;
#else
int pick = 2;
#endif
#define HAVE_A 1
#if defined(HAVE_A) /* first half */ \\
    && defined(HAVE_B) /* second half */
int sel = 1; /* both */
#elif defined(HAVE_A) // only a
int sel = 2; // one
#else /* none */
int sel = 3;
#endif /* HAVE */
#define ADD3(x) ((x) + /* inside a macro */ \\
                 3) /* behind a macro */
int f1(int n, struct pt *s)
{
    int x = n;;
    long y = 0x1e + 5;
    double z = 1. + .5 + 1e+3;
    char ch = 'a'; char bs = '\\\\';
    for (;;) { if (x) break; }
    while (1) { x++; if (x > 3) break; }
    do { x--; } while (x > 0);
    if (n) { x = 1; } else { x = 2; }
    if (n) x = 1; else if (x) { x = 2; y = 3; } else x = 4;
    if (n && x || y) x = n == y;
    if (n) { for (;;) { while (n--) { if (n) x++; } break; } } else x = 0;
    switch (x) {
    case 1: { x = 2; } break;
    case 2: x = 3; break;
    case 3 ... 5: x = 4; break;
    default: break;
    };
    x = s->x + (*s).y - -x + +x - (-x) + ~x + !x;
    x = n / *p + n * *q - n & *p;
    x = x << 2 >> 1; x <<= 1; x >>= 1;
    x = (int) y + (int) sizeof (int) + (int) sizeof x;
    x = n ? -x : +x;
    x = SQ(x) + MAX(x, n) + TWO; /* trailing */
    x = ADD3(x) /* mid */ + sel; // tail
    /* own line */ x++;
    x = tbl[x % 3] + k [ 1 ];
    x = g(x, -1) + g ( n , x );
    lbl: x++;
    if (x < 10) goto lbl;
    return (x + (int) y + (int) z + ch + bs);
}
/**
 * Doc comments whose last line holds a tag and the closer.
 * @param n, m the counts
 * @return the sum */
int dc1(int n, int m) { return n + m; }
/** @brief one line @param x */
int dc2(int x) { return x; }
/**
 * @param s   the point*/
int dc3(struct pt *s) { return s->x; }
/**
 * @return */
void v1(void) { return; }
int g1f(int n) { return n; };
""",
    "CPP": """#include <stddef.h>
extern int a, b, c, r; extern int *p, *q;
namespace outer { namespace inner { template<typename T, typename U> struct pair { T first; U second; }; } }
template<typename T> struct vec { T *d; size_t n; T &operator[](size_t i) { return d[i]; } bool operator==(const vec &o) const { return n == o.n; } };
template<typename T> T tmax(const T &x, const T &y) { return x > y ? x : y; }
struct B { virtual ~B() {} virtual int f(int) const = 0; };
class K : public B { public: K() : m(0), n(1) {} explicit K(int v) : m(v), n(v) {} int f(int x) const override { return x + m; }
  K &operator=(const K &o) { m = o.m; return *this; } int operator()(int x) { return x * n; } private: int m; int n; };
enum class Col : int { R = 1, G, };
using fp = int (*)(int);
int glob = ::a;
/**
 * @tparam T the type
 * @param x, y values
 * @return the larger one*/
template<typename T> T dmax(const T &x, const T &y) { return x > y ? x : y; }
/**
 * @throws nothing */
int dc2(int x) { return dmax<int>(x, 1); }
/// @param argc count
int run(int argc)
{
    vec<vec<int>> vv{}; vec<outer::inner::pair<int, long>> vp{};
    K k1; K k2(3); k1 = k2;
    auto l = [&](int x) -> int { return x * 2 + argc; };
    auto l2 = [&](int x2) { return x2 == 1 || x2 == argc; }; bool after = argc == 2; if (argc) { after = argc == 1 ? true : after; }
    int x = tmax<int>(argc, 3) + k1(2) + l(1);
    int y = x > 2 ? ::glob : -x;
    if (x) { for (int i = 0; i < 3; ++i) { while (x--) { if (y) y++; } } } else y = 0;
    try { if (x < 0) { throw x; } } catch (int &e) { y = e; } catch (...) { y = 0; }
    for (;;) { if (y) { break; } }
    bool eq = vv == vv && !(x >> 1 > 2);
    x = a / *p + a * *q; x = 0x1e + 5; double z = 1. + .5;
    switch (x) { case 1: { y++; } break; default: { y--; break; } }
    const char *s = R"(raw "x" \\ )" "tail"; char16_t cc = u'c';
    return x + y + (eq ? 1 : 0) + (l2(1) && after ? 1 : 0) + static_cast<int>(z) + (int) sizeof(s) + (int) cc + (int) Col::G;
}
""",
    "OC": """#include <stdbool.h>
__attribute__((objc_root_class)) @interface Root
+ (id)alloc;
- (id)init;
@end
@protocol P
- (int)val:(int)a with:(int)b;
@end
@interface A : Root <P>
{
    int m;
}
@property (nonatomic, assign) int z;
- (int)val:(int)a with:(int)b;
@end
@implementation A
- (int)val:(int)a with:(int)b { if (a) { return a + b; } else return [self val:b with:a - 1] + m; }
@end
/**
 * @param o the object
 * @param n count */
int use(A *o, int n) { int r = [o val:n with:2]; for (;;) { if (r) break; } return r + o.z; }
""",
    "JAVA": """import java.util.List; import java.util.ArrayList;
public class A<T extends Comparable<T>> {
    private int m = 0x1e + 5; private List<List<Integer>> ll = new ArrayList<>();
    interface F { int ap(int x); }
    public int f(int a, int b) { int x = a;; if (a > 0) { x++; } else x--; for (;;) { if (x > 3) break; x++; }
        while (true) { x--; if (x < 0) break; } F g = (int y) -> y * 2; switch (x) { case 1: { x = 2; } break; default: break; }
        x = a > b ? -a : +b; x = x << 2 >>> 1 >> 1; x >>>= 1; boolean q = a == b && !(x > 1 || b < 2); return q ? g.ap(x) : x + m; }
    /**
     * @param a, b the numbers
     * @return the sum */
    public int dc(int a, int b) { return a + b; }
    /**
     * @exception RuntimeException never*/
    @Override public String toString() { return "a  b" + m; }
}
""",
}
EXT = {"C": ".c", "CPP": ".cpp", "OC": ".m", "JAVA": ".java"}


def expr_zoo(lang):
    """comparisons followed by ?: / && / || / , inside every bracket kind, in every context the parenthesis options look at (return,
    assignment, condition, argument) - compilable; found: 'y ? t[a ? 0 : 1] : 0' was refused with status 70 on the pinned tree"""
    inner = ["a == b ? 0 : 1", "a < b && b < c", "a != b || c", "(a == b, c)", "!a == b ? c : 0", "a >= b ? (c == a ? 1 : 2) : 3"]
    br = [("zt[", "]"), ("g(1, ", ")"), ("zt[g(1, ", ")]"), ("g(1, zt[", "])")]
    if lang == "C":
        br += [("(int[]){ ", " }[0]"), ("(struct zq){ ", " }.m")]
        head = "struct zq { int m; };\nextern int zt[8];\nextern int zh(int, int);\n"
    else:
        br += [("zq{ ", " }.m"), ("[=] { return ", "; }()"), ("[=](int z) { return z + (", "); }(1)")]
        head = "struct zq { int m; };\nextern int zt[8];\nextern int zh(int, int);\nextern int g(int, int);\n"
    ctxs = ["if (c) return %s;", "x = %s;", "x = 1 + %s + 2;", "if (%s) x = 1;", "x = y ? %s : 0;", "while (%s) break;", "zh(%s, 1);", "int d%d = %s;", "x += %s;"]
    out = [head + "int ez(int x, int y)", "{"]
    n = 0
    for k, e in enumerate(inner):
        for j, (o, c_) in enumerate(br):
            for i, cx in enumerate(ctxs):
                if (i + j + k) % 3:
                    continue            # a third of the product: every context, bracket and expression with every other in some line
                n += 1
                ex = o + e + c_
                out.append("    " + (cx % ((n, ex) if "%d" in cx else ex)))
    out += ["    return x;", "}"]
    return "\n".join(out) + "\n"


PROG["C"] += expr_zoo("C")
PROG["CPP"] += expr_zoo("CPP")


def compile_id(src, lang, tmp, tag):
    """(status, content id of the object code)"""
    if lang == "C":
        cmd = ["gcc", "-x", "c", "-std=gnu11", "-S", "-O1", "-g0", "-w", "-o", "-", "-"]
    elif lang == "CPP":
        cmd = ["g++", "-x", "c++", "-std=c++17", "-S", "-O1", "-g0", "-w", "-o", "-", "-"]
    elif lang == "OC":
        # the program is read from standard input: ObjC object code embeds the source file's name
        cmd = ["clang", "-x", "objective-c", "-S", "-O1", "-g0", "-w", "-o", "-", "-"]
    else:
        d = os.path.join(tmp, "jc_" + tag)
        shutil.rmtree(d, ignore_errors=True)
        os.makedirs(d)
        jsrc = os.path.join(d, "A.java")
        shutil.copy(src, jsrc)
        rc, so, se = sh(["javac", "-g:none", "-nowarn", "-d", d, jsrc], timeout=120)
        h = hashlib.sha1()
        if rc == 0:
            for f in sorted(os.listdir(d)):
                if f.endswith(".class"):
                    h.update(f.encode())
                    h.update(open(os.path.join(d, f), "rb").read())
        shutil.rmtree(d, ignore_errors=True)
        return rc, h.hexdigest()[:16]
    rc, so, se = sh(cmd, timeout=120, input=open(src, "rb").read())
    if rc != 0:
        return rc, ""
    lines = [l for l in so.split(b"\n") if not l.lstrip().startswith((b".file", b".ident"))]
    return 0, hashlib.sha1(b"\n".join(lines)).hexdigest()[:16]


def render_exprs(exprs, start):
    out = [HDR_C]
    for i, e in enumerate(exprs):
        out.append("void e%d(void) { r = (%s); }" % (start + i, " ".join(e["tokens"])))
    return "\n".join(out) + "\n"


def render_tree_c(tokens, idx):
    out = ["int t%d(int a0)" % idx, "{"]
    n = 0
    for t in tokens:
        n += 1
        if t == "I":
            out.append("if (A[%d] > %d)" % (n, n))
        elif t == "E":
            out.append("else")
        elif t == "L":
            out.append(("while (N[%d]--)" % n) if n % 2 else ("for (I[%d] = 0; I[%d] < %d; I[%d]++)" % (n, n, n, n)))
        elif t == "S":
            out.append("X[%d]++;" % n)
        else:
            out.append(t)
    out += ["return a0;", "}"]
    return "\n".join(out) + "\n"


def _job(a):
    unc, tmp, i, src, lang, m1, cfgname, cfgtext = a
    if lang == "JAVA":
        # 'while(1)' is a request for C syntax: not a configuration one can ask of a Java program
        cfgtext = cfgtext.replace("mod_infinite_loop=4", "mod_infinite_loop=2").replace("mod_infinite_loop=5", "mod_infinite_loop=3")
    cfg = os.path.join(tmp, "k%d.cfg" % i)
    obs.write(cfg, cfgtext)
    out = os.path.join(tmp, "o%d%s" % (i, EXT[lang]))
    rc, so, se = sh([unc, "-c", cfg, "-q", "-l", {"OC": "OC", "CPP": "CPP", "C": "C", "JAVA": "JAVA"}[lang], "-f", src], cwd=tmp, timeout=10)
    spin = ""
    if rc == -999:
        # where does it spin?  (same reading of the pass hook as C06)
        for budget in (6, 30):          # a loaded machine may need the longer look
            r2, so2, se2, evs = obs.run(unc, ["-c", cfg, "-q", "-l", lang, "-f", src], cwd=tmp, trace=os.path.join(tmp, "k%d.nd" % i), flags=["PASS"], timeout=budget)
            passes = [e["name"] for e in evs if e.get("e") == "Pass"]
            if len(passes) > 200:
                break
        if len(passes) > 200:
            tail = set(passes[-40:])
            spin = "width-loop" if "do_code_width" in tail else ("newline-loop" if "do_blank_lines" in tail else "loop:" + passes[-1])
        else:
            spin = passes[-1] if passes else "tokenize"
            # slow or stuck?  the same run with nine times the budget decides (a loaded machine must not raise an alarm)
            rc3, so3, se3 = sh([unc, "-c", cfg, "-q", "-l", lang, "-f", src], cwd=tmp, timeout=90)
            if rc3 != -999:
                rc, so, se, spin = rc3, so3, se3, ""
    os.unlink(cfg)
    ev = {"id": "%s|%s" % (os.path.basename(src), cfgname), "c1": 0, "m1": m1, "status": rc, "c2": 0, "m2": "", "spin": spin}
    if rc == 0:
        obs.write(out, so)
        c2, m2 = compile_id(out, lang, tmp, "o%d" % i)
        ev["c2"], ev["m2"] = c2, m2
        os.unlink(out)
    return ev, (src, lang, cfgname, cfgtext)


def failure_of(ev):
    if ev["status"] != 0:
        return "FormatterAccepts"
    if ev["c2"] != 0:
        return "OutputCompiles"
    if ev["m1"] != ev["m2"]:
        return "SameObjectCode"
    return None


def minimise(unc, tmp, src, lang, m1, cfgtext, kind):
    """the smallest part of the configuration found (halving first, then line by line) that still produces this failure"""
    lines = [l for l in cfgtext.split("\n") if l.strip()]
    if len(lines) <= 1:
        return lines
    budget = [60]

    def fails(t):
        budget[0] -= 1
        ev, m = _job((unc, tmp, 900000 + budget[0], src, lang, m1, "min", "\n".join(t) + "\n"))
        return failure_of(ev) == kind
    keep = list(lines)
    n = 2
    while len(keep) > 1 and budget[0] > 0:
        size = max(1, len(keep) // n)
        parts = [keep[k:k + size] for k in range(0, len(keep), size)]
        done = False
        for part in parts:
            if budget[0] <= 0:
                break
            if len(part) < len(keep) and fails(part):
                keep, n, done = part, 2, True
                break
        if not done:
            for part in parts:
                if budget[0] <= 0:
                    break
                rest = [x for x in keep if x not in part]
                if rest and len(rest) < len(keep) and fails(rest):
                    keep, n, done = rest, max(n - 1, 2), True
                    break
        if not done:
            if size == 1:
                break
            n = min(len(keep), n * 2)
    return sorted(keep)


def single_option_configs(unc, rng, limit=None):
    res = []
    for o in cfggen.any_options(unc):
        k = o["kind"]
        if k in ("bool",):
            vals = ["true", "false"]
        elif k in ("iarf",):
            vals = ["add", "remove", "force", "ignore"]
        elif k in ("tokenpos", "lineend"):
            from .. import options as vopt
            vals = vopt.ENUM_VALUES[k]
        else:
            lo, hi = (o["min"], o["max"]) if o["bounded"] else (0, 16)
            vals = sorted({lo, hi, min(hi, max(lo, 1)), min(hi, max(lo, 2)), (lo + hi) // 2})
        for v in vals:
            if str(v) == str(o["def"]):
                continue
            res.append(("%s=%s" % (o["name"], v), "%s=%s\n" % (o["name"], v)))
    if limit:
        rng.shuffle(res)
        res = res[:limit]
    return res


def run(ctx):
    quick = ctx.tier == "quick"
    unc = ctx.unc()
    # generators from the specification
    d = os.path.join(ctx.work.path, "spec")
    os.makedirs(d, exist_ok=True)
    for f in ("Meaning.tla", "Mods.tla"):
        shutil.copy(os.path.join(SPEC, f), d)
    open(os.path.join(d, "MeaningGen.cfg"), "w").write("SPECIFICATION Spec\nCONSTANTS\n  Emit = TRUE\nINVARIANTS EmitExpr\nCHECK_DEADLOCK FALSE\n")
    rg = tlc_retry("Meaning", "MeaningGen", cwd=d, workers=1, timeout=600)
    ctx.add_tlc(rg)
    if rg.error:
        ctx.error("MeaningGen: " + rg.error)
    exprs = rg.emitted
    ctx.cov["expressions_from_tlc"] = len(exprs)
    open(os.path.join(d, "ModsHaz.cfg"), "w").write("SPECIFICATION Spec\nCONSTANTS\n  Depth = 1\n  ChainDepth = 4\n  SkipAllVClose = FALSE\n  IfGuard = TRUE\n  Emit = TRUE\n"
                                                    "INVARIANTS EmitHazard\nCHECK_DEADLOCK FALSE\n")
    rh = tlc_retry("Mods", "ModsHaz", cwd=d, workers=1, timeout=1500, xmx="10g")
    ctx.add_tlc(rh)
    open(os.path.join(d, "ModsGen.cfg"), "w").write("SPECIFICATION Spec\nCONSTANTS\n  Depth = 2\n  ChainDepth = 2\n  SkipAllVClose = TRUE\n  IfGuard = TRUE\n  Emit = TRUE\n"
                                                    "INVARIANTS EmitTree\nCHECK_DEADLOCK FALSE\n")
    rt_ = tlc_retry("Mods", "ModsGen", cwd=d, workers=1, timeout=1500, xmx="10g")
    ctx.add_tlc(rt_)
    trees = [t["tokens"] for t in rh.emitted] + [t["tokens"] for t in rt_.emitted if t["tokens"] != t["after"]]
    ctx.rng.shuffle(trees)
    trees = trees[:600 if quick else 6000]
    ctx.cov["statement_trees_from_tlc"] = len(trees)
    tmp = ctx.work.sub("c01")
    progs = []
    for k in range(0, len(exprs), 60):
        p = os.path.join(tmp, "expr%03d.c" % (k // 60))
        obs.write(p, render_exprs(exprs[k:k + 60], k))
        progs.append((p, "C", "expr"))
    for k in range(0, len(trees), 40):
        p = os.path.join(tmp, "tree%03d.c" % (k // 40))
        obs.write(p, HDR_C + "".join(render_tree_c(t, k + j) for j, t in enumerate(trees[k:k + 40])))
        progs.append((p, "C", "tree"))
    for lang in (("C", "CPP") if quick else ("C", "CPP", "OC", "JAVA")):
        p = os.path.join(tmp, "A.java" if lang == "JAVA" else "prog" + EXT[lang])
        obs.write(p, PROG[lang])
        progs.append((p, lang, "prog"))
    # small programs in which the file ends with each kind of construct, WITHOUT a final line break: every single-option
    # configuration meets them (a function that the end of the file closes was refused under indent_func_def_force_col1)
    tails = {"tail_func.c": "int tf(int a)\n{\n    return a;\n}", "tail_decl.c": "int td;\nint te = 1;", "tail_struct.c": "struct ts { int a; };\nenum tn { TA, TB };",
             "tail_cmt.c": "int tc; /* c */\n/* last */", "tail_pp.c": "#define TP 1\nint tq;\n#undef TP", "tail_init.c": "int ti[] = {\n    1, 2\n};"}
    for name, text in tails.items():
        p = os.path.join(tmp, name)
        obs.write(p, text)
        progs.append((p, "C", "tail"))
    # only programs that compile are in the universe
    base = {}
    for p, lang, kind in progs:
        c1, m1 = compile_id(p, lang, tmp, "in")
        if c1 != 0:
            ctx.error("generated program %s does not compile (generator defect, not a property violation)" % os.path.basename(p))
            continue
        base[p] = m1
    progs = [x for x in progs if x[0] in base]
    # configurations
    sp_remove = cfggen.all_iarf(unc, "sp_", "remove")
    sp_force = cfggen.all_iarf(unc, "sp_", "force")
    brace_rm = "mod_full_brace_if=remove\nmod_full_brace_for=remove\nmod_full_brace_while=remove\nmod_full_brace_do=remove\n"
    brace_add = "mod_full_brace_if=add\nmod_full_brace_for=add\nmod_full_brace_while=add\nmod_full_brace_do=add\nmod_full_brace_function=add\n"
    core = [("default", ""), ("sp_remove", sp_remove), ("sp_force", sp_force), ("brace_remove", brace_rm), ("brace_add", brace_add),
            ("nl_remove", cfggen.all_iarf(unc, "nl_", "remove")), ("nl_force", cfggen.all_iarf(unc, "nl_", "force")),
            ("sp_remove+brace_remove", sp_remove + brace_rm), ("width", "code_width=20\n"),
            ("mods", "mod_paren_on_return=add\nmod_remove_extra_semicolon=true\nmod_remove_empty_return=true\nmod_infinite_loop=1\n"
                     "mod_full_paren_if_bool=true\nmod_enum_last_comma=remove\nmod_int_short=add\nmod_unsigned_int=remove\nmod_sort_include=true\n"),
            ("mods2", "mod_paren_on_return=remove\nmod_infinite_loop=2\nmod_enum_last_comma=add\nmod_case_brace=remove\nmod_move_case_break=true\n"
                      "mod_long_int=remove\nmod_full_paren_return_bool=true\nmod_full_paren_assign_bool=true\n")]
    singles = single_option_configs(unc, ctx.rng, None)
    if quick:
        # the options that rewrite tokens or comments are all kept, the rest is a seeded slice
        risky = [c for c in singles if c[0].startswith(("mod_", "cmt_", "pp_", "nl_remove", "code_width", "string_"))]
        rest = [c for c in singles if c not in risky]
        ctx.rng.shuffle(rest)
        singles = risky + rest[:160]
    randoms = [("rand%d" % k, cfggen.random_any_config(ctx.rng, unc)) for k in range(40 if quick else 600)]
    jobs = []
    nth = {"expr": 0, "tree": 0}
    count = {k: max(1, sum(1 for x in progs if x[2] == k)) for k in ("expr", "tree")}
    for p, lang, kind in progs:
        cfgs = list(core)
        if kind == "prog":
            cfgs += singles + randoms
        elif kind == "tail":
            cfgs += single_option_configs(unc, ctx.rng, None) + randoms[:10]
        else:
            mine = [c for c in singles if c[0].startswith("sp_" if kind == "expr" else ("mod_", "nl_"))]
            if quick:
                cfgs += mine[:30 if kind == "expr" else 10] + randoms[:6 if kind == "expr" else 4]
            else:
                # every single-option configuration meets 8 generated programs of the kind (dealt round-robin), seeded draws meet all
                k_, n_ = nth[kind], count[kind]
                cfgs += [c for j, c in enumerate(mine) if (j - k_) % n_ < 8 or n_ <= 8] + randoms[:40]
                nth[kind] += 1
        for (cn, ct) in cfgs:
            jobs.append((unc, tmp, len(jobs), p, lang, base[p], cn, ct))
    res = pmap_proc(_job, jobs, nproc=14)
    evs = [e for e, m in res]
    ctx.cov["evaluations"] = len(evs)
    ctx.cov["programs"] = len(progs)
    ctx.cov["configurations"] = len({e["id"].split("|", 1)[1] for e in evs})
    ctx.cov["refused_by_uncrustify"] = sum(1 for e in evs if e["status"] != 0)
    tp = os.path.join(ctx.work.path, "c01.ndjson")
    write_ndjson(tp, evs)
    rt = tlc_retry("MeaningTrace", "MeaningTrace", env={"TRACE": tp}, workers=1, timeout=1800)
    if rt.error:
        ctx.error("MeaningTrace: " + rt.error)
    else:
        if rt.violation and rt.violation[0] == "postcondition":
            ctx.error("MeaningTrace: trace not consumed to the end")
        ctx.cov["traces_validated_against_impl"] = len(evs)
        byid = {e["id"]: (e, m) for e, m in res}
        mincache = {}
        for rep in rt.emitted:
            e, (src, lang, cn, ct) = byid[rep["id"]]
            for b in rep["bad"]:
                # the signature names the smallest part of the configuration that still produces this failure on this program
                kind = os.path.basename(src).rstrip("0123456789").split(".")[0].rstrip("0123456789")
                if e["status"] == -999 and e.get("spin") in ("width-loop", "newline-loop"):
                    # a convergence loop of uncrustify_file() that does not converge: the class C06 records
                    sig = "%s|%s%s|spins-in=%s" % (b, kind, EXT[lang], e["spin"])
                else:
                    ck = (b, kind, lang, cn)
                    if ck not in mincache:
                        mincache[ck] = minimise(unc, tmp, src, lang, e["m1"], ct, b)
                    mins = mincache[ck]
                    sig = "%s|%s%s|%s" % (b, kind, EXT[lang], ";".join(mins))
                ctx.violation(sig, "%s violated: %s formatted with %s: exit %d, compile of output %d, object code %s -> %s" % (
                    b, os.path.basename(src), cn, e["status"], e["c2"], e["m1"], e["m2"]),
                    {"kind": "c01", "which": b, "lang": lang, "cfg_text": ct, "src_name": os.path.basename(src), "src_bytes": open(src, "rb").read()})
    ctx.cov["distinct_nontrivial"] = len({(e["id"]) for e in evs if e["status"] == 0})
    ctx.cov["rule"] = ("programs: %d expression statements enumerated by TLC from Meaning.tla (postfix x binary x prefix x ternary, typed), statement "
                       "trees from Mods.tla (the sensitivity set of the dangling-else clause and the trees whose braces go), hand-written "
                       "compilable programs (C, C++%s); configurations: 11 core mixes, every option singly at its enumerated / boundary values "
                       "(%s), seeded multi-option draws; a history is non-trivial when uncrustify accepted the program; distinct by (program, "
                       "configuration)" % (len(exprs), "" if quick else ", ObjC, Java", "seeded 260" if quick else "all"))
    if evs:
        ctx.sample({"history": evs[0]})
    ctx.assumptions += ["meaning = object code of gcc/g++ -S -O1 -g0 (clang for ObjC, javac -g:none for Java) with .file/.ident stripped",
                        "debug_*, lexer-redefining and file-inserting options are excluded as the statement says (cfggen.NOT_ANY)",
                        "mod_infinite_loop=4/5 (the integer forms 'while(1)') is replaced by 2/3 for the Java program"]


def replay(path):
    from ..common import build
    import tempfile
    r = json.load(open(path))
    unc = build("plain")
    d = tempfile.mkdtemp(prefix="c01replay")
    try:
        src = os.path.join(d, r["src_name"])
        b = r["src_bytes"]
        obs.write(src, b.encode("latin-1") if isinstance(b, str) else b)
        lang = r["lang"]
        c1, m1 = compile_id(src, lang, d, "in")
        ev, m = _job((unc, d, 0, src, lang, m1, "replay", r["cfg_text"]))
        print(ev)
        bad = ev["status"] != 0 or ev["c2"] != 0 or ev["m1"] != ev["m2"]
        print("VIOLATION reproduced" if bad else "property holds on this case")
        return 1 if bad else 0
    finally:
        shutil.rmtree(d, ignore_errors=True)
