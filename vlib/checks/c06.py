"""C06 - any input terminates cleanly: formatted, or refused with a diagnostic.
Process.tla (protocol + loop termination) + ProcessTrace.tla."""
import hashlib
import json
import os
import shutil

from .. import zoo, obs, corpus, cfggen, hazard
from ..common import pmap_proc, tlc_retry, write_ndjson, sh, build
from .c03 import COMMENTS

LEVEL = "exploration"
LANG_EXT = {"C": ".c", "CPP": ".cpp", "D": ".d", "CS": ".cs", "JAVA": ".java", "OC": ".m", "VALA": ".vala", "PAWN": ".pawn", "ECMA": ".es"}
TIMEOUT = 8
BR = "()[]{}<>\"'`#\\;:,"
OPENERS = ["/*", "//", "*/", "#if", "#define X", "#else", "#endif", "R\"(", "'", "\"", "{", "}", "(", ")", "<", "template<", "@", "\\\n", "\x00", "\xff", "?:",
           "case", "else", "do", "try", "class", "namespace", "operator", "->", "::", "[[", "]]", "@interface", "@end", "#pragma asm", "/* *INDENT-OFF* */"]


def mutate(rng, data):
    b = bytearray(data)
    k = rng.random()
    if not b:
        return bytes(rng.choice(OPENERS).encode("latin-1"))
    pos = rng.randrange(len(b))
    if k < 0.25:      # truncate at a random point (mid-line)
        return bytes(b[:pos])
    if k < 0.40:      # truncate at a line boundary
        nl = b.find(b"\n", pos)
        return bytes(b[:nl + 1 if nl >= 0 else len(b)])
    if k < 0.55:      # delete a bracket / quote / separator
        cand = [i for i in range(len(b)) if chr(b[i]) in BR]
        if cand:
            del b[rng.choice(cand)]
        return bytes(b)
    if k < 0.65:      # duplicate one
        cand = [i for i in range(len(b)) if chr(b[i]) in BR]
        if cand:
            i = rng.choice(cand)
            b[i:i] = b[i:i + 1]
        return bytes(b)
    if k < 0.80:      # insert an opener
        b[pos:pos] = rng.choice(OPENERS).encode("latin-1")
        return bytes(b)
    if k < 0.90:      # swap two chunks
        q = rng.randrange(len(b))
        a_, c_ = sorted((pos, q))
        return bytes(b[:a_] + b[c_:] + b[a_:c_])
    for _ in range(rng.randint(1, 4)):    # random bytes
        b[rng.randrange(len(b))] = rng.randrange(256)
    return bytes(b)


def diag_len(se):
    """bytes of stderr that are not the progress line 'do_source_file: Parsing: <file> as language <L>' (printed before any work)"""
    return sum(len(l) + 1 for l in se.split(b"\n") if l.strip() and not (l.startswith(b"do_source_file") and b"Parsing:" in l))


def _job(a):
    unc, tmp, i, data, lang, cfgtext, quiet, use_asan = a
    src = os.path.join(tmp, "f%d%s" % (i, LANG_EXT[lang]))
    cfg = os.path.join(tmp, "f%d.cfg" % i)
    obs.write(src, data)
    obs.write(cfg, cfgtext)
    env = {"ASAN_OPTIONS": "detect_leaks=0:abort_on_error=1:halt_on_error=1", "UBSAN_OPTIONS": "halt_on_error=1:print_stacktrace=0"} if use_asan else None
    import time as _t
    t0 = _t.time()
    rc, so, se = sh([unc, "-c", cfg] + (["-q"] if quiet else []) + ["-l", lang, "-f", src], cwd=tmp, timeout=TIMEOUT * (3 if use_asan else 1), env=env)
    wall = _t.time() - t0
    ev = {"id": "run|%d" % i, "rc": rc if rc != -999 else 0, "timedout": rc == -999, "outlen": len(so), "errlen": diag_len(se), "quiet": quiet,
          "san": (b"AddressSanitizer" in se or b"runtime error:" in se), "lang": lang}
    info = {"last_pass": "", "wall": wall}
    if rc == -999:
        # where does it spin?  re-run with the pass hook for a short time and read the last pass reached
        hooks = os.path.join(os.path.dirname(os.path.dirname(unc)), "hooks", "uncrustify")
        tr = os.path.join(tmp, "f%d.nd" % i)
        for budget in (6, 30):          # a loaded machine may need the longer look to get past the tokenizer
            rc2, so2, se2, evs = obs.run(hooks if os.path.exists(hooks) else unc, ["-c", cfg, "-q", "-l", lang, "-f", src], cwd=tmp, trace=tr, flags=["PASS"], timeout=budget)
            passes = [e["name"] for e in evs if e.get("e") == "Pass"]
            if len(passes) > 200:
                break
        info["last_pass"] = passes[-1] if passes else ("tokenize" if not any(e.get("e") == "Tokenized" for e in evs) else "after-tokenize")
        if len(passes) > 200:
            # the pass list keeps growing: a convergence loop that does not converge; name the loop, not the pass the kill happened in
            tail = set(passes[-40:])
            info["last_pass"] = "width-loop" if "do_code_width" in tail else ("newline-loop" if "do_blank_lines" in tail else "loop:" + passes[-1])
        else:
            # slow or stuck?  a loaded machine must not turn a slow run into an alarm: the same run gets fifteen times the budget
            rc3, so3, se3 = sh([unc, "-c", cfg] + (["-q"] if quiet else []) + ["-l", lang, "-f", src], cwd=tmp, timeout=TIMEOUT * 15 * (3 if use_asan else 1), env=env)
            if rc3 != -999:
                ev.update({"rc": rc3, "timedout": False, "outlen": len(so3), "errlen": diag_len(se3),
                           "san": (b"AddressSanitizer" in se3 or b"runtime error:" in se3)})
                info["slow"] = True
    os.unlink(src)
    os.unlink(cfg)
    return ev, info


def run(ctx):
    quick = ctx.tier == "quick"
    unc = ctx.unc()
    r = tlc_retry("Process", "Process", workers=4, timeout=300)
    ctx.add_tlc(r)
    if r.error:
        ctx.error("Process: " + r.error)
    elif r.violation:
        ctx.model_violation("Process", "Process", r)
    rn = tlc_retry("Process", "Process_noprogress", workers=4, timeout=300)
    ctx.cov["variant_rejected"] = {"width loop without the progress assumption": bool(rn.violation)}
    if not rn.violation:
        ctx.error("vacuity: the width loop terminates without the progress assumption")
    use_asan = False
    runner = unc
    if not quick:
        try:
            runner = build("asan")
            use_asan = True
        except Exception as ex:      # the instrumented build is an observer; without it the plain binary is used
            ctx.assumptions.append("ASan/UBSan build failed (%s): plain binary used" % (str(ex)[:100],))
    tmp = ctx.work.sub("c06")
    ins = corpus.inputs()
    ctx.rng.shuffle(ins)
    styles = [""] + [open(os.path.join(corpus.REPO, "etc", f), errors="replace").read() for f in sorted(os.listdir(os.path.join(corpus.REPO, "etc")))
                     if f.endswith(".cfg") and f not in ("defaults.cfg",)][:8]
    # configurations that set every option at random: two- and three-option interactions are all present in some of them
    fulls = [cfggen.random_full_config(ctx.rng, unc, keep_default=ctx.rng.choice([0.0, 0.3, 0.6])).replace("\ncode_width=", "\n#code_width=") for _ in range(24 if quick else 200)]
    jobs = []
    meta = {}
    n_in = 260 if quick else 3000
    for c in ins[:n_in]:
        data = open(c.inp, "rb").read()
        if len(data) > 40000:
            continue
        lang = c.lang or corpus.lang_of(c.inp)
        if lang not in LANG_EXT:
            lang = {"OC+": "OC", "C-Header": "C"}.get(lang, "C")
        for k in range(3 if quick else int(os.environ.get('C06_MUT', '8'))):
            m = mutate(ctx.rng, data) if k else data.rstrip(b"\r\n")        # k = 0: the file itself without its final line break
            r_ = ctx.rng.random()
            if r_ < 0.35:
                cfgt = ""
            elif r_ < 0.5:
                cfgt = ctx.rng.choice(styles)
            elif r_ < 0.7:
                cfgt = cfggen.random_any_config(ctx.rng, unc)
            else:
                cfgt = ctx.rng.choice(fulls)
            # sometimes another language than the file's own
            lg = lang if ctx.rng.random() < 0.85 else ctx.rng.choice(list(LANG_EXT))
            i = len(jobs)
            jobs.append((runner, tmp, i, m, lg, cfgt, ctx.rng.random() < 0.3, use_asan))
            meta[i] = (os.path.relpath(c.inp, os.path.join(corpus.REPO, "tests/input")), m, lg, cfgt)
    # files that end inside every construct, without a newline
    frags = ["int a = ", "void f(", "void f() {", "/* open", "// c \\", "\"open", "'", "#define X", "#define X(a", "#if A", "#if A\n#else", "switch (a) { case 1:",
             "template<typename T", "class A : public", "a ? b :", "do {} while", "for (;;", "@interface A", "[obj msg:", "enum E { A,", "x = {1, 2", "R\"(",
             "namespace n {", "try {", "#pragma asm", "auto x = foo([]() { return 1; });", "f([&](int a) { g(a); }, 2);",
             "std::sort(v.begin(), v.end(), [](int a, int b) { return a < b; });", "x = y ? [] { return 1; }() : 2;", "int a[] = { 1, 2, 3 };", "foo(a, b,",
             "class A { int f() { return 1; } };", "if (a) b; else c;", "return (a);", "do x++; while (a);", "#define M(a) do { a; } while (0)", "using T = int;", "/* *INDENT-OFF* */\nx", "operator", "void g()", "if (a)\n", "else", "} else {", "#endif", "\\", "#", "@", "$"]
    frags += ["int a; /*x", "int a; /*", "int a; /**/", "int a; //", "int a; /* x *", "f(); /*x*/", "#define A /*x", "x = 1; // c\\"]
    cmt_all = "".join("%s=true\n" % o["name"] for o in cfggen.registry(unc) if o["name"].startswith("cmt_") and o["kind"] == "bool")
    for fr in frags:
        for lg in LANG_EXT:
            for cfgt in ["", "cmt_width=1\ncode_width=1\n", "nl_max=1\nmod_full_brace_if=add\nmod_pawn_semicolon=true\n", cmt_all] + (fulls if lg in ("C", "CPP") else fulls[:3]):
                i = len(jobs)
                jobs.append((runner, tmp, i, fr.encode(), lg, cfgt, False, use_asan))
                meta[i] = ("frag", fr.encode(), lg, cfgt)
    # the file ends after every proper prefix of every token class of the language's lexer (vlib/zoo.py), and a complete
    # construct is followed by every proper prefix of another one; each under the empty configuration or (seeded) one of
    # the all-options-random configurations / all comment options on
    zcfgs = [""] * 3 + [cmt_all] + fulls
    zoo_all = []
    for lg in LANG_EXT:
        for label, text in zoo.zoo_prefixes(lg):
            zoo_all.append((label, text, lg))
    for label, text in zoo.pair_fragments():
        zoo_all.append((label, text, "CPP" if ("template" in text or "class " in text or "namespace" in text or "auto " in text or "using " in text or "try " in text)
                        else ("OC" if ("@interface" in text or "[o m" in text) else ctx.rng.choice(("C", "CPP")))))
    if quick:
        ctx.rng.shuffle(zoo_all)
        zoo_all = zoo_all[:5000]
    for label, text, lg in zoo_all:
        for cfgt in ([ctx.rng.choice(zcfgs)] if quick else ["", cmt_all, ctx.rng.choice(fulls)]):
            i = len(jobs)
            jobs.append((runner, tmp, i, text.encode(), lg, cfgt, False, use_asan))
            meta[i] = (label, text.encode(), lg, cfgt)
    ctx.cov["end_inside_token_inputs"] = len(zoo_all)
    # inputs that once broke the property (kept so that the repair is checked on every run): regress/C06
    rdir = os.path.join(os.path.dirname(os.path.dirname(os.path.dirname(os.path.abspath(__file__)))), "regress", "C06")
    if os.path.isdir(rdir):
        for f in sorted(os.listdir(rdir)):
            r_ = json.load(open(os.path.join(rdir, f)))
            i = len(jobs)
            jobs.append((runner, tmp, i, r_["src_bytes"].encode("latin-1"), r_["lang"], r_["cfg_text"], bool(r_.get("quiet")), use_asan))
            meta[i] = ("regress/" + f, r_["src_bytes"].encode("latin-1"), r_["lang"], r_["cfg_text"])
    # capacity probes: every bracket kind nested deeper than any fixed-size table (1024 in check_template, frame stacks), closed and open
    for opener, closer in (("T<a", ">"), ("(", ")"), ("[", "]"), ("{", "}"), ("f(", ")"), ("if (a) ", ""), ("a ? b : ", ""), ("!", ""), ("*", ""), ("#if A\n", "#endif\n")):
        for depth in ((1100,) if quick else (300, 1100, 2500)):
            for closed in (True, False):
                text = "x = " * (opener in ("(", "[", "!", "*", "a ? b : ")) + opener * depth + "q" + (closer * depth if closed else "") + ";\n"
                for lg in (("CPP", "C") if quick else ("CPP", "C", "CS", "JAVA", "D", "OC")):
                    i = len(jobs)
                    jobs.append((runner, tmp, i, text.encode(), lg, "", False, use_asan))
                    meta[i] = ("deep %r x %d" % (opener, depth), text.encode(), lg, "")
    # blocks of sortable lines longer than any small-size special case of the sort (16 in libstdc++), with repeats: identical lines, a
    # descending run framed by its greatest element, random repeats - under the sorters alone and under the all-options configurations
    sorters = "mod_sort_include=true\nmod_sort_import=true\nmod_sort_using=true\n"
    for n_ in ((17, 40) if quick else (16, 17, 18, 20, 33, 40, 100)):
        shapes = {"same": ["k"] * n_, "desc": ["z"] + [chr(ord("y") - (k % 24)) + str(k // 24) for k in range(n_ - 2)] + ["z"],
                  "rand": [ctx.rng.choice("abcdef") for _ in range(n_)]}
        for shape, names in shapes.items():
            for lg, fmt in (("C", '#include "%s.h"'), ("CPP", "#include <%s>"), ("JAVA", "import p.%s;"), ("CS", "using N.%s;"), ("OC", '#import "%s.h"')):
                text = "\n".join(fmt % x for x in names) + "\nint after;\n" if lg in ("C", "CPP", "OC") else "\n".join(fmt % x for x in names) + "\nclass K { }\n"
                for cfgt in [sorters, sorters + "mod_sort_incl_import_grouping_enabled=true\n", sorters + "mod_sort_case_sensitive=true\nmod_sort_incl_import_prioritize_filename=true\n"] + fulls[:(2 if quick else 10)]:
                    i = len(jobs)
                    jobs.append((runner, tmp, i, text.encode(), lg, cfgt, False, use_asan))
                    meta[i] = ("sortblock %s x %d" % (shape, n_), text.encode(), lg, cfgt)
    # the same depth with declarations inside, under configurations that switch the per-level tables on (align_*, indent_*)
    body = "void f(\n    int a,\n       int bb);\nint x = 1;\nint *p = (int *)q;\nx = a + // c\n    b;\n"
    for opener, closer in (("namespace a {\n", "}\n"), ("{\n", "}\n"), ("if (a) {\n", "}\n"), ("struct s {\n", "};\n"), ("class c { public:\n", "};\n"), ("switch (a) { case 1: {\n", "}}\n")):
        for depth in ((20, 70) if quick else (17, 20, 70, 300)):
            text = ("void g() {\n" if opener[0] in "{is" and not opener.startswith("struct") else "") + opener * depth + body + closer * depth + ("}\n" if opener[0] in "{is" and not opener.startswith("struct") else "")
            align_all = "".join("%s=%s\n" % (o["name"], "true" if o["kind"] == "bool" else "2") for o in cfggen.registry(unc)
                                if o["name"].startswith("align_") and o["kind"] in ("bool", "unum") and "thresh" not in o["name"])
            for cfgt in [align_all] + fulls[:(3 if quick else 12)]:
                for lg in ("CPP", "C") if opener.startswith(("{", "if", "switch")) else ("CPP",):
                    i = len(jobs)
                    jobs.append((runner, tmp, i, text.encode(), lg, cfgt, False, use_asan))
                    meta[i] = ("deepbody %r x %d" % (opener, depth), text.encode(), lg, cfgt)
    # well-formed programs under width / comment pressure (loop termination)
    for lang in hazard.DENSE:
        for cw in ((1, 20) if quick else (1, 5, 20, 40)):
            for extra in (("", "indent_columns=16\n") if quick else ("", "cmt_width=%d\n" % cw, "ls_func_split_full=true\nls_for_split_full=true\n", "indent_columns=16\n")):
                i = len(jobs)
                jobs.append((runner, tmp, i, hazard.DENSE[lang].encode(), lang, "code_width=%d\n%s" % (cw, extra), False, use_asan))
                meta[i] = ("dense_" + lang, hazard.DENSE[lang].encode(), lang, "code_width=%d\n%s" % (cw, extra))
    order = list(range(len(jobs)))
    ctx.rng.shuffle(order)            # slow (hanging) inputs are spread over the workers
    shuffled = pmap_proc(_job, [jobs[k] for k in order], nproc=14)
    res = [None] * len(jobs)
    for k, r_ in zip(order, shuffled):
        res[k] = r_
    evs = [e for e, info in res]
    ctx.cov["evaluations"] = len(evs)
    ctx.cov["refused"] = sum(1 for e in evs if e["rc"] > 0)
    ctx.cov["formatted"] = sum(1 for e in evs if e["rc"] == 0 and not e["timedout"])
    ctx.cov["sanitizer_build"] = use_asan
    ctx.cov["timed_out"] = sum(1 for e in evs if e["timedout"])
    slow = sorted(((info["wall"], k) for k, (e, info) in enumerate(res) if not e["timedout"]), reverse=True)[:3]
    ctx.cov["slowest_terminating_runs_s"] = [round(w, 2) for w, k in slow]
    ctx.cov["slowest_terminating_inputs"] = [meta[k][0] for w, k in slow]
    ctx.cov["timeout_s"] = TIMEOUT * (3 if use_asan else 1)
    ctx.cov["runs_that_needed_the_long_budget"] = sum(1 for e, info in res if info.get("slow"))
    ctx.cov["spin_places"] = sorted({info["last_pass"] for e, info in res if e["timedout"]})
    tp = os.path.join(ctx.work.path, "c06.ndjson")
    write_ndjson(tp, evs)
    rt = tlc_retry("ProcessTrace", "ProcessTrace", env={"TRACE": tp}, workers=1, timeout=1800)
    if rt.error:
        ctx.error("ProcessTrace: " + rt.error)
    else:
        if rt.violation and rt.violation[0] == "postcondition":
            ctx.error("ProcessTrace: trace not consumed to the end")
        ctx.cov["traces_validated_against_impl"] = len(evs)
        for rep in rt.emitted:
            i = int(rep["id"].split("|")[1])
            e, info = res[i]
            origin, data, lg, cfgt = meta[i]
            for b in rep["bad"]:
                if b == "Terminates" and info["last_pass"] in ("width-loop", "newline-loop"):
                    # a convergence loop that does not converge: one class (the recorded finding)
                    sig = "Terminates|spins-in=%s|any" % info["last_pass"]
                elif b == "Terminates":
                    # a pass that does not return: identified by the input
                    sig = "Terminates|spins-in=%s|%s|%s|%s" % (info["last_pass"], lg, origin, hashlib.sha1(data + cfgt.encode()).hexdigest()[:10])
                else:
                    sig = "%s|%s|%s|%s" % (b, lg, origin, hashlib.sha1(data + cfgt.encode()).hexdigest()[:10])
                ctx.violation(sig, "%s violated: %s input derived from %s (%d bytes): rc=%d timedout=%s stdout=%d stderr=%d%s" % (
                    b, lg, origin, len(data), e["rc"], e["timedout"], e["outlen"], e["errlen"], (" spinning in " + info["last_pass"]) if e["timedout"] else ""),
                    {"kind": "c06", "lang": lg, "cfg_text": cfgt, "quiet": e["quiet"], "src_bytes": data.decode("latin-1")})
    ctx.cov["distinct_nontrivial"] = len({hashlib.sha1(meta[i][1]).hexdigest() for i in meta if len(meta[i][1]) > 20})
    ctx.cov["rule"] = ("Process.tla: protocol invariants and termination under the progress assumption model-checked, the variant without it "
                       "livelocks; inputs: seeded truncations (mid-line and line boundary), bracket / quote deletions and duplications, inserted "
                       "openers, chunk swaps and byte noise of corpus files of all nine languages (sometimes under another language), 36 fragments "
                       "ending inside a construct x 9 languages x 3 configurations, dense programs under width pressure; configurations: default, "
                       "shipped styles, seeded in-range draws over all options; every run is judged by ProcessTrace (time limit %d s); distinct = "
                       "distinct input byte strings longer than 20 bytes" % TIMEOUT)
    if evs:
        ctx.sample({"run": {k: evs[0][k] for k in ("rc", "timedout", "outlen", "errlen", "quiet", "lang")}})
    ctx.assumptions += ["memory safety is observed only through the sanitizer build in the thorough tier",
                        "a run longer than %d s counts as non-termination" % TIMEOUT]


def replay(path):
    import tempfile
    r = json.load(open(path))
    if r.get("kind") == "model":
        print(r.get("tlc_tail", ""))
        return 1
    unc = build("plain")
    d = tempfile.mkdtemp(prefix="c06replay")
    try:
        ev, info = _job((unc, d, 0, r["src_bytes"].encode("latin-1"), r["lang"], r["cfg_text"], r["quiet"], False))
        print(ev, info)
        bad = ev["timedout"] or ev["rc"] < 0 or (ev["rc"] > 0 and ev["outlen"] > 0) or (ev["rc"] > 0 and not ev["quiet"] and ev["errlen"] == 0)
        print("VIOLATION reproduced" if bad else "property holds on this case")
        return 1 if bad else 0
    finally:
        shutil.rmtree(d, ignore_errors=True)
