"""C16 - bad configuration lines are diagnosed and have no other effect."""
import json
import os
import re

from ..common import pmap, log, build, Work, sh, REPO
from .. import options as op
from . import options_engine as eng
from . import c15

LEVEL = "model_checking"


def guarded_options():
    t = open(os.path.join(REPO, "src", "too_big_for_nl_max.cpp"), errors="replace").read()
    return sorted(set(re.findall(r"options::(\w+)\(\)\s*>\s*nl_max_local", t)))


def mutate_cfg(rng, base_lines, reg):
    """grammar- and byte-level mutations of configuration text"""
    lines = list(base_lines)
    n = rng.randint(1, 6)
    names = [o["name"] for o in reg]
    for _ in range(n):
        k = rng.randrange(12)
        i = rng.randrange(len(lines)) if lines else 0
        if k == 0 and lines:
            l = lines[i]
            j = rng.randrange(len(l) + 1)
            lines[i] = l[:j] + rng.choice(['"', "'", "`", "\\", "#", "=", ",", "\t", "\x01", "\xff", "\x80", " "]) + l[j:]
        elif k == 1:
            lines.insert(i, "%s = %s" % (rng.choice(names), rng.choice(["99999999999999999999", "-99999999999", "0x", "1e9", "--", "~~x", "-", "~", "!"])))
        elif k == 2:
            lines.insert(i, rng.choice(["using", "using a.b", "using 1.2.3.4.5", "using 99999999999.1", "using .", "using 0.-1", "using 1.2x"]))
        elif k == 3:
            lines.insert(i, rng.choice(["set", "set FOR", "set X y", "type", "macro-open", "file_ext", "file_ext X", "include", "include \"\"",
                                        "include /nonexistent/file.cfg", "set " + "A" * 300 + " b"]))
        elif k == 4:
            lines.insert(i, "%s = %s" % (rng.choice(names), rng.choice(names)))
        elif k == 5:
            lines.insert(i, "%s = -%s" % (rng.choice(names), rng.choice(names)))
        elif k == 6:
            lines.insert(i, rng.choice(names) + " = " + "x" * rng.choice([1000, 5000, 70000]))
        elif k == 7 and lines:
            lines[i] = lines[i][: rng.randrange(len(lines[i]) + 1)]
        elif k == 8 and lines:
            lines[i] = lines[i] * rng.choice([2, 3])
        elif k == 9:
            lines.insert(i, "".join(chr(rng.randrange(1, 256)) for _ in range(rng.randrange(1, 40))))
        elif k == 10:
            lines.insert(i, '%s = "%s' % (rng.choice(names), "\\" * rng.randrange(1, 5)))
        else:
            lines.insert(i, rng.choice(names).upper() + rng.choice(["", " ", "=", " = ", ",,,=  ,"]) + rng.choice(["", "true", "\"", "'a' 'b' c"]))
    return lines


def run(ctx):
    quick = ctx.tier == "quick"
    unc = ctx.unc()
    eng.model_check(ctx, quick)
    reg, tokens, langs = op.registry(unc)
    byname = eng.regmap(reg)
    defaults = {o["name"]: o["def"] for o in reg}
    ctx.cov["options"] = len(reg)
    root = ctx.work.sub("cfgs")
    # ---- (1) every option x every applicable bad kind, interleaved with good lines
    files = []
    for label, pairs in eng.bad_files(reg, ctx.rng, tokens):
        for k in range(0, len(pairs), 80):
            files.append(("%s.%d" % (label, k // 80), pairs[k:k + 80]))

    def do(job):
        i, (label, pairs) = job
        p = os.path.join(root, "%s.cfg" % label)
        text = "\n".join(l for l, b in pairs) + "\n"
        open(p, "w").write(text)
        rc, s1, e1 = op.run_update(unc, p)
        evs = [{"e": "Load"}] + [eng.line_event(l, byname) for l, b in pairs] + [eng.dump_event(reg, s1.decode("latin-1"), e1, p, "bad", i)]
        # every diagnostic names the file, the line and (where the line names an option) the option
        named = True
        errt = e1.decode("latin-1")
        for n, (l, b) in enumerate(pairs, 1):
            if b:
                m = [x for x in errt.split("\n") if "%s:%d" % (p, n) in x]
                if not m:
                    named = False
        return (label, evs, {"rc": rc, "rc2": 0, "stderr": errt[-600:], "stderr2": "", "nlines": len(pairs), "cfg": text[:6000],
                             "badlines": [n for n, (l, b) in enumerate(pairs, 1) if b], "named": named})

    results = pmap(do, list(enumerate(files)), nproc=12)
    # ---- (2) nl_max guard
    sample_src = os.path.join(REPO, "tests/input/c/misc.c")
    guarded = guarded_options()
    ctx.cov["nl_max_guarded_options"] = len(guarded)

    def do_big(job):
        g, m, v, others = job
        p = os.path.join(root, "big-%s-%d-%d-%s.cfg" % (g, m, v, others))
        lines = ["nl_max = %d" % m, "%s = %d" % (g, v)]
        if others != "none" and m > 0:
            # the other guarded options set as well, each within nl_max: the verdict on g must not depend on them
            import random
            r_ = random.Random(hash((g, m, v, others)) & 0xffffff)
            for g2 in guarded:
                o2 = byname.get(g2)
                if g2 == g or not o2 or o2["kind"] not in ("num", "unum"):
                    continue
                v2 = m if others == "allmax" else r_.randint(0, m)
                if o2["bounded"] and not (o2["min"] <= v2 <= o2["max"]):
                    continue
                lines.insert(r_.randint(0, len(lines)), "%s = %d" % (g2, v2))
        open(p, "w").write("\n".join(lines) + "\n")
        rc, out, err = sh(["strace", "-o", p + ".st", "-e", "trace=openat", unc, "-c", p, "-f", sample_src], timeout=60)
        st = open(p + ".st", errors="replace").read() if os.path.exists(p + ".st") else ""
        return {"e": "TooBig", "opt": g, "nlmax": m, "v": v, "rc": rc, "sourceread": ("misc.c" in st), "outlen": len(out)}

    bigjobs = []
    for g in guarded:
        o = byname.get(g)
        if not o or o["kind"] not in ("num", "unum"):
            continue
        for (m, v) in ((2, 3), (2, 2), (0, 3)):
            if o["bounded"] and not (o["min"] <= v <= o["max"]):
                continue
            bigjobs.append((g, m, v, "none"))
            if m > 0:
                bigjobs.append((g, m, v, "allmax"))
                bigjobs.append((g, m, v, "rand"))
    bigs = pmap(do_big, bigjobs, nproc=12)
    # ---- (3) arbitrary text: no crash, no hang
    goods = [l for lab, ls in eng.good_files(reg, ctx.rng, quick) for l in ls]
    nf = 250 if quick else 4000

    def do_fuzz(i):
        import random
        r = random.Random(ctx.seed * 100003 + i)
        base = r.sample(goods, r.randint(1, 8))
        lines = mutate_cfg(r, base, reg)
        p = os.path.join(root, "fz%05d.cfg" % i)
        data = "\n".join(lines).encode("latin-1", "replace") + b"\n"
        open(p, "wb").write(data)
        rc, out, err = sh([unc, "-c", p, "--update-config"], timeout=20)
        ev = {"e": "Fuzz", "id": i, "rc": rc if rc >= 0 else 0, "signal": -rc if (rc < 0 and rc != -999) else 0, "timeout": rc == -999}
        bad = ev["signal"] != 0 or ev["timeout"]
        keep = data.decode("latin-1") if bad else None
        if not bad:
            os.unlink(p)
        return ev, keep, err[-300:].decode("latin-1")

    fuzz = pmap(do_fuzz, list(range(nf)), nproc=14)
    extra = [b for b in bigs] + [f[0] for f in fuzz]
    results.append(("nlmax+fuzz", extra, {"rc": 0, "rc2": 0, "stderr": "", "stderr2": "", "nlines": len(extra), "cfg": ""}))
    reps, events = c15.judge(ctx, reg, tokens, langs, results, None, "c16")
    nbad = sum(len(m.get("badlines", [])) for _, _, m in results)
    ctx.cov["evaluations"] = sum(1 for e in events if e.get("e") == "Line") + len(bigs) + len(fuzz)
    ctx.cov["bad_lines"] = nbad
    ctx.cov["fuzzed_configs"] = len(fuzz)
    ctx.cov["distinct_nontrivial"] = len({"".join(e["c"]) for e in events if e.get("e") == "Line"}) + len(fuzz)
    ctx.cov["rule"] = ("Options.tla (BadLineIsNoOp, DiagnosedOrApplied) is model-checked over the line alphabet; on the binary every option gets "
                       "every applicable bad line kind (below min, above max, wrong type, unknown reference, incompatible reference, unknown option "
                       "name, 14 syntax errors), interleaved with good lines; the model predicts the registry and the diagnosed line numbers and "
                       "--update-config + stderr are compared with it; every nl_max-guarded option is tried above/at nl_max; %d seeded grammar/byte "
                       "mutations of configuration text must end without signal or timeout; distinct = distinct lines + mutated files" % nf)
    for label, evs, meta in results[:1]:
        ctx.sample({"file": label, "lines": meta["cfg"].split("\n")[:8], "bad_line_numbers": meta.get("badlines", [])[:8]})
    ctx.sample({"nl_max_guard": bigs[:3]})
    if reps is None:
        return
    bylabel = {lab: m for lab, _, m in results}
    for rep, label, meta, ev in reps:
        for b in rep["bad"]:
            if b == "CrashOrHang":
                ev0, keep, err = fuzz[rep["cfgid"]]
                first = (keep or "").split("\n")
                # reduce to a single offending line if one line alone reproduces
                culprit = None
                for ln in first:
                    if not ln.strip():
                        continue
                    p = os.path.join(root, "min.cfg")
                    open(p, "wb").write(ln.encode("latin-1", "replace") + b"\n")
                    rc, o2, e2 = sh([unc, "-c", p, "--update-config"], timeout=20)
                    if rc < 0:
                        culprit = ln
                        break
                key = re.sub(r"\d+", "N", (culprit or "multi-line")[:60])
                ctx.violation("CrashOrHang|%s" % key, "configuration text makes uncrustify end by signal %s / timeout %s: %r; stderr: %s" % (
                    ev0["signal"], ev0["timeout"], (culprit or keep or "")[:200], err[-200:]),
                    {"kind": "cfgfuzz", "cfg": keep, "culprit": culprit})
            elif b == "TooBigForNlMax":
                x = [q for q in bigs if q["opt"] == rep["cfgid"]]
                ctx.violation("TooBigForNlMax|%s" % rep["cfgid"], "nl_max guard: %s" % x, {"kind": "toobig", "runs": x})
            else:
                mv, ov = rep.get("modelvals", []), rep.get("obsvals", [])
                key = sorted([x[0] for x in mv] + [x[0] for x in ov])[0] if (mv or ov) else \
                    "diag:%s" % sorted(set(ev.get("diaglines", [])) ^ set(rep.get("modeldiag", [])))[:3]
                ctx.violation("%s|%s|%s" % (b, label.split(".")[0], key),
                              "%s in config '%s': model-only %s observed-only %s; diagnosed lines observed %s, model %s" % (
                                  b, label, mv[:4], ov[:4], ev.get("diaglines", [])[:8], rep.get("modeldiag", [])[:8]),
                              {"kind": "options", "label": label, "cfg": meta["cfg"], "report": rep})
    for lab, _, m in results:
        if m.get("named") is False:
            ctx.violation("DiagNotNamed|%s" % lab.split(".")[0], "a bad line of %s has no diagnostic of the form <file>:<line>" % lab,
                          {"kind": "options", "label": lab, "cfg": m["cfg"]})
    ctx.cov["traces_validated_against_impl"] = len(results)
    ctx.cov["exhaustive"] = True
    ctx.assumptions += ["--set overrides and too_big_for_nl_max's choice of stdout are not part of the statement",
                        "mutated configuration text is judged only for termination without signal (its registry effect is not predicted)"]


replay = c15.replay
