"""C15 - configuration round-trips: a saved config reloads to the same settings."""
import json
import os

from ..common import pmap, log, build, Work, sh, tlc_retry, write_ndjson, REPO
from .. import options as op
from . import options_engine as eng

LEVEL = "model_checking"
SAMPLES = ["tests/input/c/misc.c", "tests/input/cpp/templates.cpp", "tests/input/java/Java8DoubleColon.java"]


def lines_events(text, byname):
    return [eng.line_event(l, byname) for l in text.split("\n")]


def run_files(ctx, unc, reg, files, tag_first, with_doc=False, full_reload=False, fmt_check=False):
    """files: [(label, [lines])].  Returns events + meta for OptionsTrace."""
    root = ctx.work.sub("cfgs-%s-%s" % (tag_first, "doc" if with_doc else "plain"))
    defaults = {o["name"]: o["def"] for o in reg}
    byname = eng.regmap(reg)

    def do(job):
        i, (label, lines) = job
        p = os.path.join(root, "%s.cfg" % label)
        text = "\n".join(lines) + "\n"
        open(p, "w").write(text)
        rc, s1, e1 = op.run_update(unc, p, with_doc)
        p2 = os.path.join(root, "%s.saved.cfg" % label)
        open(p2, "wb").write(s1)
        rc2, s2, e2 = op.run_update(unc, p2, with_doc)
        fmtsame = True
        if fmt_check:
            for s in SAMPLES:
                a = sh([unc, "-c", p, "-q", "-f", os.path.join(REPO, s)], timeout=60)
                b = sh([unc, "-c", p2, "-q", "-f", os.path.join(REPO, s)], timeout=60)
                if (a[0], a[1]) != (b[0], b[1]):
                    fmtsame = False
        s1t = s1.decode("latin-1")
        evs = [{"e": "Load"}] + lines_events(text.rstrip("\n"), byname) + [eng.dump_event(reg, s1t, e1, p, tag_first, i)]
        # reload of what --update-config wrote
        if full_reload:
            rl = s1t.rstrip("\n").split("\n")
        else:
            rl = []
            for l in s1t.rstrip("\n").split("\n"):
                if l.startswith("#") or not l.strip():
                    rl.append("")
                    continue
                v, k, x = op.parse_dump_lines(l)
                if v and defaults.get(v[0][0]) == v[0][1] and not l.rstrip().endswith('\\'):
                    rl.append("")       # "name = <default>": fed as an empty line (keeps line numbers) unless full_reload
                    continue
                rl.append(l)
        d2 = eng.dump_event(reg, s2.decode("latin-1"), e2, p2, "reload", i, savesame=(s1 == s2) and fmtsame and rc == 0 and rc2 == 0)
        evs += [{"e": "Load"}]
        run = 0
        for l in rl:
            if l == "":
                run += 1
                continue
            if run:
                evs.append({"e": "Skip", "n": run})
                run = 0
            evs.append(eng.line_event(l, byname))
        if run:
            evs.append({"e": "Skip", "n": run})
        evs.append(d2)
        return (label, evs, {"rc": rc, "rc2": rc2, "stderr": e1[-400:].decode("latin-1"), "stderr2": e2[-400:].decode("latin-1"),
                             "nlines": len(lines), "cfg": text if len(text) < 4000 else text[:4000]})

    return pmap(do, list(enumerate(files)), nproc=12)


def judge(ctx, reg, tokens, langs, results, pid_props, name):
    import shutil
    from ..common import SPEC
    events = []
    index = []
    for label, evs, meta in results:
        for e in evs:
            events.append(e)
            index.append((label, meta))
    sd = ctx.work.sub("spec-" + name)
    for f in ("OptionsTrace.tla", "OptionsTrace.cfg", "OptionsCore.tla", "OptionsWords.tla"):
        shutil.copy(os.path.join(SPEC, f), os.path.join(sd, f))
    eng.write_reg_module(os.path.join(sd, "OptionsReg.tla"), reg, tokens, langs)
    tp = os.path.join(ctx.work.path, "trace-%s.ndjson" % name)
    write_ndjson(tp, events)
    r = tlc_retry("OptionsTrace", "OptionsTrace", env={"TRACE": tp}, workers=1, timeout=3000, xmx="12g", cwd=sd)
    if r.error:
        ctx.error("OptionsTrace: " + r.error)
        return None, events
    if r.violation and r.violation[0] == "postcondition":
        ctx.error("OptionsTrace: trace not consumed to the end (%s of %d)" % (r.diameter, len(events)))
    ctx.add_tlc(r)
    out = []
    for rep in r.emitted:
        label, meta = index[rep["l"] - 1]
        ev = events[rep["l"] - 1]
        out.append((rep, label, meta, ev))
    return out, events


def run(ctx):
    quick = ctx.tier == "quick"
    unc = ctx.unc()
    eng.model_check(ctx, quick)
    reg, tokens, langs = op.registry(unc)
    ctx.cov["options"] = len(reg)
    files = eng.chunked(eng.good_files(reg, ctx.rng, quick), 80)
    results = run_files(ctx, unc, reg, files, "first", with_doc=False, full_reload=False, fmt_check=False)
    # the with-doc writer, complete reload (every line of the saved file goes through the model), formatting equivalence
    sub = [f for f in files if f[0] in (("enum1.0", "num_mid.0", "str_quote", "directives") if quick else [x[0] for x in files])]
    results += run_files(ctx, unc, reg, sub, "first", with_doc=True, full_reload=True,
                         fmt_check=False)
    results += run_files(ctx, unc, reg, [f for f in files if f[0] in ("enum1.0", "enum2.3", "num_mid.1", "enum3.5")], "first", with_doc=False,
                         full_reload=False, fmt_check=True)
    reps, events = judge(ctx, reg, tokens, langs, results, None, "c15")
    nlines = sum(1 for e in events if e.get("e") == "Line")
    ctx.cov["evaluations"] = nlines
    ctx.cov["config_files"] = len(results)
    ctx.cov["distinct_nontrivial"] = len({"".join(e["c"]) for e in events if e.get("e") == "Line" and e["c"] and e["c"][0] != "#"})
    ctx.cov["rule"] = ("Options.tla is model-checked for all line sequences <=%d over %s; on the binary every one of the %d options is set to "
                       "every enumerated value / min / max / mid, every string option to 8 special-character classes, same-kind references "
                       "and negations, and all directive kinds, in rotating spellings (name=value, name value, upper case, quoted, tabs, "
                       "aliases); each file is saved by --update-config (and -with-doc), reloaded, saved again; every line goes through "
                       "the model's process_option_line() and every dump is compared; distinct = distinct non-comment lines" % (
                           2 if quick else 3, "good/bad/contextual spellings", len(reg)))
    for label, evs, meta in results[:1] + results[-1:]:
        ctx.sample({"file": label, "first_lines": meta["cfg"].split("\n")[:6], "lines": meta["nlines"]})
    if reps is None:
        return
    for rep, label, meta, ev in reps:
        for b in rep["bad"]:
            detail = {"model_only": rep.get("modelvals", [])[:5], "observed_only": rep.get("obsvals", [])[:5]}
            if b in ("RegistryMismatch", "RoundTrip", "SaveIdempotent", "DiagMismatch"):
                # signature: property + the first differing option (or keyword) so that distinct defects stay distinct
                key = ""
                mv, ov = rep.get("modelvals", []), rep.get("obsvals", [])
                if mv or ov:
                    key = sorted([x[0] for x in mv] + [x[0] for x in ov])[0]
                elif set(map(tuple, ev.get("kw", []))) != set(map(tuple, rep.get("modelkw", []))):
                    key = "keywords"
                elif b == "DiagMismatch":
                    key = "diag:%s vs %s" % (sorted(ev.get("diaglines", []))[:3], sorted(rep.get("modeldiag", []))[:3])
                sig = "%s|%s|%s|%s" % (b, label, ev.get("tag"), key)
                ctx.violation(sig, "%s in config '%s' (%s): model-only %s observed-only %s; diag observed %s model %s; stderr: %s" % (
                    b, label, ev.get("tag"), detail["model_only"], detail["observed_only"], ev.get("diaglines", [])[:6],
                    rep.get("modeldiag", [])[:6], meta["stderr"][-200:] if ev.get("tag") != "reload" else meta["stderr2"][-200:]),
                    {"kind": "options", "label": label, "cfg": meta["cfg"], "report": rep})
    ctx.cov["traces_validated_against_impl"] = len(results)
    ctx.cov["exhaustive"] = True
    ctx.assumptions += ["the registry is parsed from src/options.h (kinds, bounds) and from --update-config with an empty config (defaults)",
                        "the reload of a saved file feeds the model only the lines that differ from 'name = default' except in the "
                        "with-doc runs, where every line of the saved file is fed",
                        "nl_max is kept at 0 in the sweep files because too_big_for_nl_max() aborts loading when another option exceeds it"]


def replay(path):
    rp = json.load(open(path))
    unc = build("hooks")
    wk = Work("replay")
    try:
        d = wk.sub("r")
        p = os.path.join(d, "x.cfg")
        open(p, "w").write(rp["cfg"])
        rc, s1, e1 = op.run_update(unc, p)
        p2 = os.path.join(d, "x.saved.cfg")
        open(p2, "wb").write(s1)
        rc2, s2, e2 = op.run_update(unc, p2)
        print("first save rc=%s, stderr:\n%s" % (rc, e1.decode("latin-1")[-800:]))
        print("reload rc=%s, stderr:\n%s" % (rc2, e2.decode("latin-1")[-800:]))
        print("second save identical:", s1 == s2)
        print("what:", rp["what"])
    finally:
        wk.cleanup()
    return 0
