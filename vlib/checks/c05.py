"""C05 - formatting is a fixed point.  FixedPoint.tla (history semantics) + FixedPointTrace.tla."""
import hashlib
import json
import os
import re
import shutil

from .. import obs, corpus, cfggen, hazard
from ..common import pmap_proc, tlc_retry, write_ndjson, sh, ROOT
from .c04 import MODPROG
from .c19 import SPACEY

LEVEL = "exploration"
EXT = {"C": ".c", "CPP": ".cpp"}
PROFILES = os.path.join(ROOT, "profiles")
MACROCMT = """#define LOCKED(x)        \\
    do {                 \\
        /* take the lock before touching      \\
           the shared state          */       \\
        lock();          \\
        x;               \\
        unlock();        \\
    } while (0)
#define TWO(a, b)   /* first */    \\
    (a) + /* second */             \\
    (b)
int   v = 1;   /* trailing    comment */
void f(void)
{
        int   a;     // c1
    int bb;          // c2
      /* block
           comment
       */
    LOCKED(a = bb);
}
"""


# nested parenthesised expressions in which every level starts its own continuation line, typed with an irregular
# indentation (inside a macro body and in plain code): the indent of a level is taken from the column its '(' has
MLPROG = """#define SUM4(a, b, c, d) \\
  ((a) + \\
    ((b) * \\
       ((c) + \\
     (d))))
#define CALL3(x) \\
     f((x), \\
  g((x), \\
         h((x))))
int use(int a, int b, int c, int d)
{
  int r = f(a,
     g(b,
          h(c,
      d)));
  if ((a &&
       (b ||
          (c &&
     d))))
    r = (a +
        (b *
      (c -
            d)));
  int t[] = { 1,
        2,
    3 };
  return SUM4(a, b, c, d) + CALL3(r) +
     t[0];
}
"""


# Qt connect() calls whose SIGNAL( ) / SLOT( ) argument lists run over several lines, the continuation lines starting inside the macro
# with token pairs the Qt option override squeezes, written with wrong indentation (the first run moves them)
QTCONN = """class K { public: void setup(QObject *view); };
void K::setup(QObject *view)
{
    connect(&mapper, SIGNAL(mapped(int,
  QString &)), view, SLOT(onChanged(int,
          QString &)));
    connect(a, SIGNAL(done(const char *,
 int *, bool)), b, SLOT(fin(const char * ,
                         int* , bool)));
        connect(x, SIGNAL(valueChanged(QList<int> &
   , int)),
 y, SLOT(take(QList<int> &
                 , int)));
}
"""


def col1_reference(src, texts):
    """the input has a '//' comment in column 1 directly above an indented comment line, and the only thing the second run
    changed is that such comment lines (at most indent_comment_align_thresh = 3 columns from column 1 after the first run)
    went to column 1"""
    ls = src.split("\n")
    if not any(a.startswith("//") and b.strip().startswith("//") and not b.startswith("//") for a, b in zip(ls, ls[1:])):
        return False
    if len(texts) < 2:
        return False
    l1, l2 = texts[0].split("\n"), texts[1].split("\n")
    if len(l1) != len(l2):
        return False
    moved = 0
    for k, (a, b) in enumerate(zip(l1, l2)):
        if a == b:
            continue
        ind = len(a) - len(a.lstrip(" \t"))
        if not (a.strip().startswith("//") and b == a.strip() and k > 0 and l2[k - 1].startswith("//") and len(a[:ind].expandtabs(8)) <= 3):
            return False
        moved += 1
    return moved > 0


def below_trailing(src, texts, cfg_text):
    """the profile aligns trailing comments (align_right_cmt_span > 0), the input has a '//' comment on a line of its own directly
    below a line that ends in a comment, and the only thing the second run changed is the column of such own-line comments
    (indent_comment() puts the comment under the trailing comment by the columns of the INPUT, align_right_comments() then moves
    the trailing comment: CmtIndent.tla and TrailCmt.tla describe the two steps)"""
    if not re.search(r"(?m)^\s*align_right_cmt_span\s*=?\s*[1-9]", cfg_text):
        return False
    ls = src.split("\n")
    if not any("//" in a and not a.strip().startswith("//") and b.strip().startswith("//") for a, b in zip(ls, ls[1:])) and \
       not any(a.strip().startswith("//") and b.strip().startswith("//") for a, b in zip(ls, ls[1:])):
        return False
    if len(texts) < 2:
        return False
    l1, l2 = texts[0].split("\n"), texts[1].split("\n")
    if len(l1) != len(l2):
        return False
    moved = 0
    for k, (a, b) in enumerate(zip(l1, l2)):
        if a == b:
            continue
        if not (a.strip().startswith("//") and a.strip() == b.strip() and k > 0 and "//" in l2[k - 1]):
            return False
        moved += 1
    return moved > 0


def _job(a):
    unc, tmp, i, jid, data, lang, cfgpath, profile = a
    ext = EXT.get(lang, ".c")
    cur = data
    rcs, outs = [], []
    texts = []
    bound = False
    for k in range(3):
        src = os.path.join(tmp, "h%d_%d%s" % (i, k, ext))
        obs.write(src, cur)
        if k == 0:
            rc, so, se, evs = obs.run(unc, ["-c", cfgpath, "-q", "-l", lang, "-f", src], cwd=tmp, trace=os.path.join(tmp, "h%d.nd" % i), flags=["PASS"], timeout=20)
            iters = sum(1 for e in evs if e.get("e") == "Pass" and e["name"] == "annotations_newlines")
            bound = iters >= 4
        else:
            rc, so, se = sh([unc, "-c", cfgpath, "-q", "-l", lang, "-f", src], cwd=tmp, timeout=20)
            if rc == -999:      # slow or stuck: six times the budget decides
                rc, so, se = sh([unc, "-c", cfgpath, "-q", "-l", lang, "-f", src], cwd=tmp, timeout=120)
        os.unlink(src)
        rcs.append(rc)
        if rc != 0:
            break
        outs.append(hashlib.sha1(so).hexdigest()[:12])
        if "|pass/" in jid:
            texts.append(so.decode("latin-1"))
        if k == 0:
            first = so
        cur = so
    while len(rcs) < 3:
        rcs.append(-1)
    while len(outs) < 3:
        outs.append("")
    chk = -1
    if rcs[0] == 0:
        src = os.path.join(tmp, "h%d_c%s" % (i, ext))
        obs.write(src, first)
        chk, so, se = sh([unc, "-c", cfgpath, "-q", "-l", lang, "--check", src], cwd=tmp, timeout=20)
        os.unlink(src)
    return {"id": jid, "profile": profile, "rc": rcs, "o": outs, "chk": chk, "bound": bound, "texts": texts}


def run(ctx):
    quick = ctx.tier == "quick"
    unc = ctx.unc()
    r = tlc_retry("FixedPoint", "FixedPoint", workers=4, timeout=300)
    ctx.add_tlc(r)
    if r.error:
        ctx.error("FixedPoint: " + r.error)
    elif r.violation:
        ctx.model_violation("FixedPoint", "FixedPoint", r)
    ra = tlc_retry("FixedPoint", "FixedPoint_any", workers=4, timeout=300)
    ctx.cov["variant_rejected"] = {"a formatter that is not idempotent": bool(ra.violation)}
    if not ra.violation:
        ctx.error("vacuity: a non-idempotent formatter satisfies RunIsStable")
    tmp = ctx.work.sub("c05")
    profiles = sorted(os.path.join(PROFILES, f) for f in os.listdir(PROFILES) if f.endswith(".cfg"))
    ctx.cov["profiles"] = [os.path.basename(p) for p in profiles]
    ins = [c for c in corpus.inputs() if (c.lang or corpus.lang_of(c.inp)) in EXT and os.path.getsize(c.inp) < 60000]
    ctx.rng.shuffle(ins)
    jobs = []
    srcs = {}
    for c in ins[:160 if quick else 100000]:
        rel = os.path.relpath(c.inp, os.path.join(corpus.REPO, "tests/input"))
        data = open(c.inp, "rb").read()
        for p in (ctx.rng.sample(profiles, 3) if quick else profiles):
            jid = "profile|%s|%s" % (os.path.basename(p), rel)
            jobs.append((unc, tmp, len(jobs), jid, data, c.lang or corpus.lang_of(c.inp), p, True))
            srcs[jid] = (data, c.lang or corpus.lang_of(c.inp), open(p).read())
    # programs of the other checks: every profile
    gen = [("dense_C", hazard.DENSE["C"], "C"), ("dense_CPP", hazard.DENSE["CPP"], "CPP"), ("modprog_C", MODPROG["C"], "C"),
           ("modprog_CPP", MODPROG["CPP"], "CPP"), ("spacey_C", SPACEY["C"], "C"), ("spacey_CPP", SPACEY["CPP"], "CPP"), ("macrocmt", MACROCMT, "C"), ("mlprog", MLPROG, "C"), ("qtconn", QTCONN, "CPP")]
    # the same programs typed with seeded irregular indentation and trailing blanks (c17.dirty): what the first run has to move
    from .c17 import dirty
    for name, t, lang in list(gen):
        if name.startswith(("dense", "modprog", "mlprog", "qtconn")):
            for v in range(1 if quick else 3):
                gen.append(("%s_dirty%d" % (name, v), dirty(ctx.rng, t), lang))
    # the programs of the pass-level modules (alignment of assignments, trailing comments, comments on their own lines): TLC emits
    # every program over small alphabets; their second-run behaviour is what those modules model
    from ..extras import passprog
    pp = passprog.programs(ctx)
    ctx.rng.shuffle(pp)
    # the same share for every module (their program counts differ by three orders of magnitude)
    bymod = {}
    for name, t in pp:
        bymod.setdefault(re.sub(r"\d+$", "", name), []).append((name, t))
    share = (400 if quick else 6000) // max(1, len(bymod))
    pp = [x for k in sorted(bymod) for x in bymod[k][:share]]
    for name, t in pp:
        for p in (ctx.rng.sample(profiles, 2) if quick else profiles):
            jid = "profile|%s|pass/%s" % (os.path.basename(p), name)
            jobs.append((unc, tmp, len(jobs), jid, t.encode(), "C", p, True))
            srcs[jid] = (t.encode(), "C", open(p).read())
    st = passprog.stable_region(ctx)
    ctx.cov["pass_models_fixed_point_in_the_profiles_region"] = st
    for mod, v in st.items():
        if v != "holds":
            ctx.error("pass model %s: the fixed-point invariant fails in the profiles' region of option values" % mod)
    # the profiles must stay inside that region (otherwise the pass models predict unstable programs for them)
    region = {"align_assign_thresh": lambda v: v == "0", "align_enum_equ_thresh": lambda v: v == "0", "align_right_cmt_gap": lambda v: v in ("0", "1"),
              "align_right_cmt_at_col": lambda v: v == "0", "indent_comment": lambda v: v.lower() == "true", "indent_col1_comment": lambda v: v.lower() == "false",
              "indent_comment_align_thresh": lambda v: v == "3", "align_keep_extra_space": lambda v: v.lower() == "false"}
    outside = []
    for p in profiles:
        for l in open(p, errors="replace"):
            m = re.match(r"\s*(\w+)\s*=?\s*([^\s#]+)", l)
            if m and m.group(1) in region and not region[m.group(1)](m.group(2)):
                outside.append("%s: %s=%s" % (os.path.basename(p), m.group(1), m.group(2)))
    ctx.cov["profiles_outside_the_modelled_stable_region"] = outside
    for name, t, lang in gen:
        for p in profiles:
            jid = "profile|%s|gen/%s" % (os.path.basename(p), name)
            jobs.append((unc, tmp, len(jobs), jid, t.encode(), lang, p, True))
            srcs[jid] = (t.encode(), lang, open(p).read())
    # the weaker claim for every other configuration: the second run accepts the first run's output
    cs = [c for c in corpus.cases() if (c.lang or corpus.lang_of(c.inp)) in EXT]
    ctx.rng.shuffle(cs)
    for c in cs[:150 if quick else 100000]:
        jid = "weak|%s|%s" % (os.path.basename(c.cfg), os.path.relpath(c.inp, os.path.join(corpus.REPO, "tests/input")))
        data = open(c.inp, "rb").read()
        jobs.append((unc, tmp, len(jobs), jid, data, c.lang or corpus.lang_of(c.inp), c.cfg, False))
        srcs[jid] = (data, c.lang or corpus.lang_of(c.inp), open(c.cfg, errors="replace").read())
    for k in range(40 if quick else 600):
        cp = os.path.join(tmp, "w%d.cfg" % k)
        txt = cfggen.random_any_config(ctx.rng, unc)
        obs.write(cp, txt)
        name, t, lang = ctx.rng.choice(gen)
        jid = "weak|rand%d|gen/%s" % (k, name)
        jobs.append((unc, tmp, len(jobs), jid, t.encode(), lang, cp, False))
        srcs[jid] = (t.encode(), lang, txt)
    evs = pmap_proc(_job, jobs, nproc=14)
    ctx.cov["evaluations"] = len(evs)
    ok = [e for e in evs if e["rc"][0] == 0]
    ctx.cov["histories_accepted_by_uncrustify"] = len(ok)
    ctx.cov["first_run_left_newline_loop_by_bound"] = sum(1 for e in ok if e["bound"])
    tp = os.path.join(ctx.work.path, "c05.ndjson")
    write_ndjson(tp, evs)
    rt = tlc_retry("FixedPointTrace", "FixedPointTrace", env={"TRACE": tp}, workers=1, timeout=1800)
    if rt.error:
        ctx.error("FixedPointTrace: " + rt.error)
    else:
        if rt.violation and rt.violation[0] == "postcondition":
            ctx.error("FixedPointTrace: trace not consumed to the end")
        ctx.cov["traces_validated_against_impl"] = len(evs)
        byid = {e["id"]: e for e in evs}
        nb = 0
        for rep in rt.emitted:
            e = byid[rep["id"]]
            data, lang, cfgt = srcs[rep["id"]]
            kind, cfgname, fname = rep["id"].split("|", 2)
            for b in rep["bad"]:
                sig = "%s|%s|%s" % (b, cfgname, fname)
                if fname.startswith("pass/cmtindent") and col1_reference(data.decode("latin-1"), e.get("texts") or []):
                    # one recorded mechanism for the whole family (CmtIndent.tla: Stable fails when the block's column is within the
                    # threshold of column 1): identified by what the input holds AND by what exactly the second run moved
                    sig = "%s|%s|comment-below-a-column-1-comment-goes-to-column-1-on-the-second-run" % (b, cfgname)
                elif fname.startswith("pass/") and below_trailing(data.decode("latin-1"), e.get("texts") or [], cfgt):
                    sig = "%s|%s|comment-below-a-comment-moves-again-under-align_right_cmt_span" % (b, cfgname)
                if rep.get("bound"):
                    nb += 1
                ctx.violation(sig, "%s violated for %s under %s: outputs %s, statuses %s, --check %d%s%s" % (
                    b, fname, cfgname, e["o"], e["rc"], e["chk"], " (first run left the newline loop by the bound)" if e["bound"] else "",
                    "" if rep.get("settles") else " (still moving at the third run)"),
                    {"kind": "c05", "lang": lang, "cfg_text": cfgt, "src_name": os.path.basename(fname), "src_bytes": data.decode("latin-1")})
        ctx.cov["unstable_predicted_by_bound_exit"] = nb
    ctx.cov["distinct_nontrivial"] = len({e["id"] for e in ok if e["profile"]}) + len({e["id"] for e in ok if not e["profile"]})
    ctx.cov["rule"] = ("FixedPoint.tla: every idempotent formatter over 3 contents x histories <= 4 steps model-checked, the non-idempotent family "
                       "yields the failing histories; observed histories Run; Run; Run + --check: C/C++ corpus inputs and the generated programs "
                       "of the other checks x the %d profiles kept under /verif/profiles (fixed point claimed), corpus (input, config) pairs and "
                       "seeded configurations (second run must accept the first run's output); distinct = accepted (input, configuration) pairs" % len(profiles))
    if ok:
        ctx.sample({"history": ok[0]})
    ctx.assumptions += ["the fixed point is claimed for the built-in defaults and the profiles in /verif/profiles (shipped styles whose known unstable pairs are few enough to list)",
                        "each pair already unstable on the pinned tree is listed in known_findings.json by input file"]


def replay(path):
    from ..common import build
    import tempfile
    r = json.load(open(path))
    if r.get("kind") == "model":
        print(r.get("tlc_tail", ""))
        return 1
    unc = build("hooks")
    d = tempfile.mkdtemp(prefix="c05replay")
    try:
        cfg = os.path.join(d, "r.cfg")
        obs.write(cfg, r["cfg_text"])
        ev = _job((unc, d, 0, "replay", r["src_bytes"].encode("latin-1"), r["lang"], cfg, True))
        print(ev)
        bad = ev["rc"][0] == 0 and (ev["rc"][1] != 0 or ev["o"][0] != ev["o"][1] or ev["chk"] != 0)
        print("VIOLATION reproduced" if bad else "property holds on this case")
        return 1 if bad else 0
    finally:
        shutil.rmtree(d, ignore_errors=True)
