"""C13 - in-place rewriting is all-or-nothing (fault_enumeration by model checking + replay)."""
import json
import os
import shutil

from ..common import tlc_retry, pmap, log, sh
from .. import inplace as ip
from . import inplace_engine as eng

LEVEL = "fault_enumeration"
TRACE_FIELDS = ("e", "c", "k", "m", "inj", "exit", "F", "T", "B", "M", "hid")


def scenarios(ctx, hists, quick):
    """Scenario = history whose last event is the run that receives the injections.  From the
    TLC-generated histories keep one per (prior-state class, mode, input kind, config relation)."""
    seen = {}
    for h in hists:
        last = h[-1]
        pre = h[:-1]
        nruns = sum(1 for e in pre if e["e"] == "Run")
        prior = "fresh" if nruns == 0 else ("edited" if pre[-1]["e"] == "User" else "own")
        cur = pre[-1]["c"] if pre[-1]["e"] in ("User", "Reset") else pre[-1]["F"]
        kind = "X" if cur == "X" else ("fmt" if last["F"] == cur else "unf")
        samecfg = (nruns > 0 and [e for e in pre if e["e"] == "Run"][-1]["k"] == last["k"])
        key = (prior, last["m"], kind, samecfg if prior == "own" else None)
        if key not in seen or len(h) < len(seen[key]):
            seen[key] = h
    return seen


def run(ctx):
    quick = ctx.tier == "quick"
    unc = ctx.unc()
    # ---- M-check: every interleaving of steps, kills and <=2 faults on the model
    r = tlc_retry("InPlace", "InPlace_C13", workers=8, timeout=900, coverage=False)
    ctx.add_tlc(r)
    if r.violation:
        ctx.model_violation("InPlace", "InPlace_C13", r)
    if r.error:
        ctx.error("InPlace_C13: " + r.error)
    # ---- M-gen: injection-free histories with predicted states
    hists = eng.gen_histories(ctx, ["replace", "nobackup"], ["U1", "A2", "X"], 3)
    scen = scenarios(ctx, hists, quick)
    ctx.cov["scenarios"] = len(scen)
    worlds = [ip.World(unc, ctx.work.sub("world_small"), large=False)]
    # "large": the output spans several stdio buffers, so that a write error in the middle of the
    # file (not only at fclose) exists as a fault point
    worlds.append(ip.World(unc, ctx.work.sub("world_large"), large=True))
    jobs = []
    for wi, w in enumerate(worlds):
        for key, h in sorted(scen.items(), key=lambda kv: str(kv[0])):
            if quick and wi == 1 and not (key[0] == "fresh" and key[2] == "unf"):
                continue
            jobs.append((wi, w, key, h, None))
            if key[1] == "replace" and (not quick or key[0] == "fresh"):
                jobs.append((wi, w, key, h, "fo"))     # -f F -o F takes the same path as --replace
            # the same request spelled differently ('./F', './/F', a -F list): the route is chosen by comparing names
            if wi == 0 and (not quick or (key[0] == "fresh" and key[2] in ("unf", "X"))):
                for alt in (("replace_dot", "replace_dd", "replace_F", "replace_Fdd", "replace_trk", "fo_trk", "replace_ic_trk", "replace_p") if key[1] == "replace"
                            else ("nobackup_dd", "nobackup_F", "nobackup_trk", "nobackup_p")):
                    jobs.append((wi, w, key, h, alt))
    traces = []

    def do(job):
        wi, w, key, h, alt = job
        d = ctx.work.sub()
        base = os.path.join(d, "state")
        os.makedirs(base)
        pre = eng.exec_prefix(w, base, h[:-1])
        last = h[-1]
        rm = alt or last["m"]
        vs, nrel, lines = eng.variants_for_run(w, base, d, last["k"], last["m"], rm, pairs=not quick,
                                               rng=ctx.rng, cap=40)
        out = []
        # the injection-free run itself
        d1 = os.path.join(d, "plain")
        ip.copy_dir(base, d1)
        ex, rc, sysl, err = ip.traced_run(w, d1, last["k"], rm)
        o = {"e": "Run", "k": last["k"], "m": last["m"], "inj": "none", "exit": ex, "label": "none", "rm": rm,
             "sig": "none", "inject": [], "rc": rc}
        o.update(ip.snapshot(w, d1))
        out.append(pre + [o])
        for o, dd in vs:
            out.append(pre + [o])
        # short writes: a file size limit (SIGXFSZ ignored) cuts every write that crosses it - the kernel writes the
        # part below the limit and fails the next attempt with EFBIG.  Limits around the sizes of the files of the run.
        fsz = os.path.getsize(ip.paths(base)["F"]) if os.path.exists(ip.paths(base)["F"]) else 0
        osz = os.path.getsize(ip.paths(d1)["F"]) if os.path.exists(ip.paths(d1)["F"]) else 0
        lims = sorted({1, 16, 40, 4096, 8192, fsz // 2, fsz - 1, osz // 2, osz - 1, osz + 1, (osz + fsz) // 2} - {0, -1})
        if quick and wi == 0:
            lims = [x for x in lims if x in (1, 16, fsz - 1)]
        if os.environ.get("C13_DEBUG"):
            log("fsize %s wi=%d alt=%s fsz=%d osz=%d lims=%s" % (key, wi, alt, fsz, osz, lims))
        for lim in lims:
            dl = os.path.join(d, "fsize%d" % lim)
            ip.copy_dir(base, dl)
            ex, rc, sysl, err = ip.traced_run(w, dl, last["k"], rm, fsize=lim)
            hit = [e for e in sysl if "EFBIG" in e["line"]]
            if not hit or not all(ip.relevant(e) for e in hit):
                continue            # no write was cut, or a write to a file outside the protocol (the debug files of --tracking / -p): as for the errno injections
            o = {"e": "Run", "k": last["k"], "m": last["m"], "inj": "fault", "exit": ex, "label": "fsize=%d" % lim, "rm": rm,
                 "sig": "fault:write:fsize:%s" % eng.cls(hit[0]), "inject": [], "fsize": lim, "rc": rc}
            o.update(ip.snapshot(w, dl))
            out.append(pre + [o])
        shutil.rmtree(d, ignore_errors=True)
        return (job, out, nrel, lines)

    results = pmap(do, jobs, nproc=12)
    events = []
    meta = []
    hid = 0
    npoints = 0
    for job, out, nrel, lines in results:
        wi, w, key, h, alt = job
        for tr in out:
            hid += 1
            for e in tr:
                e2 = {k: e[k] for k in TRACE_FIELDS if k in e}
                e2["hid"] = hid
                events.append(e2)
                meta.append((job, e, tr))
            npoints += 1
        ctx.sample({"scenario": str(key), "alt": alt, "world": "large" if wi else "small",
                    "history": [{k: v for k, v in e.items() if k in ("e", "c", "k", "m")} for e in h],
                    "file_syscalls_of_last_run": lines[:60], "injections": len(out) - 1}, cap=3)
    ctx.cov["evaluations"] = npoints
    ctx.cov["rule"] = ("TLC enumerates injection-free histories (<=3 steps) of InPlace; one scenario per (prior state, mode, "
                       "input kind, same/other config); for the last run of each scenario: kill before EVERY file-related "
                       "syscall of the baseline strace log, errno on every open/write/close/rename/mkdir (pairs in thorough), file size limits that cut the writes short; "
                       "distinct = distinct (scenario, injection label); non-trivial = an injection was applied")
    ctx.cov["distinct_nontrivial"] = len({(str(m[0][2]), m[0][4], m[0][0], m[1].get("label")) for m in meta
                                          if m[1].get("label") not in (None, "none")})
    r = eng.validate(ctx, events, "InPlaceTrace_C13")
    if r is None:
        return
    ctx.add_tlc(r)
    ndrift = 0
    for rep in r.emitted:
        l = rep["l"]
        job, e, tr = meta[l - 1]
        wi, w, key, h, alt = job
        if rep.get("drift"):
            ndrift += 1
            ctx.drift.append({"l": l, "event": {k: e.get(k) for k in ("k", "m", "inj", "exit", "F", "T", "B", "M", "label")}})
        for bad in rep["bad"]:
            if bad in ("BackupIsOrigin", "Md5DescribesOutput", "NeverBackupOwn"):
                continue            # decided under C14
            sig = "%s|%s|%s" % (bad, e.get("rm", e.get("m")), e.get("sig"))
            if bad == "SilentMd5Fault":
                sig = bad
            if rep.get("tainted") and bad == "BackupWhenGone":
                sig += "|tainted"
            what = "%s: mode=%s injection=%s -> exit=%s F=%s T=%s B=%s M=%s (scenario %s)" % (
                bad, e.get("rm"), e.get("label"), e["exit"], e["F"], e["T"], e["B"], e["M"], key)
            ctx.violation(sig, what, {"kind": "inplace", "world_large": bool(wi), "history": tr,
                                      "note": "replay: bin/check C13 --replay <this file>"})
    ctx.cov["traces_validated_against_impl"] = npoints - ndrift
    ctx.cov["trace_events"] = len(events)
    ctx.cov["drift_runs"] = ndrift
    ctx.cov["exhaustive"] = True
    ctx.assumptions += [
        "a crash is a process kill (SIGKILL on syscall entry via strace inject); power loss / unsynced data are out of scope",
        "faults are errno injections on open/write/close/rename/mkdir, and short writes produced by the kernel itself under a file size limit (RLIMIT_FSIZE around the sizes of the files of the run, SIGXFSZ ignored: the part below the limit is written, the next write fails with EFBIG); a short write that is followed by a successful retry is not explored",
        "close() failing on a descriptor that was only read from is treated as benign",
        "contents are classified against reference bytes (original, formatted by an independent run to stdout); anything else is 'part'",
    ]


def replay(path):
    rp = json.load(open(path))
    from ..common import build, Work
    unc = build("hooks")
    wk = Work("replay")
    try:
        w = ip.World(unc, wk.sub("world"), large=rp.get("world_large", False))
        d = wk.sub("run")
        print("replaying history on", unc)
        for e in rp["history"]:
            if e["e"] == "Reset":
                ip.user_write(w, d, e["c"]); print("user writes", e["c"])
            elif e["e"] == "User":
                ip.user_write(w, d, e["c"]); print("user writes", e["c"])
            else:
                ex, rc, sysl, err = ip.traced_run(w, d, e["k"], e.get("rm", e["m"]), inject=e.get("inject") or [], fsize=e.get("fsize"))
                snap = ip.snapshot(w, d)
                print("run cfg=%s mode=%s inject=%s fsize=%s -> exit=%s rc=%s observed=%s recorded=%s" % (
                    e["k"], e.get("rm", e["m"]), e.get("inject"), e.get("fsize"), ex, rc, snap, {k: e[k] for k in "FTBM"}))
        print("expected:", rp["what"])
    finally:
        wk.cleanup()
    return 0
