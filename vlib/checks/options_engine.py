"""Engine for C15/C16: M-check Options.tla, render configuration files over the real registry,
run --update-config, reload, and have OptionsTrace.tla judge every dump."""
import json
import os
import re

from ..common import tlc_retry, pmap, write_ndjson, log
from .. import options as op

NL_GUARDED_SKIP = {"nl_max"}      # too_big_for_nl_max() exits while loading when nl_max > 0 and another option is bigger


def model_check(ctx, quick):
    r = tlc_retry("Options", "Options" if quick else "Options_T", workers=12, timeout=1800, xmx="8g")
    ctx.add_tlc(r)
    if r.violation:
        ctx.model_violation("Options", "Options", r)
    if r.error:
        ctx.error("Options: " + r.error)
    for cfg in ("Options_asbuilt1", "Options_asbuilt2"):
        r2 = tlc_retry("Options", cfg, workers=4, timeout=600)
        ctx.cov.setdefault("asbuilt_variants_rejected", []).append([cfg, bool(r2.violation)])
        if not r2.violation:
            ctx.error("vacuity: %s satisfies RoundTrip" % cfg)


FORMS = ["eq", "space", "upper", "quoted", "eqsp", "tab"]


def spell(name, value, form):
    if form == "eq":
        return "%s=%s" % (name, value)
    if form == "space":
        return "%s %s" % (name, value)
    if form == "upper":
        return "%s = %s" % (name.upper(), value.upper() if not value.lstrip("-").isdigit() else value)
    if form == "quoted":
        return "%s = %s" % (name, op.quote(value))
    if form == "tab":
        return "%s\t=\t%s   # trailing comment" % (name, value)
    return "%s = %s" % (name, value)


def num_value(o, cls):
    if o["bounded"]:
        lo, hi = o["min"], o["max"]
    else:
        lo, hi = -7, 1234
    return {"min": lo, "max": hi, "mid": (lo + hi) // 2, "below": lo - 1, "above": hi + 1}[cls]


STRING_CLASSES = {"plain": "abc", "space": "a b  c", "quote": 'say "hi"', "backslash": "a\\b\\\\c", "hash": "x #y = z, w",
                  "regex": "^a.*(b|c)$[d]+\\d", "squote": "it's `tick`", "empty": ""}


def good_files(reg, rng, quick):
    """-> [(label, [lines])] configuration files that must load without any diagnostic"""
    files = []
    byname = {o["name"]: o for o in reg}
    for k in range(10):
        lines = []
        for i, o in enumerate(reg):
            vals = op.ENUM_VALUES.get(o["kind"])
            if not vals or k >= len(vals):
                continue
            v = vals[k]
            form = FORMS[(i + k) % len(FORMS)]
            al = op.ALIASES.get(o["kind"], {}).get(v)
            if al and (i + k) % 3 == 0:
                v = al[(i // 3) % len(al)]
            lines.append(spell(o["name"], v, form))
        files.append(("enum%d" % k, lines))
    for cls in ("min", "max", "mid"):
        lines = []
        for i, o in enumerate(reg):
            if o["kind"] in ("num", "unum") and o["name"] not in NL_GUARDED_SKIP:
                v = str(num_value(o, cls))
                form = FORMS[i % len(FORMS)]
                if form == "upper":
                    form = "eq"
                lines.append(spell(o["name"], ("+" + v) if (i % 7 == 0 and not v.startswith("-")) else v, form))
        files.append(("num_" + cls, lines))
    files.append(("nl_max", ["nl_max = 3", "nl_max=0", "nl_max 2"]))
    for cls, v in STRING_CLASSES.items():
        lines = []
        for i, o in enumerate(reg):
            if o["kind"] == "string":
                q = ['"', "'", "`"][i % 3]
                if q in v or "\\" in v:
                    lines.append("%s = %s" % (o["name"], op.quote(v)))
                elif cls == "plain" and i % 2:
                    lines.append("%s=%s" % (o["name"], v))
                else:
                    lines.append("%s = %s%s%s" % (o["name"], q, v, q))
        files.append(("str_" + cls, lines))
    # references: b = a where a was set to a non-default value earlier in the same file
    kinds = {}
    for o in reg:
        kinds.setdefault(o["kind"], []).append(o)
    lines = []
    for kind, os_ in kinds.items():
        if kind == "string":
            continue
        pool = [o for o in os_ if o["name"] not in NL_GUARDED_SKIP]
        rng.shuffle(pool)
        for a, b in zip(pool[0::2], pool[1::2]):
            if kind in op.ENUM_VALUES:
                vals = [v for v in op.ENUM_VALUES[kind] if v != a["def"]]
                lines.append("%s = %s" % (a["name"], rng.choice(vals)))
                neg = rng.choice(["", "~", "!", "-"]) if kind == "bool" else ""
                lines.append("%s = %s%s" % (b["name"], neg, a["name"].upper() if rng.random() < 0.3 else a["name"]))
            else:
                # a value of a that is in range for b, also negated when possible
                lo = max(a["min"] if a["bounded"] else -50, b["min"] if b["bounded"] else -50)
                hi = min(a["max"] if a["bounded"] else 50, b["max"] if b["bounded"] else 50)
                if lo > hi:
                    continue
                v = rng.randint(lo, hi)
                lines.append("%s = %d" % (a["name"], v))
                blo = b["min"] if b["bounded"] else -50
                bhi = b["max"] if b["bounded"] else 50
                if blo <= -v <= bhi and rng.random() < 0.5:
                    lines.append("%s = -%s" % (b["name"], a["name"]))
                else:
                    lines.append("%s = %s" % (b["name"], a["name"]))
    files.append(("refs", lines))
    files.append(("directives", [
        "type MYTYPE other_t  third_t", "type uint128", "set FOR foreach  FOR_EACH", "set for each_item", "macro-open BEGIN_X",
        "macro-close END_X", "macro-else ELSE_X", "file_ext CPP .xx .yy", "file_ext c .c99", "file_ext Java .jv", "using 0.78",
        "USING 0.76.1", "set TYPE mytype2", "type retyped", "set WORD retyped", "# a comment", "", "   \t  ",
        "set BOOL and_also, or_else", "type=assigned_t", "file_ext OC+ .mmm",
    ]))
    return files


BAD_KINDS = ["below", "above", "wrongtype", "unknownref", "incompatible", "unknownopt", "syntax", "refbelow", "refabove", "huge"]


def bad_files(reg, rng, tokens):
    """-> [(label, [(line, isbad)])] files in which every second line is bad in one particular way"""
    files = []
    names = [o["name"] for o in reg]
    bykind = {}
    for o in reg:
        bykind.setdefault(o["kind"], []).append(o["name"])

    def good_line(i):
        o = reg[(i * 7) % len(reg)]
        if o["kind"] in op.ENUM_VALUES:
            return "%s = %s" % (o["name"], op.ENUM_VALUES[o["kind"]][(i // 3) % len(op.ENUM_VALUES[o["kind"]])])
        if o["kind"] == "string":
            return "%s = g%d" % (o["name"], i)
        if o["name"] in NL_GUARDED_SKIP:
            return "# skip"
        return "%s = %d" % (o["name"], num_value(o, "mid"))

    for kind in BAD_KINDS:
        lines = []
        for i, o in enumerate(reg):
            bad = None
            if kind in ("below", "above"):
                if o["bounded"]:
                    bad = "%s = %d" % (o["name"], num_value(o, kind))
            elif kind == "huge":
                # a literal that does not fit 32 bits and whose low 32 bits DO lie inside the range (2^32 + k, -(2^32) + k)
                if o["bounded"] and o["kind"] in ("num", "unum"):
                    k_ = max(o["min"], min(o["max"], 3))
                    bad = "%s = %d" % (o["name"], (4294967296 + k_) if (i % 2 == 0 or o["kind"] == "unum" or o["min"] >= 0) else (-4294967296 + min(o["max"], -1) if o["min"] < 0 else 4294967296 + k_))
            elif kind == "wrongtype":
                if o["kind"] in op.ENUM_VALUES:
                    bad = "%s = %s" % (o["name"], ["bogus", "7", "maybe", "forc", "tru e"][i % 5].split()[0] + ("x" if i % 5 == 4 else ""))
                elif o["kind"] != "string":
                    bad = "%s = %s" % (o["name"], ["abc", "3x", "1.5", "0x10", "--2", "1e3"][i % 6])
            elif kind == "unknownref":
                if o["kind"] != "string":
                    bad = "%s = %snot_an_option_%d" % (o["name"], "-" if o["kind"] in ("num", "unum", "bool") and i % 2 else "", i)
            elif kind == "incompatible":
                if o["kind"] != "string":
                    others = [k for k in bykind if k != o["kind"] and not ({k, o["kind"]} <= {"num", "unum"})]
                    ok = others[i % len(others)]
                    bad = "%s = %s" % (o["name"], bykind[ok][i % len(bykind[ok])])
            elif kind == "unknownopt":
                bad = "%s_x = 1" % o["name"] if i % 2 else "no_such_option_%d true" % i
            elif kind == "syntax":
                bad = ["%s = \"unterminated" % o["name"], "%s = \"a\"b" % o["name"], "%s" % o["name"], "%s =" % o["name"],
                       "%s = tail\\" % o["name"], "set FOR", "set NO_SUCH_TOKEN w", "file_ext NOLANG .q", "file_ext CPP",
                       "using 1", "type", "macro-open", "%s = 'open" % o["name"], "using 1.2.3.4"][i % 14]
            elif kind == "refbelow":
                # out of range through a NEGATED reference: the referenced value itself is inside the range
                if o["bounded"] and o["kind"] in ("num", "unum") and o["name"] not in ("indent_columns",) and o["name"] not in NL_GUARDED_SKIP \
                        and o["min"] > -4 and o["max"] >= 4:
                    lines.append(("indent_columns = 4", False))
                    lines.append(("%s = -indent_columns" % o["name"], True))
                continue
            elif kind == "refabove":
                if o["bounded"] and o["kind"] in ("num", "unum") and o["name"] not in ("code_width",) and o["name"] not in NL_GUARDED_SKIP \
                        and o["max"] < 10000 and o["max"] >= 0:
                    lines.append(("code_width = %d" % (o["max"] + 1), False))
                    lines.append(("%s = code_width" % o["name"], True))
                continue
            if bad is None:
                continue
            lines.append((good_line(i), False))
            lines.append((bad, True))
        files.append(("bad_" + kind, lines))
    # 'using MAJOR.MINOR[.PATCH]': the boundary of OptionsCore.tla's IsVersion (two or three parts of 1..4 digits) from both
    # sides - every part position x every length up to 12 x digit fillings, incl. the values around INT_MAX
    lines = []
    fills = lambda n: {"9" * n, "1" + "0" * (n - 1), "0" * n} | ({"2147483647", "2147483648", "4000000000"} if n == 10 else set())
    for nparts in (1, 2, 3, 4):
        for pos in range(nparts):
            for n in range(1, 13):
                for f in sorted(fills(n)):
                    parts = ["0", "78", "1", "2"][:nparts]
                    parts[pos] = f
                    bad = not (nparts in (2, 3) and n <= 4)
                    lines.append((good_line(len(lines)), False))
                    lines.append(("using " + ".".join(parts), bad))
    files.append(("bad_version", lines))
    return files


def tla_str(s):
    return '"' + s.replace("\\", "\\\\").replace('"', '\\"') + '"'


def tla_chars(s):
    return "<<" + ", ".join(tla_str(c) for c in s) + ">>"


def write_reg_module(path, reg, tokens, langs):
    """OptionsReg.tla: token and language names as constant TLA+ definitions"""
    txt = ["---------------------------- MODULE OptionsReg ----------------------------",
           "(* GENERATED for this run by vlib/checks/options_engine.py from the sources *)",
           "EXTENDS TLC, Integers, Sequences",
           "RTokens == {" + ", ".join(tla_str(t) for t in tokens) + "}",
           "LangSeq == <<" + ", ".join("<<%s, %s>>" % (tla_str(l.lower()), tla_str(l)) for l in langs) + ">>",
           "========================================================================="]
    open(path, "w").write("\n".join(txt) + "\n")


_WORD = re.compile(r"[A-Za-z_][A-Za-z_0-9]*")


def line_event(line, byname):
    """Line event with the registry records of every option named on the line (also with backslashes removed)"""
    words = {w.lower() for w in _WORD.findall(line)} | {w.lower() for w in _WORD.findall(line.replace("\\", ""))}
    regs = [byname[w] for w in sorted(words) if w in byname]
    return {"e": "Line", "c": list(line), "reg": regs}


def regmap(reg):
    return {o["name"]: {"name": o["name"], "kind": o["kind"], "bounded": o["bounded"], "min": o["min"], "max": o["max"],
                        "def": list(o["def"])} for o in reg}


def dump_event(reg, text, err, cfgpath, tag, cfgid, savesame=True):
    defaults = {o["name"]: o["def"] for o in reg}
    vals, kw, ext = op.parse_dump_lines(text)
    nd = [[n, list(v)] for n, v in vals if defaults.get(n) != v]
    # the last assignment to a word wins in the binary's map and in the model
    return {"e": "Dump", "tag": tag, "cfgid": cfgid, "vals": nd, "kw": [[t, w] for t, w in kw], "ext": [[l, e] for l, e in ext],
            "diaglines": op.diag_lines(err, cfgpath), "savesame": savesame}


def chunked(files, n=80):
    """split long files so that the model's state (assigned options) stays small: linear validation time"""
    out = []
    for label, lines in files:
        if len(lines) <= n:
            out.append((label, lines))
        else:
            for k in range(0, len(lines), n):
                out.append(("%s.%d" % (label, k // n), lines[k:k + n]))
    return out
