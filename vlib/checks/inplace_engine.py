"""Engine shared by C13 and C14: M-check of InPlace.tla, M-gen of histories, replay on the
real binary with every kill / fault point, M-trace validation by InPlaceTrace.tla."""
import json
import os
import shutil

from ..common import tlc_retry, pmap, write_ndjson, log, SPEC
from .. import inplace as ip


def gen_histories(ctx, modes, conts, maxlen):
    cfg = os.path.join(ctx.work.path, "gen.cfg")
    open(cfg, "w").write("""SPECIFICATION GSpec
CONSTANTS
  MaxSteps = 0
  MaxFaults = 0
  AllowCrash = FALSE
  Modes = {%s}
  UserConts = {%s}
  Md5Order = "after"
  MaxLen = %d
INVARIANT GInv
CONSTRAINT Emit
CHECK_DEADLOCK FALSE
""" % (", ".join('"%s"' % m for m in modes), ", ".join('"%s"' % c for c in conts), maxlen))
    r = tlc_retry("InPlaceGen", cfg, workers=4, timeout=600)
    if r.violation:
        ctx.model_violation("InPlaceGen", "gen", r)
    if r.error:
        ctx.error("InPlaceGen: " + r.error)
    ctx.add_tlc(r)
    return r.emitted


def exec_prefix(w, d, hist):
    """Run the injection-free events of hist in directory d; returns observed trace events."""
    evs = []
    for e in hist:
        if e["e"] == "Reset":
            shutil.rmtree(os.path.join(d, "d"), ignore_errors=True)
            ip.user_write(w, d, e["c"])
            evs.append({"e": "Reset", "c": e["c"]})
        elif e["e"] == "User":
            ip.user_write(w, d, e["c"])
            evs.append({"e": "User", "c": e["c"]})
        else:
            ex, rc = ip.plain_run(w, d, e["k"], e.get("rm", e["m"]))
            o = {"e": "Run", "k": e["k"], "m": e["m"], "inj": "none", "exit": ex, "pred": {x: e.get(x) for x in "FTBM"}}
            o.update(ip.snapshot(w, d))
            evs.append(o)
    return evs


def variants_for_run(w, base_dir, scratch, k, m, rm, mode_kill=True, mode_fault=True, pairs=False, rng=None, cap=None):
    """All (injection, observed event) for one run started from the state in base_dir."""
    d0 = os.path.join(scratch, "base")
    ip.copy_dir(base_dir, d0)
    ex, rc, sys0, err = ip.traced_run(w, d0, k, rm)
    rel = [e for e in sys0 if ip.relevant(e)]
    jobs = []
    if mode_kill:
        for i, e in enumerate(rel):
            jobs.append(("kill", ["%s:signal=KILL:when=%d" % (e["name"], e["when"])], "%s:%s#%d" % (e["name"], cls(e), i), e))
    if mode_fault:
        fl = [(i, e) for i, e in enumerate(rel) if ip.fault_errno(e)]
        for i, e in fl:
            kind = "benign" if ip.benign_fault(e) else ("ro" if ip.ro_open(e) else "fault")
            jobs.append((kind, ["%s:error=%s:when=%d" % (e["name"], ip.fault_errno(e), e["when"])],
                         "%s:%s#%d" % (e["name"], cls(e), i), e))
        if pairs:
            ok = lambda x: not ip.benign_fault(x) and not ip.ro_open(x)
            pl = [(a, b) for a in fl for b in fl if a[0] < b[0] and ok(a[1]) and ok(b[1])]
            if cap and len(pl) > cap:
                pl = rng.sample(pl, cap)
            for (i, e), (j, f) in pl:
                if e["name"] == f["name"]:
                    # same syscall name: two when= values need two inject expressions
                    inj = ["%s:error=%s:when=%d" % (e["name"], ip.fault_errno(e), e["when"]),
                           "%s:error=%s:when=%d" % (f["name"], ip.fault_errno(f), f["when"])]
                else:
                    inj = ["%s:error=%s:when=%d" % (e["name"], ip.fault_errno(e), e["when"]),
                           "%s:error=%s:when=%d" % (f["name"], ip.fault_errno(f), f["when"])]
                jobs.append(("fault", inj, "%s:%s#%d+%s:%s#%d" % (e["name"], cls(e), i, f["name"], cls(f), j), e))
    out = []
    for n, (kind, inj, label, e) in enumerate(jobs):
        d = os.path.join(scratch, "v%d" % n)
        ip.copy_dir(base_dir, d)
        ex, rc, sysl, err = ip.traced_run(w, d, k, rm, inject=inj)
        o = {"e": "Run", "k": k, "m": m, "inj": kind, "exit": ex, "label": label, "rm": rm,
             "sig": "%s:%s:%s" % (kind, e["name"], cls(e)), "inject": inj, "rc": rc}
        o.update(ip.snapshot(w, d))
        out.append((o, d))
    return out, len(rel), [e["line"] for e in rel]


def cls(e):
    p = e.get("path") or ""
    if e["name"] in ("mkdir", "mkdirat"):
        return "DIR"
    b = os.path.basename(p)
    if b.endswith(".uncrustify"):
        return "T"
    if b.endswith(".unc-backup~"):
        return "B"
    if b.endswith(".unc-backup.md5~"):
        return "M"
    return "F"


def validate(ctx, events, cfgname):
    """Run InPlaceTrace on the concatenated events; returns the list of reports."""
    tp = os.path.join(ctx.work.path, "trace-%s-%d.ndjson" % (cfgname, len(events)))
    write_ndjson(tp, events)
    r = tlc_retry("InPlaceTrace", cfgname, env={"TRACE": tp}, workers=1, timeout=1200, xmx="8g")
    if r.error:
        ctx.error("InPlaceTrace: " + r.error)
        return None
    if r.violation and r.violation[0] == "postcondition":
        ctx.error("InPlaceTrace: trace not consumed to the end (diameter %s of %d)" % (r.diameter, len(events)))
    return r
