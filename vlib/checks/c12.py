"""C12 - --check and --if-changed tell the truth and write nothing they should not."""
import json
import os
import shutil

from ..common import pmap, log, build, Work
from .. import driver as drv
from . import driver_engine as eng

LEVEL = "model_checking"
PROPS = {"CheckStatus", "ReportConsistent", "CheckTouchesNothing", "RejectedTouchNothing", "IfChangedIff"}


def run(ctx):
    quick = ctx.tier == "quick"
    unc = ctx.unc()
    eng.model_check(ctx, "Driver_all")
    invs = eng.generate(ctx, "Driver_c12" if quick else "Driver_c12_T")
    root = ctx.work.sub("world")
    cfg, classes = drv.make_class_files(unc, root)

    def do(job):
        n, inv = job
        files = [drv.FileSpec("f%d.c" % (i + 1), classes[c][0], classes[c][1], c, "C") for i, c in enumerate(inv["files"])]
        d = os.path.join(ctx.work.path, "r%06d" % n)
        o = drv.execute(unc, cfg, inv["a"], files, d)
        shutil.rmtree(d, ignore_errors=True)
        return {"a": inv["a"], "files": inv["files"], "o": o, "exp": inv["exp"]}

    events = pmap(do, list(enumerate(invs)), nproc=16)
    # the same protocol on UTF-16 files (output contains 0 bytes; BOM handling): the invocations whose
    # classes exist in that encoding
    cfg16, classes16 = drv.make_class_files(unc, ctx.work.sub("world16"), enc="utf-16")

    def do16(job):
        n, inv = job
        files = [drv.FileSpec("f%d.c" % (i + 1), classes16[c][0], classes16[c][1], c, "C") for i, c in enumerate(inv["files"])]
        d = os.path.join(ctx.work.path, "u%06d" % n)
        o = drv.execute(unc, cfg16, inv["a"], files, d)
        shutil.rmtree(d, ignore_errors=True)
        return {"a": inv["a"], "files": inv["files"], "o": o, "exp": inv["exp"], "enc": "utf-16"}

    inv16 = [iv for iv in invs if all(c in classes16 for c in iv["files"]) and (iv["a"]["ifc"] or not quick) and not iv["a"]["quiet"]]
    events += pmap(do16, list(enumerate(inv16)), nproc=16)
    ctx.cov["utf16_invocations"] = len(inv16)
    # the same protocol under a configuration that inserts a header file whose text lies outside what the output encoding of an
    # ASCII source can hold: the bytes compared / written under --check / --if-changed are the bytes a plain run writes
    cfgh, classesh = drv.make_class_files(unc, ctx.work.sub("worldhdr"), extra_cfg=b"cmt_insert_file_header=aux_hdr8.txt\n",
                                          extra_files={"aux_hdr8.txt": "/* \u00a9 2026 \u2014 all \u20ac rights \u53c2 */\n".encode("utf-8")})

    def doh(job):
        n, inv = job
        files = [drv.FileSpec("f%d.c" % (i + 1), classesh[c][0], classesh[c][1], c, "C") for i, c in enumerate(inv["files"])]
        d = os.path.join(ctx.work.path, "h%06d" % n)
        o = drv.execute(unc, cfgh, inv["a"], files, d)
        shutil.rmtree(d, ignore_errors=True)
        return {"a": inv["a"], "files": inv["files"], "o": o, "exp": inv["exp"], "enc": "hdr"}

    invh = [iv for iv in invs if all(c in classesh for c in iv["files"]) and (iv["a"]["ifc"] or iv["a"]["check"]) and not iv["a"]["quiet"]]
    if quick:
        invh = invh[::2]
    events += pmap(doh, list(enumerate(invh)), nproc=16)
    ctx.cov["inserted_header_invocations"] = len(invh)
    ctx.cov["evaluations"] = len(events)
    ctx.cov["distinct_nontrivial"] = len({json.dumps([e["a"], e["files"]], sort_keys=True) for e in events
                                          if (e["a"]["check"] or e["a"]["ifc"]) and len(e["files"]) >= 1})
    ctx.cov["rule"] = ("TLC (Driver.tla, family c12) enumerates every sensible command line with --check or --if-changed "
                       "(source stdin/-f/positional/-F x in-place x destination x -q, legal and illegal) x every sequence of file "
                       "classes {formatted, unformatted, same size differing in last / first byte, empty, unformattable} up to %d files; "
                       "each is executed on the binary in a fresh directory whose tree (content hash, mtime, size) is snapshotted before "
                       "and after; distinct = distinct (command line, class sequence)" % (2 if quick else 3))
    for e in events[:1] + [e for e in events if e["a"]["ifc"] and len(e["files"]) == 2][:2]:
        ctx.sample({"args": eng.argsig(e["a"]), "files": e["files"], "cmd": e["o"]["cmd"], "observed": {k: e["o"][k] for k in ("exit", "pass", "fail", "touched", "stdout")}})
    r = eng.validate(ctx, events, "c12")
    if r is None:
        return
    ndrift = 0
    for rep in r.emitted:
        e = events[rep["l"] - 1]
        bad = [b for b in rep["bad"] if b in PROPS]
        if rep.get("drift") and not bad:
            ndrift += 1
            ctx.drift.append({"args": eng.argsig(e["a"]), "files": e["files"], "observed": {k: e["o"][k] for k in ("exit", "pass", "fail", "touched", "stdout")}, "expected": rep["exp"]})
        for b in bad:
            sig = "%s|%s|%s%s" % (b, eng.argsig(e["a"]), ",".join(e["files"]), "|" + e["enc"] if e.get("enc") else "")
            ctx.violation(sig, "%s: `%s` on files %s -> exit=%s pass=%s fail=%s touched=%s stdout=%s" % (
                b, " ".join(e["o"]["cmd"]), e["files"], e["o"]["exit"], e["o"]["pass"], e["o"]["fail"], e["o"]["touched"], e["o"]["stdout"]),
                {"kind": "driver", "a": e["a"], "files": e["files"], "observed": e["o"], "expected": rep["exp"], "enc": e.get("enc")})
    ctx.cov["traces_validated_against_impl"] = len(events) - ndrift
    ctx.cov["drift_invocations"] = ndrift
    ctx.cov["exhaustive"] = True
    ctx.assumptions += ["file classes are established from reference bytes (plain run to stdout) of the same binary",
                        "'touched' = created, deleted, content or mtime changed (directory snapshot before/after)"]


def replay(path):
    rp = json.load(open(path))
    unc = build("hooks")
    wk = Work("replay")
    try:
        if rp.get("enc") == "hdr":
            cfg, classes = drv.make_class_files(unc, wk.sub("world"), extra_cfg=b"cmt_insert_file_header=aux_hdr8.txt\n",
                                                extra_files={"aux_hdr8.txt": "/* \u00a9 2026 \u2014 all \u20ac rights \u53c2 */\n".encode("utf-8")})
        else:
            cfg, classes = drv.make_class_files(unc, wk.sub("world"), enc=rp.get("enc"))
        files = [drv.FileSpec("f%d.c" % (i + 1), classes[c][0], classes[c][1], c, "C") for i, c in enumerate(rp["files"])]
        o = drv.execute(unc, cfg, rp["a"], files, wk.sub("run"))
        print("command:", " ".join(o["cmd"]))
        print("observed:", {k: o[k] for k in ("exit", "pass", "fail", "touched", "stdout")})
        print("recorded:", {k: rp["observed"][k] for k in ("exit", "pass", "fail", "touched", "stdout")})
        print("model   :", rp.get("expected"))
        print("what:", rp["what"])
    finally:
        wk.cleanup()
    return 0
