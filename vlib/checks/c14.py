"""C14 - the backup always holds the last text uncrustify did not write itself (model_checking)."""
import json
import os
import shutil

from ..common import tlc_retry, pmap, log
from .. import inplace as ip
from . import inplace_engine as eng
from .c13 import TRACE_FIELDS, replay  # noqa: F401  (same replay format)

LEVEL = "model_checking"


def run(ctx):
    quick = ctx.tier == "quick"
    unc = ctx.unc()
    # ---- M-check: all histories of user writes, runs under two configs, kills and one fault
    r = tlc_retry("InPlace", "InPlace_C14" if quick else "InPlace_C14_T", workers=12, timeout=1500, xmx="12g")
    ctx.add_tlc(r)
    if r.violation:
        ctx.model_violation("InPlace", "InPlace_C14", r)
    if r.error:
        ctx.error("InPlace_C14: " + r.error)
    # the as-built order (md5 of the original, before the rename) must be rejected by the same
    # invariants - shows that they are not vacuous
    r2 = tlc_retry("InPlace", "InPlace_C14_asbuilt", workers=4, timeout=600)
    ctx.cov["asbuilt_variant_rejected"] = bool(r2.violation)
    if not r2.violation:
        ctx.error("vacuity: InPlace_C14_asbuilt satisfies the invariants")
    # ---- M-gen
    hists = eng.gen_histories(ctx, ["replace"], ["U1", "U2", "A2"], 3 if quick else 4)
    maxlen = max(len(h) for h in hists)
    full = [h for h in hists if len(h) == maxlen or True]
    w = ip.World(unc, ctx.work.sub("world"))
    ctx.cov["histories_generated"] = len(full)

    # (1) every injection-free history, observed after every step
    def do_plain(h):
        d = ctx.work.sub()
        tr = eng.exec_prefix(w, d, h)
        shutil.rmtree(d, ignore_errors=True)
        return tr

    # keep maximal histories only (prefixes are covered step by step)
    keys = {json.dumps([{k: e.get(k) for k in ("e", "c", "k", "m")} for e in h]) for h in full}
    def is_prefix_of_other(h):
        return False
    # the same histories with the request spelled differently from run to run ('./F', 'F', './/F', a -F list): the backup and
    # its md5 belong to the FILE, whatever name a run was given
    def respell(h, off):
        sp = ["replace_dot", "replace", "replace_dd", "replace_F"]
        out, k = [], 0
        for e in h:
            if e["e"] == "Run" and e["m"] == "replace":
                out.append(dict(e, rm=sp[(k + off) % 4]))
                k += 1
            else:
                out.append(e)
        return out
    maxi = [h for h in full if len(h) == maxlen]
    spelled = [respell(h, 0) for h in maxi] + [respell(h, 2) for h in (maxi if not quick else maxi[::3])]
    ctx.cov["histories_respelled"] = len(spelled)
    plain = pmap(do_plain, full + spelled, nproc=14)
    # the same histories over contents of several stdio / md5 read buffers (the digest of the file on disk is taken in 4096-byte
    # pieces, the digest of the text in memory in one piece: they have to agree for every length)
    wl = ip.World(unc, ctx.work.sub("world_large"), large=True)

    def do_plain_large(h):
        d = ctx.work.sub()
        tr = [dict(e, wl=True) for e in eng.exec_prefix(wl, d, h)]
        shutil.rmtree(d, ignore_errors=True)
        return tr
    large_h = maxi if not quick else maxi[::2]
    ctx.cov["histories_over_large_contents"] = len(large_h)
    plain += pmap(do_plain_large, large_h, nproc=14)

    # (2) kill at every file-related syscall of one run, followed by the rest of the history
    cand = [h for h in full if sum(1 for e in h if e["e"] == "Run") >= 2 and len(h) == maxlen]
    ctx.rng.shuffle(cand)
    cand = cand[: (14 if quick else 120)]

    def do_kill(h):
        runs = [i for i, e in enumerate(h) if e["e"] == "Run"]
        out = []
        for pos in runs[:-1]:
            d = ctx.work.sub()
            base = os.path.join(d, "state")
            os.makedirs(base)
            pre = eng.exec_prefix(w, base, h[:pos])
            e = h[pos]
            vs, nrel, lines = eng.variants_for_run(w, base, d, e["k"], e["m"], e["m"], mode_fault=False)
            for o, dd in vs:
                rest = eng.exec_prefix(w, dd, h[pos + 1:])
                out.append(pre + [o] + rest)
            shutil.rmtree(d, ignore_errors=True)
        return out

    killed = pmap(do_kill, cand, nproc=12)
    events, meta = [], []
    hid = 0
    nk = 0
    for tr in plain + [t for ts in killed for t in ts]:
        hid += 1
        if any(e.get("inj") == "kill" for e in tr):
            nk += 1
        for e in tr:
            e2 = {k: e[k] for k in TRACE_FIELDS if k in e}
            e2["hid"] = hid
            events.append(e2)
            meta.append((e, tr))
    for tr in plain[:2] + [t for ts in killed for t in ts][:2]:
        ctx.sample([{k: v for k, v in e.items() if k in ("e", "c", "k", "m", "inj", "label", "exit", "F", "T", "B", "M")} for e in tr], cap=4)
    ctx.cov["evaluations"] = hid
    ctx.cov["histories_with_kill"] = nk
    ctx.cov["distinct_nontrivial"] = len({json.dumps([[e.get(k) for k in ("e", "c", "k", "m", "label")] for e in tr]) for tr in
                                          plain + [t for ts in killed for t in ts]
                                          if sum(1 for e in tr if e["e"] == "Run") >= 2})
    ctx.cov["rule"] = ("TLC (InPlaceGen) enumerates ALL injection-free histories over {user writes U1/U2/A2, --replace with config A, "
                       "with config B} up to %d steps; each is replayed with the projected (file, tmp, backup, md5) observed after "
                       "every step; a seeded subset of maximal histories is replayed with one run killed before every file-related "
                       "syscall and then continued; non-trivial = at least two runs" % (maxlen - 1))
    r = eng.validate(ctx, events, "InPlaceTrace")
    if r is None:
        return
    ctx.add_tlc(r)
    ndrift = set()
    for rep in r.emitted:
        e, tr = meta[rep["l"] - 1]
        if rep.get("drift"):
            ndrift.add(rep["hid"])
            ctx.drift.append({"l": rep["l"], "event": {k: e.get(k) for k in ("k", "m", "inj", "exit", "F", "T", "B", "M", "label")}})
        for bad in rep["bad"]:
            if bad not in ("BackupIsOrigin", "Md5DescribesOutput", "NeverBackupOwn"):
                continue        # decided under C13
            if rep.get("tainted"):
                sig = "%s|after-kill-in-md5-window" % bad
            else:
                hs = [(x.get("c") or (x.get("k") + ("!" + x["sig"] if x.get("inj") == "kill" else ""))) for x in tr[: tr.index(e) + 1]]
                sig = "%s|%s" % (bad, ",".join(hs))
            what = "%s after history %s: F=%s B=%s M=%s" % (
                bad, [(x.get("c") or "run(%s%s)" % (x.get("k"), "" if x.get("inj") in (None, "none") else " killed at " + x.get("label", "?")))
                      for x in tr[: tr.index(e) + 1]], e.get("F"), e.get("B"), e.get("M"))
            ctx.violation(sig, what, {"kind": "inplace", "history": tr[: tr.index(e) + 1], "world_large": any(x.get("wl") for x in tr)})
    ctx.cov["traces_validated_against_impl"] = hid - len(ndrift)
    ctx.cov["trace_events"] = len(events)
    ctx.cov["exhaustive"] = True
    ctx.assumptions += [
        "a user write whose bytes equal the content recorded in a stale md5 file (possible only after a kill in the md5 window) is part of that window: the history stays tainted and is reported under the known finding",
        "histories are --replace runs only; mixing --no-backup into the chain is outside C14",
        "crash = SIGKILL between two syscalls",
    ]
