"""C11 - files in one invocation are formatted independently of each other."""
import json
import os
import shutil

from ..common import pmap, log, build, Work, sh, tlc_retry, write_ndjson
from .. import corpus

LEVEL = "model_checking"
CFG = (b"indent_columns=4\nindent_with_tabs=0\nalign_var_def_span=1\nmod_sort_include=true\nnl_end_of_file=ignore\n"
       b"sp_inside_fparen=force\nsp_after_comma=force\nmod_sort_incl_import_prioritize_filename=true\n")

# hand-written representatives of the Batch.tla file classes (name -> bytes)
REPS = {
    "plain.c": b"int  f( int a ){\nreturn a+1;}\n",
    "objc_probe.c": b"void f(void) {\n  id x = @selector(foo);\n  NSString *s = @\"a\";\n}\n",
    "objc_ambiguous.c": b"int protocol;\nint g(int self) { int interface = self; return interface + protocol; }\n",
    "indent_off_open.c": b"int a;\n/* *INDENT-OFF* */\nint   b  ;\n",
    "pragma_asm_open.c": b"int a;\n#pragma asm\n  mov   a, b\n",
    "if_open.c": b"#if A\nint  a ;\n#if B\nint b;\n",
    "if_user.c": b"#if X\nint  x ;\n#else\nint y;\n#endif\nint z;\n",
    "qt_macro.cpp": b"void f() {\n  connect(a, SIGNAL(x(int)), b, SLOT(y(int)));\n}\n",
    "qt_word.cpp": b"int SIGNAL;\nint SLOT;\nvoid g(int a,int b);\n",
    # two files with the same include lines: which one is "the file's own header" differs (mod_sort_incl_import_prioritize_filename)
    "alpha.cpp": b"#include \"zeta.h\"\n#include \"beta.h\"\n#include \"alpha.h\"\nvoid h(int a,int b);\n",
    "zeta.cpp": b"#include \"zeta.h\"\n#include \"beta.h\"\n#include \"alpha.h\"\nvoid k(int a,int b);\n",
    "crlf.c": b"int  a ;\r\nint   b;\r\n",
    "cr_only.c": b"int  a ;\rint   b;\r",
    "ends_in_cr.c": b"int a; /* c\r */\r",
    "mixed_le.c": b"int a;\nint b;\r\nint c;\n",
    "aligned.c": b"int a;\nunsigned long bb;\nchar c;\n",
    "includes.c": b"#include \"b.h\"\n#include \"a.h\"\n#include <z.h>\nint a;\n",
    "empty.c": b"",
    "nonl.c": b"int a;",
    "bom.c": b"\xef\xbb\xbfint  a ;\n",
    "utf16.c": "int  a ; // é\n".encode("utf-16"),
    "formatted.c": b"int f(int a)\n{\n    return a;\n}\n",
    "tabs_space.c": b"int f(int a) {\n \t return a;   \n}  ",
    "plain.java": b"class A { int  f( ){ return 1 ; } }\n",
    "plain.cs": b"class A { int  f( ){ return 1 ; } }\n",
    "plain.d": b"int  f( ){ return 1 ; }\n",
    "plain.m": b"@interface A : NSObject\n- (void) f;\n@end\n",
    # a C++ file that fires the C -> Objective-C probe (a bare '@' punctuator), and an Objective-C++ file whose keywords exist in the
    # Objective-C table only: the language of the second file equals the flags the first one left behind
    "objc_probe.cpp": b"#define BOXED(v) @(v)\nint boxed(int a) { return a; }\n",
    "uses_oc.mm": b"@interface Widget: NSObject\n- (void) run;\n@end\n@implementation Widget\n- (void) run { @try { [self go]; } @catch (id e) { self = nil; } @finally { } }\n@end\n",
    "plain.cpp": b"template<class T> struct S { T  t ; };\nint g(){ S<S<int>> s; return 0;}\n",
}
FIELDS = {"lang": ["lang"], "unc_off": ["unc_off"], "unc_off_used": ["unc_off_used"], "pp_level": ["pp_level"],
          "in_preproc": ["in_preproc"], "le": ["le"], "changes": ["changes"], "al_cnt": ["al_cnt"], "did_newline": ["did_newline"],
          "ncnl": ["ncnl"], "ifdef_whole": ["ifdef_whole"], "last_char": ["last_char"], "spaces": ["spaces"], "column": ["column"],
          "qt": ["qt_found", "qt_restore"], "chunks": ["nchunks"], "bout": ["bout"], "check_fail": ["check_fail"]}


def run_batch(unc, cfg, d, names, lang, how):
    """names exist in d.  Returns (rc, {name: bytes}, {name: FileStart projection})"""
    out = os.path.join(d, "OUT")
    shutil.rmtree(out, ignore_errors=True)
    tr = os.path.join(d, "trace.ndjson")
    if os.path.exists(tr):
        os.unlink(tr)
    cmd = [unc, "-c", cfg, "-q", "--prefix", "OUT"]
    if lang:
        cmd += ["-l", lang]
    if how == "F":
        open(os.path.join(d, "list.txt"), "w").write("".join(n + "\n" for n in names))
        cmd += ["-F", "list.txt"]
    else:
        cmd += names
    rc, so, se = sh(cmd, cwd=d, env={"UNC_VERIF_TRACE": tr}, timeout=120)
    res, starts = {}, {}
    for n in names:
        p = os.path.join(out, n)
        res[n] = open(p, "rb").read() if os.path.exists(p) else None
    if os.path.exists(tr):
        for line in open(tr, errors="replace"):
            try:
                e = json.loads(line)
            except ValueError:
                continue
            if e.get("e") == "FileStart":
                starts[e["file"]] = e
    return rc, res, starts


def run(ctx):
    quick = ctx.tier == "quick"
    unc = ctx.unc()
    r = tlc_retry("Batch", "Batch", workers=4, timeout=600)
    ctx.add_tlc(r)
    if r.violation:
        ctx.model_violation("Batch", "Batch", r)
    if r.error:
        ctx.error("Batch: " + r.error)
    r2 = tlc_retry("Batch", "Batch_asbuilt", workers=4, timeout=600)
    ctx.cov["asbuilt_variant_rejected"] = bool(r2.violation)
    if not r2.violation:
        ctx.error("vacuity: Batch_asbuilt (forced language never restored) satisfies CleanStart")
    root = ctx.work.sub("world")
    cfg = os.path.join(root, "b.cfg")
    open(cfg, "wb").write(CFG)
    files = dict(REPS)
    # corpus files of all languages
    ins = corpus.inputs()
    ctx.rng.shuffle(ins)
    ncorp = 30 if quick else 250
    k = 0
    for c in ins:
        if k >= ncorp:
            break
        b = open(c.inp, "rb").read()
        if len(b) > 40000:
            continue
        files["c%03d_%s" % (k, os.path.basename(c.inp))] = b
        k += 1
    for n, b in files.items():
        open(os.path.join(root, n), "wb").write(b)
    names = sorted(files)
    # single runs (cached), per -l variant
    LANGS = [None, "C", "CPP"]
    single = {}

    def do_single(job):
        n, lang = job
        d = os.path.join(ctx.work.path, "s-%s-%s" % (lang, n))
        os.makedirs(d, exist_ok=True)
        shutil.copy(os.path.join(root, n), os.path.join(d, n))
        rc, res, starts = run_batch(unc, cfg, d, [n], lang, "pos")
        shutil.rmtree(d, ignore_errors=True)
        return (n, lang), (rc, res[n], starts.get(n))

    for k2, v in pmap(do_single, [(n, l) for n in names for l in LANGS], nproc=16):
        single[k2] = v
    good = {l: [n for n in names if single[(n, l)][0] == 0] for l in LANGS}
    ctx.cov["files"] = len(names)
    # sequences: all ordered pairs of the representatives (per -l variant), seeded corpus pairs and triples
    reps = [n for n in sorted(REPS)]
    seqs = []
    for l in LANGS:
        g = set(good[l])
        rl = [n for n in reps if n in g]
        pairs = [(a, b) for a in rl for b in rl if a != b]
        if quick:
            ctx.rng.shuffle(pairs)
            pairs = pairs[:900 if l is None else 150]
        for a, b in pairs:
            seqs.append((l, [a, b], ctx.rng.choice(["pos", "F"])))
        gl = sorted(g)
        for _ in range(60 if quick else 600):
            m = ctx.rng.choice([2, 3, 3, 4])
            if len(gl) >= m:
                seqs.append((l, ctx.rng.sample(gl, m), ctx.rng.choice(["pos", "F"])))

    def do_batch(job):
        i, (lang, ns, how) = job
        d = os.path.join(ctx.work.path, "b%05d" % i)
        os.makedirs(d, exist_ok=True)
        for n in ns:
            shutil.copy(os.path.join(root, n), os.path.join(d, n))
        rc, res, starts = run_batch(unc, cfg, d, ns, lang, how)
        shutil.rmtree(d, ignore_errors=True)
        fl = []
        for n in ns:
            src, sres, sstart = single[(n, lang)]
            dirty = []
            bs = starts.get(n)
            if bs is not None and sstart is not None:
                for f, keys in FIELDS.items():
                    if any(bs.get(k3) != sstart.get(k3) for k3 in keys):
                        dirty.append(f)
            fl.append({"name": n, "same": res[n] == sres, "start": dirty, "seen": bs is not None})
        return {"forced": lang is not None, "lang": lang, "how": how, "rc": rc, "files": fl}

    events = pmap(do_batch, list(enumerate(seqs)), nproc=16)
    ctx.cov["evaluations"] = len(events)
    ctx.cov["distinct_nontrivial"] = len({json.dumps([e["lang"], [f["name"] for f in e["files"]]]) for e in events})
    ctx.cov["rule"] = ("Batch.tla is model-checked for all class sequences <=3 x {-l, no -l}; on the binary: ordered pairs of %d hand-written "
                       "class representatives (ObjC probe, open INDENT-OFF, open #pragma asm, open #if, Qt macros, CRLF/CR/mixed, BOM, UTF-16, "
                       "empty, include sorting, alignment, other languages) and seeded 2-4 file sequences of corpus files, each x {no -l, -l C, "
                       "-l CPP} x {positional, -F}; every file's batch output is compared with a cached single-file invocation and its "
                       "FileStart hook projection with the one of the single run; distinct = distinct (language flag, file sequence)" % len(REPS))
    for e in events[:2]:
        ctx.sample({"lang": e["lang"], "how": e["how"], "files": e["files"]})
    tp = os.path.join(ctx.work.path, "trace-c11.ndjson")
    write_ndjson(tp, [{"forced": e["forced"], "files": [{"same": f["same"], "start": f["start"]} for f in e["files"]]} for e in events])
    r = tlc_retry("BatchTrace", "BatchTrace", env={"TRACE": tp}, workers=1, timeout=900)
    if r.error:
        ctx.error("BatchTrace: " + r.error)
        return
    if r.violation and r.violation[0] == "postcondition":
        ctx.error("BatchTrace: trace not consumed to the end")
    ctx.add_tlc(r)
    ndrift = 0
    for rep in r.emitted:
        e = events[rep["l"] - 1]
        if "Independent" in rep["bad"]:
            for j in rep["differing"]:
                f = e["files"][j - 1]
                prev = [x["name"] for x in e["files"][: j - 1]]
                sig = "Independent|%s|%s|after:%s" % (e["lang"], f["name"], ",".join(prev))
                ctx.violation(sig, "batch `-l %s %s`: output of %s differs from its single-file run (dirty at FileStart: %s)" % (
                    e["lang"], " ".join(x["name"] for x in e["files"]), f["name"], f["start"]),
                    {"kind": "batch", "lang": e["lang"], "how": e["how"], "files": [x["name"] for x in e["files"]],
                     "contents": {x["name"]: files[x["name"]].decode("latin-1") for x in e["files"]}, "cfg": CFG.decode()})
        elif rep["unclean"]:
            ndrift += 1
            ctx.drift.append({"lang": e["lang"], "files": [(x["name"], x["start"]) for x in e["files"]]})
    ctx.cov["traces_validated_against_impl"] = len(events) - ndrift
    ctx.cov["drift_batches"] = ndrift
    ctx.assumptions += ["single-file invocations of the same binary are the reference",
                        "FileStart projections cover the cross-file fields listed in spec/BatchCore.tla (cpd and the Qt override statics); "
                        "a static cache that is not projected is only detected through an output difference"]


def replay(path):
    rp = json.load(open(path))
    unc = build("hooks")
    wk = Work("replay")
    try:
        d = wk.sub("run")
        cfg = os.path.join(d, "b.cfg")
        open(cfg, "wb").write(rp["cfg"].encode())
        for n, b in rp["contents"].items():
            open(os.path.join(d, n), "wb").write(b.encode("latin-1"))
        rc, res, st = run_batch(unc, cfg, d, rp["files"], rp["lang"], rp["how"])
        for n in rp["files"]:
            rc1, r1, s1 = run_batch(unc, cfg, d, [n], rp["lang"], "pos")
            print(n, "batch == single:", res[n] == r1[n])
        print("what:", rp["what"])
    finally:
        wk.cleanup()
    return 0
