"""C20 - blank-line limits are respected.  BlankLines.tla + BlankLinesTrace.tla."""
import json
import os
import shutil

from .. import lex, obs, corpus, cfggen, hazard
from ..common import pmap_proc, tlc_retry, write_ndjson, sh
from . import pipeline_engine as pe
from .c17 import classify_lines, getopt, IARF, EXT, blind

LEVEL = "model_checking"
BLOCKS = {
    "CPP": """#include <a.h>
namespace outer
{
namespace inner
{
class K
{
public:
    K();
    int f(int a)
    {
        int x = a;
        if (x)
        {
            x++;
        }
        else
        {
            x--;
        }
        return x;
    }
private:
    int m;
};
int g(int a)
{
    int b = a;
    for (;;)
    {
        break;
    }
    return b;
}
}
}
int h(void);
int i(void);
enum E
{
    A,
    B
};
void e(void)
{
}
""",
    "C": """#include <a.h>
#define M 1
struct s
{
    int a;
    int b;
};
static int t;
int f(int a)
{
    int x = a;
    int y;

    if (x)
    {
        x++;
    }
    switch (x)
    {
    case 1:
        y = 2;
        break;
    default:
        break;
    }
    return x;
}
int g(void);
int h(void);
void e(void)
{
}
#if defined(A)
int q;
#endif
""",
    "JAVA": """package p;
import a.B;
public class A
{
    private int m;
    public int f(int a)
    {
        int x = a;
        if (x > 0)
        {
            x++;
        }
        return x;
    }
    public void g()
    {
    }
}
""",
    "CS": """using System;
namespace N
{
    class A
    {
        int m;
        int F(int a)
        {
            int x = a;
            if (x > 0)
            {
                x++;
            }
            return x;
        }
        void G()
        {
        }
    }
}
""",
}


# tokens that a code-modifying option deletes, each alone on its line and directly below a preprocessor directive: the two newline
# chunks around the deleted token must still end up as one (newlines_cleanup_dup) before the blank-line limits are applied
PPDEL = """void pr1(int a)
{
    g(a);
#undef X
    return;
}
void pr2(int a)
{
    if (a)
#ifdef Y
    {
        g(a);
    }
#endif
    g(a);
#define W 1
    ;
    switch (a) {
    case 1:
#define Z 1
    {
        a = 2;
    }
    break;
    default:
        break;
    }
#undef W
    return;
}
"""


def inject(rng, text, maxb=6):
    out = []
    ls = text.split("\n")
    if rng.random() < 0.5:
        out += [""] * rng.randint(0, 4)           # blank lines that open the file
    for i, l in enumerate(ls[:-1]):
        out.append(l)
        if not l.rstrip().endswith("\\") and rng.random() < 0.6:
            out += [rng.choice(["", "", "  ", "\t"])] * rng.randint(0, maxb)
    t = "\n".join(out) + "\n"
    r = rng.random()
    if r < 0.3:
        t = t.rstrip("\n")                         # no terminator at all
    elif r < 0.6:
        t = t.rstrip("\n") + "\n" * rng.randint(2, 5)
    return t


def count_options(unc):
    """blank-line count options: unsigned nl_ options other than nl_max (caps and thresholds excluded by name)"""
    res = []
    for o in cfggen.registry(unc):
        n = o["name"]
        if o["kind"] not in ("unum", "num") or not n.startswith("nl_"):
            continue
        if n == "nl_max" or "thresh" in n or n in ("nl_remove_extra_newlines", "nl_max_blank_in_func", "nl_max_after_func_body",
                                                    "nl_oc_msg_args_min_params", "nl_oc_msg_args_max_code_width", "nl_func_call_args_multi_line_ignore_closures"):
            continue
        res.append(o)
    return res


def measure(text, lang):
    """runs of consecutive line breaks outside comments / literals / continued directives / regions,
    breaks that open and close the file, blank lines next to braces"""
    cls = classify_lines(text, lang)
    lines = [l for l, t in obs.split_lines(text)]
    n = len(cls)
    runs = {}
    after_open = before_close = 0
    i = 0
    # file start
    sout = 0
    while sout < n and cls[sout][2] == "blank":
        sout += 1
    # file end: line breaks after the last non-blank line
    ends = [t for l, t in obs.split_lines(text)]
    j = n - 1
    eout = 0
    while j >= 0 and cls[j][2] == "blank":
        if ends[j]:
            eout += 1
        j -= 1
    if j >= 0 and ends[j]:
        eout += 1
    i = sout
    while i < n:
        if cls[i][2] == "blank":
            k = i
            while k < n and cls[k][2] == "blank":
                k += 1
            prevc = cls[i - 1][2] if i > 0 else None
            nextc = cls[k][2] if k < n else None
            prevl = lines[i - 1] if i > 0 else ""
            judged = (prevc in ("code", "pp", "cmtstart") and nextc in ("code", "pp", "cmtstart", None)
                      and not prevl.rstrip(" \t").endswith("\\"))
            if judged and k < n:
                ln = k - i + 1
                if ln not in runs:
                    runs[ln] = {"len": ln, "no": i + 1, "count": 0}
                runs[ln]["count"] += 1
                if prevc == "code" and prevl.rstrip(" \t").endswith("{"):
                    after_open += 1
                if nextc == "code" and lines[k].lstrip(" \t").startswith("}"):
                    before_close += 1
            i = k
        else:
            i += 1
    return sorted(runs.values(), key=lambda r: r["len"]), sout, eout, after_open, before_close


def start_breaks(text):
    n = 0
    for l, t in obs.split_lines(text):
        if l.strip(" \t") == "" and t:
            n += 1
        else:
            break
    return n


def blank_askers():
    """iarf / bool options documented as asking for a BLANK line ('Add or remove blank line before if'): two line breaks"""
    import re
    t = open(os.path.join(corpus.REPO, "src", "options.h"), errors="replace").read()
    res = set()
    for m in re.finditer(r"((?://[^\n]*\n)+)extern (?:Bounded)?Option<([^>]*)>\n(\w+);", t):
        doc, typ, name = m.group(1).lower(), m.group(2), m.group(3)
        if name.startswith("nl_") and ("blank line" in doc or "empty line" in doc) and (typ.startswith("iarf") or typ == "bool"):
            res.add(name)
    return res


ASKERS = blank_askers()


def _job(a):
    unc, tmp, i, (jid, src, cfg, cfg_text, lang), maxreq = a
    if cfg is None:
        cfg = os.path.join(tmp, "c%d.cfg" % i)
        obs.write(cfg, cfg_text)
    else:
        cfg_text = open(cfg, errors="replace").read()
    rc, so, se = sh([unc, "-c", cfg, "-q", "-l", lang, "-f", src], timeout=20, cwd=tmp)
    ev = {"e": "File", "id": jid, "rc": rc, "nlmax": 0, "maxreq": 0, "runs": [], "so": "ignore", "smin": 0, "sout": 0, "eo": "ignore", "emin": 0,
          "eout": 0, "eatAfter": False, "eatBefore": False, "afterOpen": 0, "beforeClose": 0}
    if rc != 0:
        return ev, (jid, src, cfg, cfg_text, lang)
    try:
        ev["nlmax"] = int(getopt(cfg_text, "nl_max", "0"))
        ev["smin"] = int(getopt(cfg_text, "nl_start_of_file_min", "0"))
        ev["emin"] = int(getopt(cfg_text, "nl_end_of_file_min", "0"))
    except ValueError:
        ev["rc"] = 98
        return ev, (jid, src, cfg, cfg_text, lang)
    ev["maxreq"] = maxreq if maxreq is not None else 99
    # the statement's proviso: an option that asks for a blank line asks for two line breaks
    if any(getopt(cfg_text, n_, "ignore").lower() in ("add", "force", "true", "t", "1", "y", "yes") for n_ in ASKERS):
        ev["maxreq"] = max(ev["maxreq"], 2)
    ev["so"] = IARF.get(getopt(cfg_text, "nl_start_of_file", "ignore"), "ignore")
    ev["eo"] = IARF.get(getopt(cfg_text, "nl_end_of_file", "ignore"), "ignore")
    tv = ("true", "t", "1", "y", "yes")
    # nl_inside_namespace and nl_inside_empty_func are the two documented requests for blank lines next to a brace
    asks = any(getopt(cfg_text, n_, "0") not in ("0", "") for n_ in ("nl_inside_namespace", "nl_inside_empty_func"))
    ev["eatAfter"] = getopt(cfg_text, "eat_blanks_after_open_brace", "false") in tv and not asks
    ev["eatBefore"] = getopt(cfg_text, "eat_blanks_before_close_brace", "false") in tv and not asks
    out = obs.decode(so)
    runs, sout, eout, ao, bc = measure(out, lang)
    ev.update({"runs": runs, "sout": sout, "eout": eout, "afterOpen": ao, "beforeClose": bc})
    return ev, (jid, src, cfg, cfg_text, lang)


def run(ctx):
    quick = ctx.tier == "quick"
    unc = ctx.unc()
    r = tlc_retry("BlankLines", "BlankLines", workers=8, timeout=600)
    ctx.add_tlc(r)
    if r.error:
        ctx.error("BlankLines: " + r.error)
    elif r.violation:
        ctx.model_violation("BlankLines", "BlankLines", r)
    rv = tlc_retry("BlankLines", "BlankLines_nounpretend", workers=4, timeout=600)
    ctx.cov["variant_rejected"] = {"pretended line not removed": bool(rv.violation)}
    if not rv.violation:
        ctx.error("vacuity: the variant that keeps the pretended line satisfies all invariants")
    tmp = ctx.work.sub("c20")
    copts = count_options(unc)
    names = {o["name"] for o in copts}
    jobs = []
    progs = []
    for lang, t in list(BLOCKS.items()) + [(l, hazard.DENSE[l]) for l in ("CPP", "C")]:
        for v in range(3 if quick else 12):
            src = os.path.join(tmp, "p%d%s" % (len(progs), EXT[lang]))
            obs.write(src, inject(ctx.rng, t).encode())
            progs.append((src, lang))
    # PPDEL under each deleting option x nl_max x eat_blanks
    for v in range(2 if quick else 8):
        src = os.path.join(tmp, "ppdel%d.c" % v)
        obs.write(src, (inject(ctx.rng, PPDEL) if v else PPDEL).encode())
        for dele in ("mod_remove_empty_return=true", "mod_case_brace=remove", "mod_remove_extra_semicolon=true", "mod_full_brace_if=remove",
                     "mod_remove_empty_return=true\nmod_case_brace=remove\nmod_remove_extra_semicolon=true\nmod_full_brace_if=remove"):
            for nlmax in (1, 2, 3):
                for eb in ("true", "false"):
                    cfgt = "nl_max=%d\n%s\neat_blanks_before_close_brace=%s\neat_blanks_after_open_brace=%s\nnl_inside_empty_func=0\n" % (nlmax, dele, eb, eb)
                    jobs.append(((("ppdel|%d|%s|%d|%s" % (v, dele.split("=")[0].replace("\n", "+"), nlmax, eb)), src, None, cfgt, "C"), nlmax))
    ncfg = 180 if quick else 3000
    mods = [o for o in cfggen.registry(unc) if o["name"].startswith("mod_") and o["kind"] in ("iarf", "bool") and not o["name"].startswith("mod_sort")]
    for c in range(ncfg):
        nlmax = ctx.rng.choice([1, 2, 2, 3, 4])
        l = ["nl_max=%d" % nlmax]
        if c % 3 == 0:
            # every count option set, within nl_max (the statement's proviso)
            for o in copts:
                hi = min(nlmax, o["max"]) if o["bounded"] else nlmax
                l.append("%s=%d" % (o["name"], ctx.rng.randint(o["min"] if o["bounded"] else 0, hi)))
        elif c % 3 == 1:
            for o in ctx.rng.sample(copts, 8):
                hi = min(nlmax, o["max"]) if o["bounded"] else nlmax
                l.append("%s=%d" % (o["name"], ctx.rng.randint(o["min"] if o["bounded"] else 0, hi)))
        if ctx.rng.random() < 0.7:
            l += ["nl_inside_namespace=0", "nl_inside_empty_func=0"]      # later lines win: the eat_blanks clause is then judged
        l.append("eat_blanks_after_open_brace=%s" % ctx.rng.choice(["true", "false"]))
        l.append("eat_blanks_before_close_brace=%s" % ctx.rng.choice(["true", "false"]))
        so, eo = ctx.rng.choice(["ignore", "add", "remove", "force"]), ctx.rng.choice(["ignore", "add", "remove", "force"])
        l += ["nl_start_of_file=%s" % so, "nl_start_of_file_min=%d" % ctx.rng.randint(0, nlmax), "nl_end_of_file=%s" % eo,
              "nl_end_of_file_min=%d" % ctx.rng.randint(0, nlmax)]
        if ctx.rng.random() < 0.4:
            # other newline options (iarf / bool) at random
            ws = [o for o in hazard.nl_options(unc) if o["kind"] in ("iarf", "bool")]
            for o in ctx.rng.sample(ws, 10):
                l.append("%s=%s" % (o["name"], cfggen.value(ctx.rng, o)))
        if ctx.rng.random() < 0.3:
            # code-modifying options remove / add tokens next to newline chunks (a removed '}' once left two chunks that each obeyed the cap)
            for o in ctx.rng.sample(mods, 3):
                l.append("%s=%s" % (o["name"], cfggen.value(ctx.rng, o)))
        cfgt = "\n".join(l) + "\n"
        for (src, lang) in ctx.rng.sample(progs, 5 if quick else 8):
            jobs.append(((("gen|%d|%s" % (c, os.path.basename(src))), src, None, cfgt, lang), nlmax))
    # corpus pairs + nl_max: judged only when the configuration's own count options stay within it
    cs = [c for c in corpus.cases() if (c.lang or corpus.lang_of(c.inp)) in EXT]
    ctx.rng.shuffle(cs)
    for c in cs[:120 if quick else 100000]:
        try:
            txt = open(c.cfg, errors="replace").read()
            if blind(open(c.inp, "rb").read().decode("latin-1"), c.lang or corpus.lang_of(c.inp)):
                continue
        except OSError:
            continue
        vals = []
        for n_, v_, line in pe.cfg_settings(txt):
            if n_ in names:
                try:
                    vals.append(int(v_))
                except ValueError:
                    vals.append(99)
        nlmax = ctx.rng.choice([2, 3, 4])
        mr = max(vals + [0])
        jobs.append((("corpus|%s|%s|nl_max=%d" % (os.path.basename(c.cfg), os.path.relpath(c.inp, os.path.join(corpus.REPO, "tests/input")), nlmax),
                      c.inp, None, txt + "\nnl_max=%d\n" % nlmax, c.lang or corpus.lang_of(c.inp)), mr))
    res = pmap_proc(_job, [(unc, tmp, i, j, mr) for i, (j, mr) in enumerate(jobs)], nproc=14)
    evs = [e for e, j in res]
    ctx.cov["evaluations"] = len(evs)
    ok = [e for e in evs if e["rc"] == 0]
    ctx.cov["runs_accepted_by_uncrustify"] = len(ok)
    ctx.cov["refused_which"] = sorted({e["id"] for e in evs if e["rc"] != 0})[:20]
    tp = os.path.join(ctx.work.path, "c20.ndjson")
    write_ndjson(tp, evs)
    rt = tlc_retry("BlankLinesTrace", "BlankLinesTrace", env={"TRACE": tp}, workers=1, timeout=1800)
    if rt.error:
        ctx.error("BlankLinesTrace: " + rt.error)
    else:
        if rt.violation and rt.violation[0] == "postcondition":
            ctx.error("BlankLinesTrace: trace not consumed to the end")
        ctx.cov["traces_validated_against_impl"] = len(evs)
        byid = {j[0]: (e, j) for e, j in res}
        for rep in rt.emitted:
            e, j = byid[rep["id"]]
            jid, src, cfg, cfg_text, lang = j
            for b in rep["bad"]:
                ctx.violation("%s|%s" % (b, jid), "%s violated for %s: nl_max=%d runs=%s start=%s/%d->%d end=%s/%d->%d afterOpen=%d beforeClose=%d" % (
                    b, jid, e["nlmax"], [(r_["len"], r_["no"]) for r_ in e["runs"]], e["so"], e["smin"], e["sout"], e["eo"], e["emin"], e["eout"],
                    e["afterOpen"], e["beforeClose"]),
                    {"kind": "c20", "which": b, "src": src, "lang": lang, "cfg_text": cfg_text, "src_bytes": open(src, "rb").read()[:200000]})
    ctx.cov["distinct_nontrivial"] = len({(e["nlmax"], tuple(r_["len"] for r_ in e["runs"]), e["so"], e["smin"], e["sout"], e["eo"], e["emin"], e["eout"],
                                           e["eatAfter"], e["eatBefore"]) for e in ok})
    ctx.cov["rule"] = ("BlankLines.tla: all (count 0..6, position, nl_max 0..4, can_increase, requested count, start/end option x min) combinations "
                       "model-checked incl. stability under repetition; block-structured programs (nested namespaces / classes / functions / "
                       "switch) with 0..6 blank lines injected at every line boundary and at both file ends x configurations that set nl_max "
                       "1..4, every count option within nl_max, the eat_blanks flags and the start/end matrix; corpus pairs with nl_max added; "
                       "distinct = distinct (options, observed run lengths, start, end) tuples")
    if ok:
        e = ok[len(ok) // 2]
        ctx.sample({"id": e["id"], "nl_max": e["nlmax"], "runs": e["runs"], "start": e["sout"], "end": e["eout"]})
    ctx.assumptions += ["runs are measured with the independent lexer's line classes (comments, literals, continued directives, regions excluded)",
                        "a corpus configuration is judged for the cap only when none of its count options exceeds nl_max"]


def replay(path):
    from ..common import build
    import tempfile
    r = json.load(open(path))
    if r.get("kind") == "model":
        print(r.get("tlc_tail", ""))
        return 1
    unc = build("plain")
    d = tempfile.mkdtemp(prefix="c20replay")
    try:
        src = os.path.join(d, os.path.basename(r["src"]))
        b = r["src_bytes"]
        obs.write(src, b.encode("latin-1") if isinstance(b, str) else b)
        ev, j = _job((unc, d, 0, ("replay", src, None, r["cfg_text"], r["lang"]), 0))
        print({k: ev[k] for k in ("nlmax", "runs", "so", "smin", "sout", "eo", "emin", "eout", "eatAfter", "afterOpen", "eatBefore", "beforeClose")})
        print("violated clause:", r["which"])
        return 1
    finally:
        shutil.rmtree(d, ignore_errors=True)
