"""C03 - comments and literals survive intact.  Pipeline.tla (CommentsPreserved on the model,
comment / literal clauses of the pass contracts on traces) + generated placements."""
import json
import os
import shutil

from .. import lex, obs, corpus, cfggen, hazard
from ..common import pmap, log, tlc_retry, SPEC, sh
from . import pipeline_engine as pe
from . import c02

LEVEL = "model_checking"

COMMENTS = [
    "/* c */", "/*c*/", "/** doc */", "/* a\n * b\n */", "/* a\n   b\n   c */", "/*\n\tx\ty\n*/", "// line", "//x", "// tab\there",
    "/* café 中 */", "// très", "/* a \\ b */", "/* ??/ */", "/* \"q\" 'r' */", "// \"unbalanced", "/* // inner */",
    "// cont \\\n   more", "/* trailing   \n   blanks   \n */", "/*!< member */", "///< doc", "/* * * */", "/*****/", "//", "/**/",
    "// path C:\\tmp\\ ", "// art /\\  \t",
]
LITERALS = [
    '"s"', '"a b"', '"tab\there"', '"sp \t tab  \t"', '"q\\"q"', '"back\\\\"', "'c'", "'\\''", "'\\\\'", '"/* no */"', '"// no"', 'L"w"', 'u8"u"',
    '"café"', '"a  b   c"', '"%d\\n"', '""', '"??/"', '"multi\\\nline"',
]
CPP_LITERALS = ['R"(raw "x" \\ )"', 'R"d(a)b)d"', '"x"_ud', "u'c'", '1\'000', 'LR"(wide \\ raw)"', 'u8R"(u8 raw)"', 'uR"x(y)x"', 'UR"(z "q")"',
                'R"(first line\n\tsecond \t line\n  third)"', 'LR"d(multi\n \tline)d"',
                # a closer that shares only a prefix with the delimiter does not end the literal
                'R"ab( x )ax" y )ab"', 'R"end(a)enx")end"', 'R"xy(1)x"2)xy"', 'R"ab(x)ax"   "y)ab"', 'R"ab(x)ax" "y)ab"', 'R"q(a)q1"  ,  "b)q"']
TEMPLATES = {
    "C": ("@C@\n#include <stdio.h>\n@C@\n#define M(x) ((x) + 1) @C@\nstatic const char *s = @S@; @C@\nint f(int a, @C@ int b) @C@\n{ @C@\n"
          "    if (a @C@ > b) @C@\n        return a; @C@\n    else @C@ { @C@\n        puts(@S@); @C@\n    }\n    @C@\n"
          "    for (a = 0; @C@ a < b; a++) @C@\n        b += M(a) @C@ ;\n    switch (a) { @C@\n    case 1: @C@\n        break; @C@\n"
          "    default: @C@ b = @S@[0]; }\n    return b; @C@\n} @C@\n#if A @C@\nint g; @C@\n#endif @C@\n@C@\n"),
    "CPP": ("@C@\nnamespace n { @C@\ntemplate<typename T> @C@ class K : public B @C@ {\npublic: @C@\n    K() : m(0) @C@ , n(@S@) {} @C@\n"
            "    auto f(T t) -> int @C@ { return g<T>(t, @S@); } @C@\nprivate: @C@\n    int m; @C@\n    const char *n; @C@\n}; @C@\n"
            "} @C@\nint main() @C@ { @C@ auto l = [](int x) @C@ { return x; }; @C@ return l(@S@[0]); } @C@\n"),
    "JAVA": ("@C@\npackage p; @C@\nimport java.util.List; @C@\n@C@\npublic class A @C@ { @C@\n    private String s = @S@; @C@\n"
             "    @Override @C@\n    public int f(int a) @C@ { @C@\n        if (a > 1) @C@ { return a; } @C@\n"
             "        for (String t : list) @C@ { System.out.println(@S@ + t); } @C@\n        return 0; @C@\n    } @C@\n} @C@\n"),
    "CS": ("@C@\nusing System; @C@\nnamespace N @C@ { @C@\n    class A @C@ { @C@\n        string s = @S@; @C@\n"
           "        int P { get; @C@ set; } @C@\n        void F(int a) @C@ { @C@ if (a > 1) @C@ Console.WriteLine(@S@); @C@ } @C@\n    } @C@\n} @C@\n"),
    "OC": ("@C@\n#import <Foundation/Foundation.h> @C@\n@interface A : NSObject @C@\n- (void)f:(int)a with:(id)b; @C@\n@end @C@\n"
           "@implementation A @C@\n- (void)f:(int)a with:(id)b @C@ { @C@\n    NSString *s = @@S@; @C@\n    [b doIt:a @C@ and:@@S@]; @C@\n} @C@\n@end @C@\n"),
}
EXT = {"C": ".c", "CPP": ".cpp", "JAVA": ".java", "CS": ".cs", "OC": ".m"}


def gen_program(rng, lang):
    t = TEMPLATES[lang]
    out = []
    parts = t.split("@C@")
    for k, p in enumerate(parts):
        while "@S@" in p:
            pool = LITERALS + (CPP_LITERALS if lang == "CPP" else [])
            lit = rng.choice(pool)
            if lang in ("JAVA", "CS") and (lit.startswith(("L", "u8", "R")) or "\\\n" in lit or "??/" in lit):
                lit = '"s"'
            if lang == "OC" and not lit.startswith('"'):
                lit = '"s"'
            p = p.replace("@S@", lit, 1)
        out.append(p)
        if k < len(parts) - 1:
            r = rng.random()
            if r < 0.45:
                c = rng.choice(COMMENTS)
                nxt = parts[k + 1]
                # a // comment must be followed by a line break in the template, else it would swallow code by construction
                if c.startswith("//") and not nxt.startswith("\n"):
                    c = "/* c */"
                # inside a directive line a multi-line comment is fine, a '//' with continuation is not placed
                out.append(c)
    text = "".join(out)
    # seeded dirty whitespace
    lines = text.split("\n")
    for i in range(len(lines)):
        r = rng.random()
        if r < 0.15 and lines[i].strip() and not lines[i].lstrip().startswith(("#", "*", "b", "c", "more", "x")):
            lines[i] = rng.choice(["  ", "\t", "      "]) + lines[i].lstrip()
    return "\n".join(lines)


def star_norm(cs):
    out = []
    for c in cs:
        ls = c.split("\n")
        for i in range(1, len(ls)):
            l = ls[i]
            if l.startswith("*") and not l.startswith("*/") and len(l) > 1 and l[1] not in " \t*/":
                l = "* " + l[1:]
            ls[i] = l
        out.append("\n".join(ls))
    return out


def blank_norm(cs):
    import re as _re
    return [_re.sub(r"[ \t]+", " ", c) for c in cs]


def run(ctx):
    quick = ctx.tier == "quick"
    unc = ctx.unc()
    r = tlc_retry("Pipeline", "Pipeline", workers=8, timeout=900)
    ctx.add_tlc(r)
    if r.error:
        ctx.error("Pipeline: " + r.error)
    elif r.violation:
        ctx.model_violation("Pipeline", "Pipeline", r)
    rv = tlc_retry("Pipeline", "Pipeline_noCPPNL", workers=4, timeout=600)
    ctx.cov["contract_clause_needed"] = {"noCPPNL": bool(rv.violation)}
    if not rv.violation:
        ctx.error("vacuity: Pipeline without the // newline clause still preserves comments")
    # corpus universe + generated placements
    jobs = c02.universe(ctx, 250 if quick else 100000, 120 if quick else 2000)
    gdir = ctx.work.sub("gen")
    ngen = 240 if quick else 4000
    langs = list(TEMPLATES)
    for k in range(ngen):
        lang = langs[k % len(langs)]
        src = os.path.join(gdir, "g%05d%s" % (k, EXT[lang]))
        obs.write(src, gen_program(ctx.rng, lang).encode("utf-8"))
        # the tab policy is rotated explicitly: literals must be untouched under every one of them
        cfgt = ("indent_with_tabs=%d\n" % (k % 3)) + (cfggen.random_ws_config(ctx.rng, unc) if k % 4 else "")
        jobs.append(("gen|%d|%s" % (k, lang), src, None, cfgt, lang))
    jobs += hazard.jobs(unc, ctx.rng, quick, ctx.work.sub("dense"))
    # every literal shape on its own (a refusal of one must not hide the others) under the three spacing extremes
    ldir = ctx.work.sub("lits")
    spx = [("default", ""), ("sp_remove", cfggen.all_iarf(unc, "sp_", "remove")), ("sp_force", cfggen.all_iarf(unc, "sp_", "force"))]
    for lang, pool in (("C", LITERALS), ("CPP", LITERALS + CPP_LITERALS)):
        for li, lit in enumerate(pool):
            src = os.path.join(ldir, "lit%d%s" % (li, EXT[lang]))
            obs.write(src, ("const char *v = %s;\nint   after  =  1 ;\nvoid f(void) { g(%s , 2); }\n" % (lit, lit)).encode("utf-8"))
            for cn, ct in spx:
                jobs.append(("lit|%s|%d|%s" % (lang, li, cn), src, None, ct, lang))
    # a comment at EVERY token boundary of the token-dense programs (outside directives): K files per program and comment kind,
    # file k carries comments at the boundaries b with b % K == k
    from .c19 import SPACEY
    bdir = ctx.work.sub("bound")
    K = 8 if quick else 3
    for lang, text in SPACEY.items():
        items = [it for it in lex.lex(text, lang) if it[0] == "tok"]
        for kind in ("c", "cpp"):
            for k in range(K):
                out, pos, n = [], 0, 0
                for bi in range(len(items) - 1):
                    a_, b_ = items[bi], items[bi + 1]
                    if a_[5] or b_[5] or bi % K != k:
                        continue
                    out.append(text[pos:a_[3]])
                    out.append(" /* b%d */ " % bi if kind == "c" else " // b%d\n" % bi)
                    pos = a_[3]
                    n += 1
                out.append(text[pos:])
                src = os.path.join(bdir, "b_%s_%s_%d%s" % (lang, kind, k, EXT[lang]))
                obs.write(src, "".join(out).encode("utf-8"))
                jobs.append(("bound|%s|%s|%d" % (lang, kind, k), src, None, "" if k % 2 == 0 else cfggen.random_ws_config(ctx.rng, unc), lang))
    res = c02.observe_jobs(ctx, jobs)
    events = []
    for evs, info, j in res:
        for e in evs:
            if e["e"] == "Out":
                e = dict(e)
                e["cinS"], e["coutS"] = star_norm(e["cin"]), star_norm(e["cout"])
                e["cinT"], e["coutT"] = blank_norm(e["cin"]), blank_norm(e["cout"])
            events.append(e)
    ctx.cov["evaluations"] += len(res)
    ctx.cov["runs_accepted_by_uncrustify"] = sum(1 for evs, info, j in res if info["rc"] == 0)
    ctx.cov["refused_generated_or_dense"] = sorted({j[0] for evs, info, j in res if info["rc"] != 0 and j[0].split("|")[0] in ("gen", "dense", "lit", "cmtpos")})[:30]
    reps = pe.judge(ctx, events, "c03")
    byid = {j[0]: (evs, info, j) for evs, info, j in res}
    for rep in reps:
        evs, info, j = byid[rep["id"]]
        jid, src, cfg, cfg_text, lang = j
        for b in rep["bad"]:
            if b not in ("CommentsPreserved", "LiteralsPreserved"):
                continue
            out = evs[-1]
            if b == "CommentsPreserved" and rep.get("why") == "StarLeaderSpace":
                sig = "CommentsPreserved|star-leader-space"
            elif b == "CommentsPreserved" and rep.get("why") == "TabToBlanksInComment":
                sig = "CommentsPreserved|tab-after-blank-expanded"
            else:
                parts = jid.split("|")
                sig = "%s|input|%s" % (b, parts[2]) if parts[0] in ("corpus", "random") else "%s|%s" % (b, jid)
            a, bb = (out["cin"], out["cout"]) if b == "CommentsPreserved" else (out["lin"], out["lout"])
            k, x, y = pe.first_diff(a, bb, 0)
            ctx.violation(sig, "%s violated for %s: %r -> %r (first pass touching text: %s)" % (b, jid, x, y, rep.get("pass")),
                          {"kind": "c03", "src": src, "lang": lang, "which": b,
                           "cfg_text": cfg_text if cfg_text is not None else open(cfg, errors="replace").read(),
                           "src_bytes": open(src, "rb").read()[:200000]})
        for dn in rep["drift"]:
            ctx.drift.append({"module": "Pipeline", "kind": dn, "id": rep["id"], "pass": rep.get("pass"), "changed": rep.get("changed")})
    distinct = set()
    for evs, info, j in res:
        if info["rc"] == 0 and evs[-1]["e"] == "Out" and (len(evs[-1]["cin"]) + len(evs[-1]["lin"])) >= 3:
            distinct.add(hash((tuple(evs[-1]["cin"]), tuple(evs[-1]["lin"]), j[3] or j[2])))
    ctx.cov["distinct_nontrivial"] = len(distinct)
    ctx.cov["rule"] = ("Pipeline.tla model-checked (every list <= 4 chunks incl. both comment kinds); trace validation of corpus pairs, corpus "
                       "inputs x seeded random whitespace configs and generated programs with %d comment shapes x %d literal shapes at "
                       "every marked grammar position; non-trivial: accepted by uncrustify with >= 3 comments/literals; distinct by "
                       "(comments, literals, config)" % (len(COMMENTS), len(LITERALS) + len(CPP_LITERALS)))
    for evs, info, j in res[-3:]:
        if evs[-1]["e"] == "Out":
            ctx.sample({"run": j[0], "comments": evs[-1]["cin"][:4], "literals": evs[-1]["lin"][:4]})
    ctx.assumptions += ["comment text compared modulo CmtNorm (vlib/lex.py comment_norm): continuation lines stripped of leading blanks, repeated // leader and trailing blanks",
                        "comment- and string-rewriting options are excluded from the configurations (cfggen.NOT_WS, corpus.MOD_RE)"]


def replay(path):
    from ..common import build
    import tempfile
    r = json.load(open(path))
    if r.get("kind") == "model":
        print(r.get("tlc_tail", ""))
        return 1
    unc = build("plain")
    d = tempfile.mkdtemp(prefix="c03replay")
    try:
        lang = r.get("lang", "C")
        cfg = os.path.join(d, "r.cfg")
        obs.write(cfg, r.get("cfg_text", ""))
        src = os.path.join(d, os.path.basename(r["src"]))
        b = r["src_bytes"]
        obs.write(src, b.encode("latin-1") if isinstance(b, str) else b)
        rc, so, se = sh([unc, "-c", cfg, "-q", "-l", lang, "-f", src])
        print("command: uncrustify -c r.cfg -q -l %s -f %s  (rc=%d)" % (lang, os.path.basename(src), rc))
        if lang in lex.C_FAMILY:
            a = pe.project_lexer(obs.decode(open(src, "rb").read()), lang)
            bb = pe.project_lexer(obs.decode(so), lang)
        else:
            print("non C-family language: compare by eye")
            return 1
        ix = 1 if r.get("which") == "CommentsPreserved" else 2
        k, x, y = pe.first_diff(a[ix], bb[ix], 0)
        same = a[ix] == bb[ix]
        print("in :", x)
        print("out:", y)
        print("property holds on this case" if same else "VIOLATION reproduced")
        return 0 if same else 1
    finally:
        shutil.rmtree(d, ignore_errors=True)
