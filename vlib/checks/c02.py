"""C02 - token stream preserved under whitespace-only configurations.
Fusion.tla (pair classification + replay of every pair) and Pipeline.tla (pass contracts,
trace validation of real runs)."""
import json
import os
import shutil

from .. import lex, obs, corpus, fusion, cfggen, hazard
from ..common import pmap, log, tlc_retry, write_ndjson, SPEC, sh
from . import pipeline_engine as pe

LEVEL = "model_checking"
ALL_LANGS = ["C", "CPP", "D", "CS", "JAVA", "OC", "VALA", "PAWN", "ECMA"]
EXT = {"C": ".c", "CPP": ".cpp", "D": ".d", "CS": ".cs", "JAVA": ".java", "OC": ".m", "VALA": ".vala", "PAWN": ".pawn",
       "ECMA": ".es"}


# ------------------------------------------------------------------------------------------
# spec directory with the generated table

def spec_dir(ctx):
    d = os.path.join(ctx.work.path, "spec")
    if not os.path.isdir(d):
        os.makedirs(d)
        for f in os.listdir(SPEC):
            if f.endswith(".tla") or f.endswith(".cfg"):
                shutil.copy(os.path.join(SPEC, f), d)
        fusion.gen_table(os.path.join(d, "FusionTable.tla"), ALL_LANGS)
    return d


def fusion_cfg(d, name, lang, fixed=True, fixed2=True, emit=False, trace=False, shift=True, fixed3=True, fixed4=True):
    p = os.path.join(d, name + ".cfg")
    with open(p, "w") as f:
        f.write("SPECIFICATION %s\nCONSTANTS\n  Lang = \"%s\"\n  Cpp11Shift = %s\n  Fixed = %s\n  Fixed2 = %s\n  Fixed3 = %s\n  Fixed4 = %s\n  Emit = %s\n" % (
            "TSpec" if trace else "Spec", lang, "TRUE" if shift else "FALSE", "TRUE" if fixed else "FALSE",
            "TRUE" if fixed2 else "FALSE", "TRUE" if fixed3 else "FALSE", "TRUE" if fixed4 else "FALSE", "TRUE" if emit else "FALSE"))
        if trace:
            f.write("POSTCONDITION TraceAccepted\n")
        else:
            f.write("INVARIANTS WellFormed NoCommentOpener PunctGuarded WordsGuarded ExponentGuarded DotsGuarded EmitPair\n")
        f.write("CHECK_DEADLOCK FALSE\n")
    return name


# ------------------------------------------------------------------------------------------
# Fusion: model check + replay of every pair

def snippet(ctxname, idx, a, b):
    if ctxname == "stmt":
        return "void f%d(void) {\n    p0 %s %s q0;\n}\n" % (idx, a, b)
    if ctxname == "macro":
        return "#define M%d p0 %s %s q0\n" % (idx, a, b)
    return "void f%d(void) {\n    g(p0 %s %s q0);\n}\n" % (idx, a, b)


def split_snippets(tokens, n):
    """token stream of a whole file -> {idx: tokens of snippet idx}; snippets start at 'f<idx>' / 'M<idx>'"""
    out = {}
    cur = None
    for t in tokens:
        if len(t) > 1 and t[0] in "fM" and t[1:].isdigit() and int(t[1:]) < n:
            cur = int(t[1:])
            out[cur] = []
            continue
        if cur is not None:
            out[cur].append(t)
    return out


def gap0_of(items, idx_marker, a, b):
    """does b directly follow a in the output?  items: lexer items of the whole file"""
    seen = False
    for k, it in enumerate(items):
        if it[0] == "tok" and it[1] == idx_marker:
            seen = True
        if seen and it[0] == "tok" and it[1] == "p0":
            if k + 2 < len(items):
                x, y = items[k + 1], items[k + 2]
                return x[3] == y[2]
            return False
    return False


def run_pair_file(unc, d, lang, cfgpath, pairs, ctxname, tag, use_lexer):
    """pairs: [(a, b, ang)] -> list of events (one per pair); on failure of the whole file, bisect"""
    src = os.path.join(d, "%s%s" % (tag, EXT[lang]))
    text = "".join(snippet(ctxname, i, a, b) for i, (a, b, ang) in enumerate(pairs))
    obs.write(src, text)
    tr = os.path.join(d, tag + ".nd")
    rc, so, se, evs = obs.run(unc, ["-c", cfgpath, "-q", "-l", lang, "-f", src], cwd=d, trace=tr, flags=["SPACE"], timeout=60)
    os.unlink(src)
    if rc != 0:
        if len(pairs) == 1:
            a, b, ang = pairs[0]
            return [dict(id="%s|%s|%s|%s" % (lang, ctxname, a, b), a=list(a), b=list(b), ang=ang, rc=rc, ins=[], outs=[],
                         gap0=False, force=-1, ctx=ctxname)]
        h = len(pairs) // 2
        return (run_pair_file(unc, d, lang, cfgpath, pairs[:h], ctxname, tag + "a", use_lexer) +
                run_pair_file(unc, d, lang, cfgpath, pairs[h:], ctxname, tag + "b", use_lexer))
    outtext = obs.decode(so)
    if use_lexer:
        iit, oit = lex.lex(text, lang), lex.lex(outtext, lang)
        # comments stay in the stream here: a pair may contain a comment representative
        def stream(items):
            return [("<C>" + lex.comment_norm(k, t)) if k.startswith("cmt") else t for k, t, s, e, ln, pp in items
                    if k not in ("pp(", "pp)")]
        ins, outs = split_snippets(stream(iit), len(pairs)), split_snippets(stream(oit), len(pairs))
    else:
        tk = obs.event(evs, "Tokenized")
        src2 = os.path.join(d, "%sr%s" % (tag, EXT[lang]))
        obs.write(src2, so)
        rc2, so2, se2, evs2 = obs.run(unc, ["-c", cfgpath, "-q", "-l", lang, "-f", src2], cwd=d, trace=tr, timeout=60)
        os.unlink(src2)
        tk2 = obs.event(evs2, "Tokenized")
        if rc2 != 0 or tk2 is None:
            # uncrustify does not read its own output back (a pair that is no code in this language): no token stream to compare;
            # the other pairs of the file are run again in halves
            if len(pairs) == 1:
                a, b, ang = pairs[0]
                return [dict(id="%s|%s|%s|%s" % (lang, ctxname, a, b), a=list(a), b=list(b), ang=ang, rc=rc2 or 97, ins=[], outs=[],
                             gap0=False, force=-1, ctx=ctxname)]
            h = len(pairs) // 2
            return (run_pair_file(unc, d, lang, cfgpath, pairs[:h], ctxname, tag + "a", use_lexer) +
                    run_pair_file(unc, d, lang, cfgpath, pairs[h:], ctxname, tag + "b", use_lexer))

        def stream(t):
            out = []
            for c in (t["chunks"] if t else []):
                if c[obs.TYPE] in ("NEWLINE", "NL_CONT") or not c[obs.TEXT]:
                    continue
                out.append(("<C>" + lex.comment_norm("cmt_c", c[obs.TEXT])) if c[obs.TYPE].startswith("COMMENT") else c[obs.TEXT])
            return lex.norm_angle(out)
        ins, outs = split_snippets(stream(tk), len(pairs)), split_snippets(stream(tk2), len(pairs))
        oit = None
    # Space events by first-chunk text on the snippet's line
    forces = {}
    for e in evs:
        if e.get("e") == "Space":
            forces.setdefault((e["l1"], e["s1"], e["s2"]), e["force"])
    res = []
    lines_per = text.count("\n") // max(1, len(pairs))
    for i, (a, b, ang) in enumerate(pairs):
        line = i * lines_per + (1 if ctxname == "macro" else 2)
        fo = forces.get((line, a, b), -1)
        g0 = False
        if use_lexer:
            g0 = gap0_of(oit, ("M%d" if ctxname == "macro" else "f%d") % i, a, b)
        res.append(dict(id="%s|%s|%s|%s" % (lang, ctxname, a, b), a=list(a), b=list(b), ang=ang, rc=0,
                        ins=lex.norm_angle(ins.get(i, [])), outs=lex.norm_angle(outs.get(i, ["<missing>"])), gap0=g0, force=fo,
                        ctx=ctxname))
    return res


def use_lexer_lang(lang):
    return lang in lex.C_FAMILY


def fusion_part(ctx):
    quick = ctx.tier == "quick"
    unc = ctx.unc()
    d = spec_dir(ctx)
    langs = ["C", "CPP", "JAVA"] if quick else ALL_LANGS
    npairs = 0
    for lang in langs:
        cfg = fusion_cfg(d, "Fusion_" + lang, lang, emit=True)
        r = tlc_retry("Fusion", cfg, cwd=d, workers=1, timeout=900)
        ctx.add_tlc(r)
        if r.error:
            ctx.error("Fusion %s: %s" % (lang, r.error))
            continue
        if r.violation:
            ctx.model_violation("Fusion", cfg, r)
            continue
        pairs = [("".join(e["a"]), "".join(e["b"]), e["ang"], e["cls"]) for e in r.emitted]
        ctx.cov.setdefault("fusion_pairs", {})[lang] = {
            "pairs": len(pairs), "guarded": sum(1 for p in pairs if p[3] == "guarded"),
            "open": sum(1 for p in pairs if p[3] == "open")}
        # replay: every pair whose first element can be followed by something on the same line
        todo = [(a, b, ang) for a, b, ang, cls in pairs if not a.startswith("//") and "\x0c" not in a + b and not ang
                and not (lang == "D" and a.endswith(".") and b.startswith("."))]      # D lexes '1...' by its own slice rule
        if use_lexer_lang(lang):
            # a punctuator of uncrustify's table that is not one token of this language ('.*' in C) is not a token to preserve there
            def istok(x):
                return not x or not all(not ch.isalnum() and ch not in "_\"' \t" for ch in x) or lex.is_punct(x, lang)
            todo = [p_ for p_ in todo if istok(p_[0]) and istok(p_[1])]
            pairs = [p_ for p_ in pairs if istok(p_[0]) and istok(p_[1])]
        if quick:
            # all fusable pairs, plus a seeded slice of the safe ones
            fus = [(a, b, ang) for a, b, ang, cls in pairs if cls != "safe" and not a.startswith("//") and not ang]
            safe = [p for p in todo if p not in set(fus)]
            ctx.rng.shuffle(safe)
            todo = fus + safe[:400]
        cfgs = {"remove": cfggen.all_iarf(unc, "sp_", "remove"),
                "ignore": ""}
        if not quick:
            cfgs["force"] = cfggen.all_iarf(unc, "sp_", "force")
            cfgs["remove_noshift"] = cfggen.all_iarf(unc, "sp_", "remove") + "sp_permit_cpp11_shift=false\n"
        use_lexer = lang in lex.C_FAMILY
        ctxnames = ["stmt", "macro", "call"] if lang not in ("JAVA", "CS", "ECMA", "VALA") else ["stmt", "call"]
        jobs = []
        for cname, ctext in cfgs.items():
            cpath = os.path.join(d, "fz_%s_%s.cfg" % (lang, cname))
            obs.write(cpath, ctext)
            for cn in ctxnames:
                # a '#' in the middle of ordinary code is a stringify operator only inside a macro body
                use = todo if cn == "macro" else [p_ for p_ in todo if not p_[0].startswith("#") and not p_[1].startswith("#") and not p_[0].startswith("%:")
                                                  and not p_[1].startswith("%:")]
                for k in range(0, len(use), 60):
                    jobs.append((cpath, cn, use[k:k + 60], "fz%s_%s_%s_%d" % (lang, cname, cn, k)))

        def do(job):
            cpath, cn, ps, tag = job
            return run_pair_file(unc, d, lang, cpath, ps, cn, tag, use_lexer), cpath
        events = []
        for evs, cpath in pmap(do, jobs, nproc=12):
            for e in evs:
                e["cfg"] = os.path.basename(cpath)
                e["id"] = e["id"] + "|" + e["cfg"]
                events.append(e)
        npairs += len(events)
        ctx.cov["evaluations"] += len(events)
        tp = os.path.join(ctx.work.path, "fusion-%s.ndjson" % lang)
        write_ndjson(tp, events)
        tcfg = fusion_cfg(d, "FusionTrace_" + lang, lang, trace=True)
        rt = tlc_retry("FusionTrace", tcfg, cwd=d, env={"TRACE": tp}, workers=1, timeout=1800)
        if rt.error:
            ctx.error("FusionTrace %s: %s" % (lang, rt.error))
            continue
        ctx.cov["traces_validated_against_impl"] += len(events)
        byid = {e["id"]: e for e in events}
        refused = sum(1 for e in events if e["rc"] != 0)
        ctx.cov.setdefault("fusion_replay", {})[lang] = {"events": len(events), "refused": refused}
        for rep in rt.emitted:
            e = byid.get(rep["id"])
            if rep["bad"]:
                sig = "fusion|%s|%s|%s" % (lang, "".join(e["a"]), "".join(e["b"]))
                ctx.violation(sig, "tokens %r %r written in %s context with %s do not lex back to the same tokens: %r -> %r" % (
                    "".join(e["a"]), "".join(e["b"]), e["ctx"], e["cfg"], e["ins"], e["outs"]),
                    {"kind": "fusion", "lang": lang, "a": "".join(e["a"]), "b": "".join(e["b"]), "ctx": e["ctx"],
                     "cfg_text": open(os.path.join(d, e["cfg"])).read()})
            for dn in rep["drift"]:
                ctx.drift.append({"module": "Fusion", "kind": dn, "id": rep["id"], "cls": rep.get("cls")})
        ctx.sample({"fusion_event": {k: events[len(events) // 2][k] for k in ("id", "ins", "outs", "gap0", "force")}}, cap=8)
    # the rule before each repair must be rejected by the model
    for name, f1, f2, f3, f4, vl in (("Fusion_asbuilt", False, False, False, False, "CPP"), ("Fusion_asbuilt2", True, False, False, False, "CPP"),
                                     ("Fusion_asbuilt3", True, True, False, False, "CPP"), ("Fusion_asbuilt4", True, True, True, False, "D")):
        cfg = fusion_cfg(d, name + "_w", vl, fixed=f1, fixed2=f2, fixed3=f3, fixed4=f4)
        r = tlc_retry("Fusion", cfg, cwd=d, workers=4, timeout=600)
        ctx.cov.setdefault("asbuilt_variants_rejected", {})[name] = bool(r.violation)
        if not r.violation:
            ctx.error("vacuity: %s satisfies the guard invariants" % name)
    return npairs


# ------------------------------------------------------------------------------------------
# Pipeline: model check + trace validation

def pipeline_model(ctx):
    r = tlc_retry("Pipeline", "Pipeline", workers=8, timeout=900)
    ctx.add_tlc(r)
    if r.error:
        ctx.error("Pipeline: " + r.error)
    elif r.violation:
        ctx.model_violation("Pipeline", "Pipeline", r)
    rej = {}
    for v in ("noFUSE", "noCPPNL", "noPPNL", "noPPCONT", "noPPSTART"):
        rv = tlc_retry("Pipeline", "Pipeline_" + v, workers=4, timeout=600)
        rej[v] = bool(rv.violation)
        if not rv.violation:
            ctx.error("vacuity: Pipeline without clause %s still preserves tokens" % v)
    ctx.cov["contract_clause_needed"] = rej


def universe(ctx, ncases, nrandom, want_ws=True):
    """[(id, src path, cfg path or text, lang)]"""
    unc = ctx.unc()
    cs = [c for c in corpus.cases() if corpus.is_whitespace_only_cfg(c.cfg) == want_ws]
    ctx.rng.shuffle(cs)
    jobs = []
    for c in cs[:ncases]:
        if b"\x00" in open(c.inp, "rb").read(4096):
            continue                                     # UTF-16 inputs: C09
        jobs.append(("corpus|%s|%s" % (os.path.basename(c.cfg), os.path.relpath(c.inp, os.path.join(corpus.REPO, "tests/input"))),
                     c.inp, c.cfg, None, c.lang or corpus.lang_of(c.inp)))
    ins = corpus.inputs()
    ctx.rng.shuffle(ins)
    k = 0
    for c in ins:
        if k >= nrandom:
            break
        if os.path.getsize(c.inp) > 60000 or b"\x00" in open(c.inp, "rb").read(4096):
            continue
        txt = cfggen.random_ws_config(ctx.rng, unc)
        jobs.append(("random|%d|%s" % (k, os.path.relpath(c.inp, os.path.join(corpus.REPO, "tests/input"))), c.inp, None, txt,
                     c.lang or corpus.lang_of(c.inp)))
        k += 1
    return jobs


def _obs_job(a):
    unc, tmp, relex, i, (jid, src, cfg, cfg_text, lang) = a
    if cfg is None:
        cfg = os.path.join(tmp, "c%d.cfg" % i)
        obs.write(cfg, cfg_text)
    evs, info = pe.observe(unc, src, cfg, lang, tmp, jid, cfg_text=cfg_text, relex=relex)
    info.pop("pre", None)
    info.pop("tok", None)
    return evs, info, (jid, src, cfg, cfg_text, lang)


def token_mutations(ctx, n, workdir):
    """inputs that are no longer programs: corpus files with tokens deleted, duplicated, swapped or replaced by operators -
    uncrustify may refuse them; what it accepts must still come out with the same tokens"""
    ins = [c for c in corpus.inputs() if (c.lang or corpus.lang_of(c.inp)) in lex.C_FAMILY and 200 < os.path.getsize(c.inp) < 20000]
    ctx.rng.shuffle(ins)
    OPS = ["+", "-", "*", "/", "&", "&&", "|", "<", ">", "<<", ">>", "::", "->", ".", "...", "?", ":", "=", "==", "++", "--", "~", "!", "%", "^",
           "1.", ".5", "0x1e", "return", "case", "else", "L", "R", "u8"]
    jobs = []
    unc = ctx.unc()
    for c in ins[:n]:
        lang = c.lang or corpus.lang_of(c.inp)
        try:
            text = open(c.inp, "rb").read().decode("utf-8")
        except UnicodeDecodeError:
            continue
        items = [it for it in lex.lex(text, lang) if it[0] == "tok"]
        if len(items) < 10:
            continue
        import re as _re
        if _re.search(r"\d\.\d+\.\d", text):
            # '10.12.2' is a version inside @available( ) only; a mutation that removes that context leaves a preprocessing number that is
            # no number of the language (uncrustify reads '10.12' '.2')
            continue
        edits = []
        for _ in range(ctx.rng.randint(1, 6)):
            k = ctx.rng.randrange(len(items) - 1)
            a_, b_ = items[k], items[k + 1]
            how = ctx.rng.randrange(5)
            if how == 0:
                edits.append((a_[2], a_[3], ""))                                # delete
            elif how == 1:
                edits.append((a_[3], a_[3], " " + text[a_[2]:a_[3]]))           # duplicate
            elif how == 2:
                # (set apart by blanks: glued to its neighbours the replacement would form one preprocessing number or word with them,
                #  which is not the token that was put there)
                edits.append((a_[2], a_[3], " " + ctx.rng.choice(OPS) + " "))   # replace by an operator / number / keyword
            elif how == 3:
                edits.append((a_[3], a_[3], " " + ctx.rng.choice(OPS) + " "))   # insert
            elif not text[b_[2]:b_[3]].startswith("#") and not text[a_[2]:a_[3]].startswith("#"):
                # (a '#' that leaves the start of its line is no token of the language outside a directive: the mutations keep it there)
                edits.append((a_[3], b_[2], ""))                                # close the gap to the next token
        out = text
        for s_, e_, r_ in sorted(set(edits), reverse=True):
            out = out[:s_] + r_ + out[e_:]
        p = os.path.join(workdir, "mut%04d%s" % (len(jobs), os.path.splitext(c.inp)[1]))
        obs.write(p, out.encode("utf-8"))
        cfgt = cfggen.random_ws_config(ctx.rng, unc) if ctx.rng.random() < 0.6 else cfggen.all_iarf(unc, "sp_", "remove")
        jobs.append(("mutated|%d|%s" % (len(jobs), os.path.relpath(c.inp, os.path.join(corpus.REPO, "tests/input"))), p, None, cfgt, lang))
    return jobs


def observe_jobs(ctx, jobs, relex=None):
    from ..common import pmap_proc
    unc = ctx.unc()
    tmp = ctx.work.sub("obs")
    return pmap_proc(_obs_job, [(unc, tmp, relex, i, j) for i, j in enumerate(jobs)], nproc=14)


def report(ctx, jobs_res, reps, kinds, prop_kind):
    byid = {j[0]: (info, j) for evs, info, j in jobs_res}
    for rep in reps:
        info, j = byid.get(rep["id"], (None, None))
        for b in rep["bad"]:
            if b not in kinds:
                continue
            jid, src, cfg, cfg_text, lang = j
            parts = jid.split("|")
            if prop_kind == "pipeline-relex" and lang in lex.C_FAMILY and info.get("rc") == 0:
                # uncrustify's tokenizer re-read its own output differently; for the languages the independent lexer knows,
                # the language's token stream decides ('# \<nl> define' is '#define' for C, not for uncrustify's tokenizer)
                a_ = pe.project_lexer(obs.decode(open(src, "rb").read()), lang)
                b_ = pe.project_lexer(obs.decode(info["out"]), lang)
                if a_[0] == b_[0]:
                    ctx.drift.append({"module": "Pipeline", "kind": "OwnTokenizerRereadsDifferently", "id": rep["id"]})
                    continue
            sig = "%s|%s" % (b, jid)
            if parts[0] in ("corpus", "random"):
                sig = "%s|input|%s" % (b, parts[2])      # an input that is unstable lexically is so under every configuration that touches it
            ctx.violation(sig, "%s violated for %s (first pass touching text: %s)" % (b, jid, rep.get("pass")),
                          {"kind": prop_kind, "src": src, "cfg": cfg, "cfg_text": cfg_text if cfg_text is not None else open(cfg, errors="replace").read(),
                           "lang": lang, "src_bytes": open(src, "rb").read()[:200000]})
        for dn in rep["drift"]:
            ctx.drift.append({"module": "Pipeline", "kind": dn, "id": rep["id"], "pass": rep.get("pass"),
                              "changed": rep.get("changed"), "stage": rep.get("stage")})


def run(ctx):
    quick = ctx.tier == "quick"
    pipeline_model(ctx)
    fusion_part(ctx)
    jobs = universe(ctx, 200 if quick else 100000, 150 if quick else 2500)
    jobs += hazard.jobs(ctx.unc(), ctx.rng, quick, ctx.work.sub("dense"))
    jobs += token_mutations(ctx, 150 if quick else 3000, ctx.work.sub("mut"))
    res = observe_jobs(ctx, jobs)
    events = [e for evs, info, j in res for e in evs]
    ran = sum(1 for evs, info, j in res if info["rc"] == 0)
    ctx.cov["evaluations"] += len(res)
    ctx.cov["runs_accepted_by_uncrustify"] = ran
    ctx.cov["refused_dense"] = sorted({j[0] for evs, info, j in res if info["rc"] != 0 and j[0].startswith("dense|")})[:30]
    reps = pe.judge(ctx, events, "c02")
    report(ctx, res, reps, {"TokensPreserved"}, "pipeline")
    # own-tokenizer view (all languages) on a slice
    jobs2 = universe(ctx, 60 if quick else 1500, 40 if quick else 600)
    res2 = observe_jobs(ctx, jobs2, relex=True)
    reps2 = pe.judge(ctx, [e for evs, info, j in res2 for e in evs], "c02r")
    report(ctx, res2, reps2, {"TokensPreserved"}, "pipeline-relex")
    ctx.cov["evaluations"] += len(res2)
    distinct = set()
    for evs, info, j in res + res2:
        if info["rc"] == 0 and evs[-1]["e"] == "Out" and len(evs[-1]["tin"]) > 20:
            distinct.add(hash(tuple(evs[-1]["tin"])) ^ hash(j[3] or j[2]))
    ctx.cov["distinct_nontrivial"] = len(distinct)
    ctx.cov["rule"] = ("TLC enumerates every ordered token pair per language (Fusion.tla) and every chunk list <= 4 with <= 2 newline "
                       "edits (Pipeline.tla); replay: each pair in 2-3 contexts x spacing configs; trace validation: corpus (input, "
                       "whitespace-only config) pairs and corpus inputs x seeded random whitespace configs; a case is non-trivial "
                       "when uncrustify accepted it and the input has more than 20 tokens; distinct by (token sequence, config)")
    for evs, info, j in res[:3]:
        ctx.sample({"run": j[0], "lang": j[4], "events": len(evs), "tokens": len(evs[-1].get("tin", [])) if evs[-1]["e"] == "Out" else None})
    ctx.assumptions += ["the independent lexer (vlib/lex.py) is used differentially for C, C++, ObjC, Java, C#; the other languages are re-lexed by uncrustify's own tokenizer",
                        "'>>' vs '> >' and '[]' vs '[ ]' are treated as the same tokens (the languages' own equivalence)",
                        "configurations are whitespace-only by the option-name filter in vlib/cfggen.py / vlib/corpus.py"]


def replay(path):
    from ..common import build
    r = json.load(open(path))
    unc = build("plain")
    import tempfile
    d = tempfile.mkdtemp(prefix="c02replay", dir=os.path.join(os.path.dirname(SPEC), ".work") if os.path.isdir(os.path.join(os.path.dirname(SPEC), ".work")) else None)
    try:
        lang = r.get("lang", "C")
        if r.get("kind") == "model":
            print(r.get("tlc_tail", ""))
            return 1
        cfg = os.path.join(d, "r.cfg")
        obs.write(cfg, r.get("cfg_text", ""))
        if r.get("kind") == "fusion":
            src = os.path.join(d, "r" + EXT.get(lang, ".c"))
            obs.write(src, snippet(r["ctx"], 0, r["a"], r["b"]))
        else:
            src = os.path.join(d, os.path.basename(r["src"]))
            b = r["src_bytes"]
            obs.write(src, b.encode("latin-1") if isinstance(b, str) else b)
        rc, so, se = sh([unc, "-c", cfg, "-q", "-l", lang, "-f", src])
        print("command: uncrustify -c r.cfg -q -l %s -f %s  (rc=%d)" % (lang, os.path.basename(src), rc))
        if lang in lex.C_FAMILY:
            a = pe.project_lexer(obs.decode(open(src, "rb").read()), lang)
            b = pe.project_lexer(obs.decode(so), lang)
            k, x, y = pe.first_diff(a[0], b[0])
            print("tokens in : ...", x)
            print("tokens out: ...", y)
            same = a[0] == b[0]
        else:
            # the languages the independent lexer does not know: uncrustify's own tokenizer re-reads the output (hooked build)
            print(so.decode("latin-1")[:1200])
            evs, info, j = _obs_job((build("hooks"), d, True, 0, ("replay", src, None, r.get("cfg_text", ""), lang)))
            o = evs[-1]
            same = o.get("e") == "Out" and o.get("tin") == o.get("tout")
            if not same and o.get("e") == "Out":
                k, x, y = pe.first_diff(o["tin"], o["tout"])
                print("tokens in : ...", x)
                print("tokens out: ...", y)
        print("property holds on this case" if same else "VIOLATION reproduced: token streams differ")
        return 0 if same else 1
    finally:
        shutil.rmtree(d, ignore_errors=True)
