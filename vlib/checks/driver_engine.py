"""Engine shared by C10/C11/C12: M-check Driver.tla, M-gen of invocations, replay, M-trace."""
import json
import os

from ..common import tlc_retry, pmap, write_ndjson, log
from .. import driver as drv


def model_check(ctx, cfg="Driver_all"):
    r = tlc_retry("Driver", cfg, workers=8, timeout=900)
    ctx.add_tlc(r)
    if r.violation:
        ctx.model_violation("Driver", cfg, r)
    if r.error:
        ctx.error("%s: %s" % (cfg, r.error))
    return r


def generate(ctx, cfg):
    r = tlc_retry("Driver", cfg, workers=4, timeout=900)
    ctx.add_tlc(r)
    if r.violation:
        ctx.model_violation("Driver", cfg, r)
    if r.error:
        ctx.error("%s: %s" % (cfg, r.error))
    return r.emitted


def validate(ctx, events, name="drv"):
    tp = os.path.join(ctx.work.path, "trace-%s.ndjson" % name)
    write_ndjson(tp, [{"a": e["a"], "files": e["files"],
                       "o": {k: e["o"][k] for k in ("exit", "pass", "fail", "touched", "stdout")}} for e in events])
    r = tlc_retry("DriverTrace", "DriverTrace", env={"TRACE": tp}, workers=1, timeout=1500, xmx="8g")
    if r.error:
        ctx.error("DriverTrace: " + r.error)
        return None
    if r.violation and r.violation[0] == "postcondition":
        ctx.error("DriverTrace: trace not consumed to the end (%s of %d)" % (r.diameter, len(events)))
    ctx.add_tlc(r)
    return r


def argsig(a):
    return "src=%s inplace=%s dest=%s%s%s%s lang=%s%s%s" % (
        a["src"], a["inplace"], a["dest"], " check" if a["check"] else "", " ifc" if a["ifc"] else "",
        " -q" if a["quiet"] else "", a["lang"], " -p" if a["pfile"] else "", " csv" if a["csv"] else "")
