"""C09 - encoding is transparent.  Encoding.tla (decoders, policy, encoders at byte level) +
EncodingTrace.tla; exhaustive scalar sweep and transcoding commutation on the binary."""
import json
import os
import shutil
import hashlib

from .. import obs, corpus, hazard
from ..common import pmap_proc, tlc_retry, write_ndjson, sh, SPEC
from .c03 import COMMENTS

LEVEL = "model_checking"
ENC = {"utf8": ("utf-8", b""), "utf8bom": ("utf-8", b"\xef\xbb\xbf"), "utf16le": ("utf-16-le", b"\xff\xfe"),
       "utf16be": ("utf-16-be", b"\xfe\xff")}
NONASCII = ["café", "中文", "\U0001f600", "ßä", "Ж", "€", "\U00020000", "﻿", "x́"]


def _case_job(a):
    unc, tmp, i, c = a
    src = os.path.join(tmp, "e%d.c" % i)
    obs.write(src, bytes(c["file"]))
    o = c["o"]
    cfg = os.path.join(tmp, "o_%s_%d_%d.cfg" % (o["bom"], int(o["byte"]), int(o["force"])))
    rc, so, se = sh([unc, "-c", cfg, "-q", "-l", "C", "-f", src], cwd=tmp, timeout=20)
    os.unlink(src)
    return {"e": "Case", "id": "case|%d" % i, "file": c["file"], "o": o, "rc": rc, "out": list(so) if rc == 0 else []}


def encode(text, enc):
    codec, bom = ENC[enc]
    return bom + text.encode(codec, "surrogatepass")


def decode_out(b):
    if b[:3] == b"\xef\xbb\xbf":
        return b[3:].decode("utf-8", "surrogatepass")
    if b[:2] == b"\xff\xfe":
        return b[2:].decode("utf-16-le", "surrogatepass")
    if b[:2] == b"\xfe\xff":
        return b[2:].decode("utf-16-be", "surrogatepass")
    return b.decode("utf-8", "surrogatepass")


def _sweep_job(a):
    unc, tmp, i, enc, lo, hi, where = a
    cps = [c for c in range(lo, hi) if not (0xD800 <= c < 0xE000) and c not in (0, 10, 13, 0x2a, 0x2f, 0x5c, 0x22, 0x27, 0x3f)]
    # 64 scalars per line keeps lines short; the frame is ASCII
    lines = []
    for k in range(0, len(cps), 64):
        seg = "".join(chr(c) for c in cps[k:k + 64])
        lines.append(("/* %s */" % seg) if where == "cmt" else ('const char *s%d = "%s";' % (k, seg)))
    text = "\n".join(lines) + "\n"
    src = os.path.join(tmp, "s%d.c" % i)
    data = encode(text, enc)
    obs.write(src, data)
    rc, so, se = sh([unc, "-c", os.path.join(tmp, "sweep.cfg"), "-q", "-l", "C", "-f", src], cwd=tmp, timeout=120)
    os.unlink(src)
    mism = -1
    if rc != 0:
        mism = lo
    elif so != data:
        try:
            t2 = decode_out(so)
        except UnicodeDecodeError:
            t2 = ""
        got = [ord(c) for c in t2 if ord(c) > 0x7f or False]
        want = [c for c in cps if c > 0x7f]
        gotall = set(ord(c) for c in t2)
        mism = next((c for c in cps if c not in gotall), lo)
    return {"e": "Sweep", "id": "sweep|%s|%s|%x" % (enc, where, lo), "enc": enc, "lo": lo, "hi": hi, "where": where, "mismatch": mism}


COMMUTE_CFGS = ["", "indent_columns=3\nindent_with_tabs=0\nalign_right_cmt_span=3\ncode_width=60\ncmt_width=50\n",
                "utf8_force=true\nutf8_bom=remove\n", "utf8_force=true\nutf8_bom=add\n",
                # the comment writers take the text of a comment apart and put it together again
                "cmt_align_doxygen_javadoc_tags=true\ncmt_reflow_mode=2\ncmt_width=40\ncmt_star_cont=true\ncmt_sp_after_star_cont=1\n",
                "cmt_cpp_to_c=true\ncmt_cpp_group=true\ncmt_c_group=true\ncmt_indent_multi=true\ncmt_convert_tab_to_spaces=true\ncmt_trailing_single_line_c_to_cpp=true\n"]


def _commute_job(a):
    unc, tmp, i, jid, text, lang, ext, cfgtext = a
    cfg = os.path.join(tmp, "cm%d.cfg" % i)
    obs.write(cfg, cfgtext)
    ids = []
    want_na = [ch for ch in text if ord(ch) > 127]
    naok = True
    for enc in ("utf8", "utf8bom", "utf16le", "utf16be"):
        src = os.path.join(tmp, "cm%d_%s%s" % (i, enc, ext))
        obs.write(src, encode(text, enc))
        rc, so, se = sh([unc, "-c", cfg, "-q", "-l", lang, "-f", src], cwd=tmp, timeout=30)
        os.unlink(src)
        if rc != 0:
            ids.append("rc%d" % rc)
            continue
        try:
            t = decode_out(so)
        except UnicodeDecodeError:
            t = "<undecodable %s>" % enc
        # the encoding of the output must be the encoding of the input - unless utf8_force asks for UTF-8, where utf8_bom decides the mark
        codec, bom = ENC[enc]
        if "utf8_force=true" in cfgtext:
            want = b"\xef\xbb\xbf" if "utf8_bom=add" in cfgtext else b""
            okenc = so.startswith(want) if want else not so.startswith((b"\xef\xbb\xbf", b"\xff\xfe", b"\xfe\xff"))
        else:
            okenc = so.startswith(bom) if bom else not so.startswith((b"\xef\xbb\xbf", b"\xff\xfe", b"\xfe\xff"))
        # every character outside ASCII comes out again, in order (no option reorders or rewrites them)
        if [ch for ch in t if ord(ch) > 127] != want_na:
            naok = False
        ids.append(hashlib.sha1(t.encode("utf-8", "surrogatepass")).hexdigest()[:12] + ("" if okenc else "!enc"))
    os.unlink(cfg)
    return {"e": "Commute", "id": "commute|%s" % jid, "ids": ids, "naok": naok}


def run(ctx):
    quick = ctx.tier == "quick"
    unc = ctx.unc()
    for cfg in (["Encoding", "Encoding_opts"] + ([] if quick else ["Encoding_T"])):
        r = tlc_retry("Encoding", cfg, workers=8, timeout=1800)
        ctx.add_tlc(r)
        if r.error:
            ctx.error("%s: %s" % (cfg, r.error))
        elif r.violation:
            ctx.model_violation("Encoding", cfg, r)
    ra = tlc_retry("Encoding", "Encoding_asbuilt", workers=4, timeout=600)
    ctx.cov["asbuilt_variant_rejected"] = bool(ra.violation)
    if not ra.violation:
        ctx.error("vacuity: the decoder that accepts overlong forms satisfies NeverAltered")
    # M-gen
    d = os.path.join(ctx.work.path, "spec")
    os.makedirs(d, exist_ok=True)
    shutil.copy(os.path.join(SPEC, "Encoding.tla"), d)
    cases = []
    for name, base in (("g1", "Encoding_T" if not quick else "Encoding"), ("g2", "Encoding_opts")):
        t = open(os.path.join(SPEC, base + ".cfg")).read().replace("Emit = FALSE", "Emit = TRUE").replace(
            "INVARIANTS NeverAltered BomPolicy EmitCase", "INVARIANTS EmitCase")
        open(os.path.join(d, name + ".cfg"), "w").write(t)
        rg = tlc_retry("Encoding", name, cwd=d, workers=1, timeout=3000, xmx="8g")
        if rg.error:
            ctx.error("gen %s: %s" % (name, rg.error))
        cases += rg.emitted
    ctx.cov["cases_from_tlc"] = len(cases)
    tmp = ctx.work.sub("c09")
    for bom in ("ignore", "add", "remove", "force"):
        for by in (0, 1):
            for fo in (0, 1):
                obs.write(os.path.join(tmp, "o_%s_%d_%d.cfg" % (bom, by, fo)),
                          "utf8_bom=%s\nutf8_byte=%s\nutf8_force=%s\n" % (bom, "true" if by else "false", "true" if fo else "false"))
    obs.write(os.path.join(tmp, "sweep.cfg"), "")
    evs = pmap_proc(_case_job, [(unc, tmp, i, c) for i, c in enumerate(cases)], nproc=14)
    # scalar sweep
    blocks = [(lo, min(lo + 0x2000, 0x110000)) for lo in range(0x80, 0x110000, 0x2000)]
    blocks[0] = (0x20, 0x2000)
    if quick:
        keep = [b for k, b in enumerate(blocks) if k % 16 == ctx.seed % 16 or b[0] < 0x4000 or b[0] in (0xE000, 0x10000, 0x20000, 0x10E000)]
    else:
        keep = blocks
    sj = []
    for enc in ("utf8", "utf8bom", "utf16le", "utf16be"):
        for (lo, hi) in keep:
            for where in ("cmt", "str"):
                sj.append((unc, tmp, len(sj), enc, lo, hi, where))
    sw = pmap_proc(_sweep_job, sj, nproc=14)
    evs += sw
    ctx.cov["scalars_swept"] = sum(b[1] - b[0] for b in keep)
    ctx.cov["exhaustive_scalar_sweep"] = not quick
    # commutation with transcoding
    cj = []
    texts = []
    for lang in hazard.DENSE:
        t = hazard.DENSE[lang]
        for k, na in enumerate(NONASCII):
            t = t.replace("// c%d\n" % k, "// c%d %s\n" % (k, na), 1)
        texts.append(("dense_" + lang, t, lang, hazard.EXT[lang]))
    texts.append(("doccmt", "/**\n * Größe und 参数.\n * @param größe the size in µm\n * @param 参数, б two of them\n * @throws Ünïcode never\n * @return straße */\n"
                  "int f(int größe);\n// ж trailing\n/* ß */\n/* æ */\nint g; // ø\n", "C", ".c"))
    texts.append(("comments", "\n".join('int v%d; %s\nconst char *w%d = "%s";' % (i, c, i, NONASCII[i % len(NONASCII)]) for i, c in enumerate(COMMENTS)) + "\n", "C", ".c"))
    ins = corpus.inputs()
    ctx.rng.shuffle(ins)
    k = 0
    for c in ins:
        if k >= (40 if quick else 900):
            break
        b = open(c.inp, "rb").read()
        if len(b) > 30000 or b[:2] in (b"\xff\xfe", b"\xfe\xff"):
            continue
        try:
            t = (b[3:] if b[:3] == b"\xef\xbb\xbf" else b).decode("utf-8")
        except UnicodeDecodeError:
            continue
        if "\x00" in t:
            continue
        lang = c.lang or corpus.lang_of(c.inp)
        texts.append(("corpus|" + os.path.relpath(c.inp, os.path.join(corpus.REPO, "tests/input")), t, lang, os.path.splitext(c.inp)[1] or ".c"))
        k += 1
    for i, (jid, t, lang, ext) in enumerate(texts):
        for ci, cfgt in enumerate(COMMUTE_CFGS):
            if quick and ci in (1, 3, 5) and jid.startswith("corpus"):
                continue
            cj.append((unc, tmp, len(cj), "%s|cfg%d" % (jid, ci), t, lang, ext, cfgt))
    evs += pmap_proc(_commute_job, cj, nproc=14)
    ctx.cov["evaluations"] = len(evs)
    tp = os.path.join(ctx.work.path, "c09.ndjson")
    write_ndjson(tp, evs)
    rt = tlc_retry("EncodingTrace", "EncodingTrace", env={"TRACE": tp}, workers=1, timeout=3000, xmx="10g")
    if rt.error:
        ctx.error("EncodingTrace: " + rt.error)
    else:
        if rt.violation and rt.violation[0] == "postcondition":
            ctx.error("EncodingTrace: trace not consumed to the end")
        ctx.cov["traces_validated_against_impl"] = len(evs)
        byid = {e["id"]: e for e in evs}
        tx = {"%s|cfg%d" % (jid, ci): (t, lang, ext) for (jid, t, lang, ext) in texts for ci in (0, 1, 2, 3)}
        for rep in rt.emitted:
            e = byid[rep["id"]]
            for b in rep["bad"]:
                if e["e"] == "Case":
                    sig = "%s|file|%s|%s" % (b, bytes(e["file"]).hex(), json.dumps(e["o"], sort_keys=True))
                    ctx.violation(sig, "%s violated: file %s with options %s gives rc=%d bytes %s" % (b, bytes(e["file"]).hex(), e["o"], e["rc"], bytes(e["out"]).hex()),
                                  {"kind": "case", "file": e["file"], "o": e["o"]})
                elif e["e"] == "Sweep":
                    ctx.violation("%s|%s|%s|U+%04X" % (b, e["enc"], e["where"], e["mismatch"]),
                                  "%s violated: scalar U+%04X (block U+%04X..U+%04X, %s, in a %s) is not reproduced" % (b, e["mismatch"], e["lo"], e["hi"], e["enc"], e["where"]),
                                  {"kind": "sweep", "enc": e["enc"], "lo": e["lo"], "hi": e["hi"], "where": e["where"]})
                else:
                    key = e["id"].split("|", 1)[1]
                    t, lang, ext = tx.get(key, ("", "C", ".c"))
                    ctx.violation("%s|%s" % (b, key), "%s violated for %s: decoded outputs per encoding %s" % (b, key, e["ids"]),
                                  {"kind": "commute", "text": t, "lang": lang, "ext": ext, "cfg": key.rsplit("|", 1)[-1]})
            for dn in rep["drift"]:
                ctx.drift.append({"module": "Encoding", "kind": dn, "id": rep["id"], "file": bytes(e.get("file", [])).hex(), "o": e.get("o"), "rc": e.get("rc"),
                                  "out": bytes(e.get("out", [])).hex()})
    ctx.cov["distinct_nontrivial"] = len({(tuple(c["file"]), json.dumps(c["o"], sort_keys=True)) for c in cases if len(c["payload"]) > 0}) + len(sw) + len(cj)
    ctx.cov["rule"] = ("Encoding.tla: every payload <= %d bytes over a 20-byte alphabet x 6 encoding forms (and every option triple for payloads <= 1) "
                       "model-checked and emitted; each emitted file is given to the binary and its bytes compared with the model's prediction; "
                       "scalar sweep over %s Unicode scalars x 4 encodings x {comment, string}; transcoding commutation over dense programs, comment "
                       "shapes and corpus files; non-trivial = non-empty payload, sweep block, or commutation set" % (2 if quick else 3, "all 1,112,064" if not quick else "a seeded 1/16 of the"))
    if cases:
        c = cases[len(cases) // 3]
        ctx.sample({"file": bytes(c["file"]).hex(), "form": c["form"], "options": c["o"], "predicted": c["status"], "out": bytes(c["out"]).hex()})
    ctx.assumptions += ["the frame '/* ... */' and the payload alphabet avoid CR, LF, '*' and '/' so that formatting is the identity on the generated files",
                        "decoding of outputs for the commutation law uses Python's codecs (surrogatepass)"]


def replay(path):
    from ..common import build
    import tempfile
    r = json.load(open(path))
    if r.get("kind") == "model":
        print(r.get("tlc_tail", ""))
        return 1
    unc = build("plain")
    d = tempfile.mkdtemp(prefix="c09replay")
    try:
        if r["kind"] == "case":
            src = os.path.join(d, "e.c")
            obs.write(src, bytes(r["file"]))
            o = r["o"]
            rc, so, se = sh([unc, "-c", "-", "-q", "--set", "utf8_bom=" + o["bom"], "--set", "utf8_byte=%s" % str(o["byte"]).lower(),
                             "--set", "utf8_force=%s" % str(o["force"]).lower(), "-l", "C", "-f", src])
            print("input bytes :", bytes(r["file"]).hex())
            print("output bytes:", so.hex(), "rc=%d" % rc)
            return 1
        if r["kind"] == "sweep":
            ev = _sweep_job((unc, d, 0, r["enc"], r["lo"], r["hi"], r["where"]))
            obs.write(os.path.join(d, "sweep.cfg"), "")
            print(ev)
            return 0 if ev["mismatch"] == -1 else 1
        ev = _commute_job((unc, d, 0, "replay", r["text"], r["lang"], r["ext"], COMMUTE_CFGS[int(r["cfg"][3:])]))
        print(ev)
        return 0 if len(set(ev["ids"])) == 1 and ev["naok"] else 1
    finally:
        shutil.rmtree(d, ignore_errors=True)
