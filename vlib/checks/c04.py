"""C04 - code-modifying options change only the tokens they name.  Mods.tla + ModsTrace.tla."""
import json
import os
import shutil

from .. import lex, obs, corpus, cfggen, hazard
from ..common import pmap_proc, tlc_retry, write_ndjson, sh, SPEC
from . import pipeline_engine as pe

LEVEL = "model_checking"
EXT = {"C": ".c", "CPP": ".cpp", "JAVA": ".java", "CS": ".cs", "OC": ".m"}
BRACE_CFG = "mod_full_brace_if=remove\nmod_full_brace_for=remove\nmod_full_brace_while=remove\nmod_full_brace_do=remove\n"
MODPROG = {
    "C": """#include "b.h"
#include "a.h"
#include "b.h"
#include <z.h>
#include HDR(a)
#include HDR(b)
unsigned int u1; unsigned u2; long int l1; long l2; short int s1; short s2; signed int g1; signed g2;
enum e1 { A, B, };
enum e2 { C, D };
static int t[] = { 1, 2, };
void v(void) { return; }
int f(int a, int b)
{
    int x = a;;
    for (;;) { if (x) break; }
    while (1) { x++; if (x > 3) break; }
    do { x--; } while (true);
    if (a) { x = 1; } else { x = 2; }
    if (a) x = 1; else if (b) { x = 2; x = 3; } else x = 4;
    if (a && b || x) x = a == b;
    switch (x) {
    case 1: { x = 2; } break;
    case 2: x = 3; break;
    case 3: { x = 4; break; }
    default: break;
    };
    return a + b;
}
int g(int a) { if (a) { for (;;) { while (a--) { if (a) a++; } } } else a = 0; return (a); };
""",
    "CPP": """#include HDR(a)
#include HDR(b)
#include "b.h"
#include "a.h"
#include "b.h"
using namespace z; using namespace a;
namespace outer { namespace inner { class C { public: int f() { return 1; }; int m; }; } }
int h(int a) try { if (a) { throw a; } return a + 1; } catch (...) { return (0); }
void w(int k) { switch (k) { case 1: { k++; } break; default: { k--; break; } } for (;;) { if (k) { break; } } while (true) { k--; if (!k) break; } }
bool b(int a, int c) { bool r = a == c; return a < c && r; }
int lam(int x) { return [x]() { note(x); return x + 1; }(); }
int lam2(int x) { auto f = [&](int y) { if (y) { return y; } return -y; }; throw [x] { return x; }(); }
unsigned int u1; unsigned u2; long int l1; long l2;
enum E { A, B, };
""",
    "CS": """using Z; using A.B; using A; using M; using A.C;
namespace N { class C { int F(int a) { if (a > 0) { return 1; } else return 2; } void G() { for (;;) { break; } ; } } }
""",
    "OC": """#import "b.h"
#import "a.h"
@interface A : NSObject
@property () int z;
@property (nonatomic, assign) int y;
@property (readonly, getter=isX, nonatomic) BOOL x;
@property int w;
- (int)f:(int)a;
@end
@implementation A
- (int)f:(int)a { if (a) { return 1; } else return 2; }
@end
""",
    "JAVA": """import z.Z; import a.A; import a.B; import m.M; import a.b.C;
class C { int f(int a) { if (a > 0) { return 1; } else return 2; } void g() { for (;;) { break; } ; while (true) { break; } }
  Runnable h() { return new Runnable() { public void run() { note(1); } }; } }
""",
}


def paren_zoo(lang):
    """comparisons followed by ?: / && / || / , inside every bracket kind, in every context the parenthesis options look at
    (return, assignment, condition, argument): what mod_full_paren_* adds must nest with the brackets that are there"""
    inner = ["a == b ? 0 : 1", "a < b && b < c", "a != b || c", "(a == b, c)", "!a == b ? c : 0", "a >= b ? (c == a ? 1 : 2) : 3"]
    br = [("t[", "]"), ("g2(", ")"), ("t[g2(", ")]"), ("g2(t[", "])")]
    if lang == "C":
        br += [("(int[]){ ", " }[0]"), ("(struct q){ ", " }.m")]
    else:
        br += [("std::array<int, 2>{ ", " }[0]"), ("q{ ", " }.m"), ("vv<(", ")>::k"), ("[=] { return ", "; }()"), ("[=](int z) { return z + (", "); }(1)")]
    ctxs = ["if (c) return %s;", "x = %s;", "x = 1 + %s + 2;", "if (%s) x = 1;", "x = y ? %s : 0;", "while (%s) break;", "h2(%s, 1);", "int d%d = %s;", "x += %s;"]
    out = ["int pz(int a, int b, int c, int x, int y, int *t)", "{"]
    n = 0
    for e in inner:
        for o, c_ in br:
            for cx in ctxs:
                n += 1
                ex = o + e + c_
                out.append("    " + (cx % ((n, ex) if "%d" in cx else ex)))
    out += ["    return x;", "}"]
    return "\n".join(out) + "\n"


MODPROG["C"] += paren_zoo("C")
MODPROG["CPP"] += paren_zoo("CPP")


# brace options other than plain removal: the same trees, judged for MeaningKept / OnlyNamedKinds / Balanced only
TREE_CFGS = {
    "chain1": "mod_full_brace_if_chain=1\n",
    "chain1ml": "mod_full_brace_if_chain=1\nmod_full_brace_nl_block_rem_mlcond=true\n",
    "chain2ml": "mod_full_brace_if_chain=2\nmod_full_brace_nl_block_rem_mlcond=true\n",
    "chain3": "mod_full_brace_if_chain=3\nmod_full_brace_for=remove\nmod_full_brace_while=remove\n",
    "chain3ml": "mod_full_brace_if_chain=3\nmod_full_brace_nl_block_rem_mlcond=true\nmod_full_brace_while=remove\n",
    "removeml": BRACE_CFG + "mod_full_brace_nl_block_rem_mlcond=true\n",
    "nl2": BRACE_CFG + "mod_full_brace_nl=2\n",
    "nl3chain": "mod_full_brace_if_chain=1\nmod_full_brace_nl=3\nmod_full_brace_for=remove\n",
    "add": "mod_full_brace_if=add\nmod_full_brace_for=add\nmod_full_brace_while=add\n",
    "force_chainonly": "mod_full_brace_if=force\nmod_full_brace_if_chain_only=true\nmod_full_brace_if_chain=1\n",
}
ML = {"flat": lambda k: False, "all": lambda k: True, "odd": lambda k: k % 2 == 1, "even": lambda k: k % 2 == 0}


def render_tree(tokens, ml="flat"):
    """abstract tokens -> C function body; unique operands so that the abstraction back is unambiguous.  ml selects the
    heads ('if' / loop conditions) that are written over two lines (mod_full_brace_nl_block_rem_mlcond looks at that)"""
    out = ["int t(int a0)", "{"]
    n = 0
    heads = 0
    for t in tokens:
        n += 1
        if t in ("I", "L"):
            heads += 1
        br = "\n        " if ML[ml](heads) else " "
        if t == "I":
            out.append("if (a%d >%s%d)" % (n, br, n))
        elif t == "E":
            out.append("else")
        elif t == "L":
            out.append("while (n%d >%s--m%d)" % (n, br, n) if n % 2 else "for (i%d = 0; i%d <%s%d; i%d++)" % (n, n, br, n, n))
        elif t == "S":
            out.append("x%d++;" % n)
        else:
            out.append(t)
    out += ["return a0;", "}"]
    return "\n".join(out) + "\n"


def abstract(text):
    """formatted C text of a rendered tree -> abstract tokens (the inverse of render_tree)"""
    toks = [t for t in lex.token_stream(lex.lex(text, "C"), with_pp=False)]
    # drop the wrapper: 'int t ( int a0 ) {' ... 'return a0 ; }'
    try:
        i0 = toks.index("{") + 1
        i1 = len(toks) - 1 - toks[::-1].index("return")
    except ValueError:
        return ["?"]
    body = toks[i0:i1]
    out = []
    i = 0
    while i < len(body):
        t = body[i]
        if t in ("if", "while", "for"):
            # skip the parenthesised head
            d = 0
            j = i + 1
            while j < len(body):
                if body[j] == "(":
                    d += 1
                elif body[j] == ")":
                    d -= 1
                    if d == 0:
                        break
                j += 1
            out.append("I" if t == "if" else "L")
            i = j + 1
        elif t == "else":
            out.append("E")
            i += 1
        elif t in ("{", "}"):
            out.append(t)
            i += 1
        elif t.startswith("x") and body[i + 1:i + 3] == ["++", ";"]:
            out.append("S")
            i += 3
        else:
            out.append("?" + t)
            i += 1
    return out


def _tree_job(a):
    unc, tmp, i, tr, cname, ml = a
    src = os.path.join(tmp, "t%d.c" % i)
    obs.write(src, render_tree(tr["tokens"], ml))
    rc, so, se = sh([unc, "-c", os.path.join(tmp, cname + ".cfg"), "-q", "-l", "C", "-f", src], cwd=tmp, timeout=20)
    os.unlink(src)
    ab = abstract(obs.decode(so)) if rc == 0 else []
    return {"e": "Tree", "id": "tree|%d" % i, "rc": rc, "tokens": tr["tokens"], "after": tr["after"] if tr["after"] is not None else ab, "abs": ab,
            "cfg": cname, "ml": ml}


def mod_settings(cfg_text):
    mods, sorting = [], False
    for name, v, line in pe.cfg_settings(cfg_text):
        if name.startswith("mod_") and v not in pe.OFF:
            mods.append(name)
            if name.startswith("mod_sort_"):
                sorting = True
    return mods, sorting


def balanced(toks):
    """Mods!BalancedSeq for long sequences"""
    st = []
    pair = {")": "(", "]": "[", "}": "{"}
    for t in toks:
        if t in ("(", "[", "{"):
            st.append(t)
        elif t in pair:
            # pairs nest: a closer closes the innermost open bracket OF ITS OWN KIND ('( { ) }' is not balanced)
            if not st or st[-1] != pair[t]:
                return False
            st.pop()
    return not st


def _file_job(a):
    unc, tmp, i, (jid, src, cfg, cfg_text, lang) = a
    if cfg is None:
        cfg = os.path.join(tmp, "m%d.cfg" % i)
        obs.write(cfg, cfg_text)
    else:
        cfg_text = open(cfg, errors="replace").read()
    rc, so, se = sh([unc, "-c", cfg, "-q", "-l", lang, "-f", src], cwd=tmp, timeout=20)
    mods, sorting = mod_settings(cfg_text)
    ev = {"e": "File", "id": jid, "rc": rc, "mods": mods, "sorting": sorting or "mod_remove_duplicate_include" in mods, "tin": [], "tout": [],
          "lines_in": [], "lines_out": [], "bal_in": True, "bal_out": True}
    if rc == 0:
        a_ = lex.lex(obs.decode(open(src, "rb").read()), lang)
        b_ = lex.lex(obs.decode(so), lang)
        ev["tin"], ev["tout"] = lex.token_stream(a_), lex.token_stream(b_)
        ev["bal_in"], ev["bal_out"] = balanced(ev["tin"]), balanced(ev["tout"])
        if ev["sorting"]:
            # sorting options permute whole lines: the multiset of tokens is unchanged; duplicate-include removal drops
            # include directives whose header already occurred: the set of headers is unchanged
            def strip_includes(toks):
                out, hdrs = [], []
                i = 0
                while i < len(toks):
                    if toks[i] == "<PP>" and toks[i + 1:i + 3] in (["#", "include"], ["#", "import"]):
                        j = i
                        while j < len(toks) and toks[j] != "</PP>":
                            j += 1
                        hdrs.append(" ".join(toks[i + 3:j]))
                        i = j + 1
                        continue
                    out.append(toks[i])
                    i += 1
                return out, hdrs
            # (sorting.cpp: mod_sort_incl_import_grouping_enabled runs dedupe_imports() on every sorted group as well)
            if "mod_remove_duplicate_include" in mods or "mod_sort_incl_import_grouping_enabled" in mods:
                ti, hi = strip_includes(ev["tin"])
                to, ho = strip_includes(ev["tout"])
                li, lo = sorted(ti) + sorted(set(hi)), sorted(to) + sorted(set(ho))
            else:
                li, lo = sorted(ev["tin"]), sorted(ev["tout"])
            # other enabled mods may add / remove tokens as well: then only the order-insensitive part outside their kinds is compared by OrderKept
            if len(mods) > sum(1 for m in mods if m.startswith("mod_sort_") or m == "mod_remove_duplicate_include"):
                li, lo = [], []
            ev["lines_in"], ev["lines_out"] = li, lo
    return ev, (jid, src, cfg, cfg_text, lang)


def mod_options(unc):
    return [o for o in cfggen.registry(unc) if o["name"].startswith("mod_") and o["kind"] != "string"]


def run(ctx):
    quick = ctx.tier == "quick"
    unc = ctx.unc()
    r = tlc_retry("Mods", "Mods" if quick else "Mods_T", workers=12, timeout=1500, xmx="10g")
    ctx.add_tlc(r)
    if r.error:
        ctx.error("Mods: " + r.error)
    elif r.violation:
        ctx.model_violation("Mods", "Mods", r)
    rv = tlc_retry("Mods", "Mods_skipone", workers=12, timeout=900, xmx="10g")
    ctx.cov["variant_rejected"] = {"only one virtual closing brace skipped before 'else'": bool(rv.violation)}
    if not rv.violation:
        ctx.error("vacuity: the skip-one variant preserves meaning")
    rv2 = tlc_retry("Mods", "Mods_noifguard", workers=12, timeout=900, xmx="10g")
    ctx.cov["variant_rejected"]["no 'if in the body, else behind the brace' clause"] = bool(rv2.violation)
    if not rv2.violation:
        ctx.error("vacuity: removing braces without the if/else clause preserves meaning")
    # M-gen: trees -> programs
    d = os.path.join(ctx.work.path, "spec")
    os.makedirs(d, exist_ok=True)
    shutil.copy(os.path.join(SPEC, "Mods.tla"), d)
    open(os.path.join(d, "ModsGen.cfg"), "w").write("SPECIFICATION Spec\nCONSTANTS\n  Depth = %d\n  ChainDepth = %d\n  SkipAllVClose = TRUE\n  IfGuard = TRUE\n  Emit = TRUE\n"
                                                    "INVARIANTS EmitTree\nCHECK_DEADLOCK FALSE\n" % ((2, 3) if quick else (2, 4)))
    rg = tlc_retry("Mods", "ModsGen", cwd=d, workers=1, timeout=3000, xmx="10g")
    if rg.error:
        ctx.error("ModsGen: " + rg.error)
    trees = rg.emitted
    ctx.cov["trees_from_tlc"] = len(trees)
    # the sensitivity set of the 'skip every virtual close before else' clause, computed by TLC at depth 4
    open(os.path.join(d, "ModsHaz.cfg"), "w").write("SPECIFICATION Spec\nCONSTANTS\n  Depth = 1\n  ChainDepth = 4\n  SkipAllVClose = FALSE\n  IfGuard = TRUE\n  Emit = TRUE\n"
                                                    "INVARIANTS EmitHazard\nCHECK_DEADLOCK FALSE\n")
    rh = tlc_retry("Mods", "ModsHaz", cwd=d, workers=1, timeout=1500, xmx="10g")
    if rh.error:
        ctx.error("ModsHaz: " + rh.error)
    hazard_trees = rh.emitted
    # the sensitivity set of the 'an if in the body and an else behind the brace' clause (what the if-chain pass lacked)
    open(os.path.join(d, "ModsHaz2.cfg"), "w").write("SPECIFICATION Spec\nCONSTANTS\n  Depth = 1\n  ChainDepth = 4\n  SkipAllVClose = TRUE\n  IfGuard = FALSE\n  Emit = TRUE\n"
                                                     "INVARIANTS EmitHazard\nCHECK_DEADLOCK FALSE\n")
    rh2 = tlc_retry("Mods", "ModsHaz2", cwd=d, workers=1, timeout=1500, xmx="10g")
    if rh2.error:
        ctx.error("ModsHaz2: " + rh2.error)
    ifguard_trees = rh2.emitted
    ctx.cov["ifguard_hazard_trees_from_tlc"] = len(ifguard_trees)
    ctx.cov["hazard_trees_from_tlc"] = len(hazard_trees)
    if quick:
        ctx.rng.shuffle(trees)
        # every tree whose braces the model removes somewhere, and a slice of the rest
        ch = [t for t in trees if t["tokens"] != t["after"]]
        trees = ch[:1500] + [t for t in trees if t["tokens"] == t["after"]][:300]
    # for hazard trees the prediction of the removed braces is not emitted (the weakened model's is wrong by construction)
    ctx.rng.shuffle(hazard_trees)
    trees = trees + [dict(t, after=None) for t in hazard_trees[:400 if quick else 100000]]
    tmp = ctx.work.sub("c04")
    obs.write(os.path.join(tmp, "brace.cfg"), BRACE_CFG + "nl_max=0\n")
    for cn, ct in TREE_CFGS.items():
        obs.write(os.path.join(tmp, cn + ".cfg"), ct)
    tjobs = [(unc, tmp, i, t, "brace", "flat") for i, t in enumerate(trees)]
    # the if/else clause is needed by every pass that removes braces: its sensitivity set under every brace option family
    ctx.rng.shuffle(ifguard_trees)
    for t in ifguard_trees[:250 if quick else 100000]:
        for cn in ["brace"] + sorted(TREE_CFGS):
            tjobs.append((unc, tmp, len(tjobs), dict(t, after=None), cn, "flat"))
    # the other brace options x conditions written over two lines: trees with at least two heads
    nested = [t for t in trees if sum(1 for x in t["tokens"] if x in ("I", "L")) >= 2]
    ctx.rng.shuffle(nested)
    for t in nested[:500 if quick else 6000]:
        for cn in TREE_CFGS:
            for ml in (("odd", "even") if quick else ("flat", "all", "odd", "even")):
                tjobs.append((unc, tmp, len(tjobs), dict(t, after=None), cn, ml))
    for ml in ("all", "odd", "even"):
        for t in nested[:300 if quick else 3000]:
            tjobs.append((unc, tmp, len(tjobs), dict(t, after=None), "brace", ml))
    tjobs = [(a_[0], a_[1], k, a_[3], a_[4], a_[5]) for k, a_ in enumerate(tjobs)]
    ctx.cov["tree_option_families"] = ["brace"] + sorted(TREE_CFGS)
    evs = pmap_proc(_tree_job, tjobs, nproc=14)
    # files x mod configurations
    jobs = []
    mo = mod_options(unc)
    progs = []
    for lang, t in MODPROG.items():
        p = os.path.join(tmp, "modprog%s" % EXT[lang])
        obs.write(p, t)
        progs.append((p, lang))
    for lang in ("C", "CPP"):
        p = os.path.join(tmp, "dense%s" % EXT[lang])
        obs.write(p, hazard.DENSE[lang])
        progs.append((p, lang))
    import itertools
    for o in mo:
        vals = {"bool": ["true"], "iarf": ["add", "remove", "force"]}.get(o["kind"], ["1", "2", "5"])
        for v in vals:
            for (p, lang) in progs:
                jobs.append(("one|%s=%s|%s" % (o["name"], v, os.path.basename(p)), p, None, "%s=%s\n" % (o["name"], v), lang))
    # the sorters with every pair of their modifiers (grouping runs a pass of its own over the sorted lines)
    sorters = "mod_sort_include=true\nmod_sort_import=true\nmod_sort_using=true\n"
    modifiers = [o["name"] for o in mo if o["kind"] == "bool" and (o["name"].startswith("mod_sort_") or o["name"] == "mod_remove_duplicate_include")
                 and o["name"] not in ("mod_sort_include", "mod_sort_import", "mod_sort_using")]
    for sub in [()] + [(m,) for m in modifiers] + list(itertools.combinations(modifiers, 2)):
        for (p, lang) in progs:
            if os.path.basename(p).startswith("modprog"):
                jobs.append(("sort|%s|%s" % ("+".join(sub), os.path.basename(p)), p, None, sorters + "".join("%s=true\n" % m for m in sub), lang))
    for k in range(60 if quick else 600):
        sel = ctx.rng.sample(mo, ctx.rng.choice([2, 3, 5]))
        txt = "".join("%s=%s\n" % (o["name"], cfggen.value(ctx.rng, o)) for o in sel)
        if ctx.rng.random() < 0.5:
            txt += cfggen.random_ws_config(ctx.rng, unc, n=8)
        p, lang = ctx.rng.choice(progs)
        jobs.append(("combo|%d|%s" % (k, os.path.basename(p)), p, None, txt, lang))
    cs = [c for c in corpus.cases() if not corpus.is_whitespace_only_cfg(c.cfg) and (c.lang or corpus.lang_of(c.inp)) in EXT]
    ctx.rng.shuffle(cs)
    for c in cs[:120 if quick else 100000]:
        txt = open(c.cfg, errors="replace").read()
        if any(n_.startswith(("cmt_insert", "disable_processing", "enable_processing", "tok_split", "pp_", "set", "type", "macro-", "string_replace_tab_chars"))
               for n_, v_, l_ in pe.cfg_settings(txt)):
            continue
        if b"\x00" in open(c.inp, "rb").read(4096):
            continue
        jobs.append(("corpus|%s|%s" % (os.path.basename(c.cfg), os.path.relpath(c.inp, os.path.join(corpus.REPO, "tests/input"))), c.inp, c.cfg, None,
                     c.lang or corpus.lang_of(c.inp)))
    fres = pmap_proc(_file_job, [(unc, tmp, i, j) for i, j in enumerate(jobs)], nproc=14)
    fevs = [e for e, j in fres]
    # the generated programs are valid: a run that refuses one judges nothing (that is how 'y ? t[a ? 0 : 1] : 0' went unnoticed)
    refused = sorted({e["id"] for e in fevs if e["rc"] != 0 and e["id"].split("|")[0] in ("one", "sort") and "modprog" in e["id"]})
    ctx.cov["generated_program_runs_refused"] = len(refused)
    if refused:
        ctx.error("vacuity: uncrustify refuses a generated (valid) program under a single mod_ option: %s" % ", ".join(refused[:5]))
    allev = evs + fevs
    ctx.cov["evaluations"] = len(allev)
    ctx.cov["tree_programs_run"] = len(evs)
    ctx.cov["file_runs"] = len(fevs)
    tp = os.path.join(ctx.work.path, "c04.ndjson")
    write_ndjson(tp, allev)
    rt = tlc_retry("ModsTrace", "ModsTrace", env={"TRACE": tp}, workers=1, timeout=3000, xmx="10g")
    if rt.error:
        ctx.error("ModsTrace: " + rt.error)
    else:
        if rt.violation and rt.violation[0] == "postcondition":
            ctx.error("ModsTrace: trace not consumed to the end")
        ctx.cov["traces_validated_against_impl"] = len(allev)
        byid = {e["id"]: e for e in allev}
        fj = {j[0]: j for e, j in fres}
        for rep in rt.emitted:
            e = byid[rep["id"]]
            for b in rep["bad"]:
                if e["e"] == "Tree":
                    ctx.violation("%s|tree|%s|%s|%s" % (b, "".join(e["tokens"]), e["cfg"], e["ml"]),
                                  "%s violated: statement tree %s (options %s, conditions on two lines: %s) comes out as %s (model: %s)" % (
                        b, " ".join(e["tokens"]), e["cfg"], e["ml"], " ".join(e["abs"]), " ".join(e["after"])),
                        {"kind": "tree", "tokens": e["tokens"], "cfg": e["cfg"], "ml": e["ml"]})
                else:
                    jid, src, cfg, cfg_text, lang = fj[e["id"]]
                    k, x, y = pe.first_diff(e["tin"], e["tout"])
                    ctx.violation("%s|%s" % (b, jid), "%s violated for %s with %s: tokens ... %s -> %s" % (b, jid, e["mods"], x, y),
                                  {"kind": "file", "src": src, "lang": lang, "cfg_text": cfg_text, "src_bytes": open(src, "rb").read()[:200000]})
            for dn in rep["drift"]:
                ctx.drift.append({"module": "Mods", "kind": dn, "tokens": " ".join(e["tokens"]), "observed": " ".join(e["abs"]), "model": " ".join(e["after"])})
    ctx.cov["distinct_nontrivial"] = len({tuple(e["tokens"]) for e in evs if e["rc"] == 0 and e["tokens"] != e["abs"]}) + \
        len({(e["id"]) for e in fevs if e["rc"] == 0 and e["tin"] != e["tout"]})
    ctx.cov["rule"] = ("Mods.tla: examine_brace() transcribed; all statement trees of depth <= 2 and all spine trees of depth <= %d checked for "
                       "MeaningKept / OnlyBracesGo, the skip-one variant rejected; every emitted tree is rendered to C and run with the brace "
                       "removing options, the output abstracted back and judged (and compared with the braces the model removes); programs that "
                       "exercise every mod_ option x each value singly, seeded combinations, and corpus pairs with mod configurations are judged "
                       "for OnlyNamedKinds / OrderKept / Balanced; non-trivial = run in which tokens actually changed" % (3 if quick else 4))
    for e in evs[:1]:
        ctx.sample({"tree": " ".join(e["tokens"]), "output": " ".join(e["abs"])})
    ctx.assumptions += ["which token kinds an option may add or remove is the table ModKinds / ModClass in Mods.tla",
                        "sorting options and duplicate-include removal are judged on whole lines",
                        "corpus configurations that insert files or redefine the lexer are skipped"]


def replay(path):
    from ..common import build
    import tempfile
    r = json.load(open(path))
    if r.get("kind") == "model":
        print(r.get("tlc_tail", ""))
        return 1
    unc = build("plain")
    d = tempfile.mkdtemp(prefix="c04replay")
    try:
        if r["kind"] == "tree":
            src = os.path.join(d, "t.c")
            obs.write(src, render_tree(r["tokens"], r.get("ml", "flat")))
            obs.write(os.path.join(d, "brace.cfg"), TREE_CFGS.get(r.get("cfg", "brace"), BRACE_CFG))
            rc, so, se = sh([unc, "-c", os.path.join(d, "brace.cfg"), "-q", "-l", "C", "-f", src])
            print(open(src).read())
            print("---- formatted (rc=%d)" % rc)
            print(so.decode())
            return 1
        src = os.path.join(d, os.path.basename(r["src"]))
        b = r["src_bytes"]
        obs.write(src, b.encode("latin-1") if isinstance(b, str) else b)
        cfg = os.path.join(d, "r.cfg")
        obs.write(cfg, r["cfg_text"])
        ev, j = _file_job((unc, d, 0, ("replay", src, cfg, None, r["lang"])))
        k, x, y = pe.first_diff(ev["tin"], ev["tout"])
        print("mods:", ev["mods"])
        print("tokens in : ...", x)
        print("tokens out: ...", y)
        return 1
    finally:
        shutil.rmtree(d, ignore_errors=True)
