"""Shared infrastructure: paths, build, subprocess helpers, TLC runner, evidence,
known findings.  Nothing in here decides a property; it builds, runs, projects and
records (DESIGN.md R1)."""
import fcntl
import hashlib
import json
import os
import random
import re
import shutil
import subprocess
import sys
import time

ROOT = os.path.dirname(os.path.dirname(os.path.abspath(__file__)))
REPO = os.environ.get("VERIF_REPO", "/repo")
SPEC = os.path.join(ROOT, "spec")
# VERIF_BUILD / VERIF_EVID / VERIF_REPLAY: only bin/try_mutant sets them, to run a check against a scratch tree next to other runs
BUILD = os.environ.get("VERIF_BUILD") or os.path.join(ROOT, ".build")
WORK = os.path.join(ROOT, ".work")
EVID = os.environ.get("VERIF_EVID") or os.path.join(ROOT, "evidence")
REPLAY = os.environ.get("VERIF_REPLAY") or os.path.join(ROOT, "replay")
NCPU = os.cpu_count() or 4
JAVA_CP = "/opt/veriftools/tla/tla2tools.jar:/opt/veriftools/tla/CommunityModules-deps.jar"


def log(*a):
    print(*a, file=sys.stderr, flush=True)


def sh(cmd, timeout=60, env=None, cwd=None, input=None, check=False):
    """Run a command; returns (rc, stdout bytes, stderr bytes). rc=-9 on timeout."""
    e = dict(os.environ)
    if env:
        e.update(env)
    try:
        p = subprocess.run(cmd, input=input, stdout=subprocess.PIPE, stderr=subprocess.PIPE,
                           timeout=timeout, env=e, cwd=cwd)
        rc = p.returncode
        out, err = p.stdout, p.stderr
    except subprocess.TimeoutExpired as ex:
        rc, out, err = -999, ex.stdout or b"", ex.stderr or b""
    if check and rc != 0:
        raise RuntimeError("command failed rc=%s: %s\n%s" % (rc, cmd, err.decode("latin-1")[-2000:]))
    return rc, out, err


# ---------------------------------------------------------------------------------
# build

def build(kind="hooks"):
    """Incremental build of /repo's working tree into /verif/.build/<kind>.
    hooks: -DUNC_VERIF, Release.  asan: clang ASan+UBSan with hooks."""
    os.makedirs(BUILD, exist_ok=True)
    bdir = os.path.join(BUILD, kind)
    lock = open(os.path.join(BUILD, kind + ".lock"), "w")
    fcntl.flock(lock, fcntl.LOCK_EX)
    try:
        flags = "-DUNC_VERIF -Wno-error"
        extra = []
        if kind == "asan":
            flags += " -fsanitize=address,undefined -fno-sanitize-recover=undefined -fno-omit-frame-pointer -O1"
            extra = ["-DCMAKE_CXX_COMPILER=clang++", "-DCMAKE_C_COMPILER=clang"]
        if kind == "plain":
            flags = "-Wno-error"
        if not os.path.exists(os.path.join(bdir, "build.ninja")):
            sh(["cmake", "-G", "Ninja", "-S", REPO, "-B", bdir, "-DCMAKE_BUILD_TYPE=Release",
                "-DNoGitVersionString=ON", "-DCMAKE_CXX_FLAGS=" + flags] + extra, timeout=300, check=True)
        rc, out, err = sh(["ninja", "-C", bdir, "uncrustify"], timeout=1500)
        if rc != 0:
            # one retry from scratch (stale cache after a tree swap)
            shutil.rmtree(bdir, ignore_errors=True)
            sh(["cmake", "-G", "Ninja", "-S", REPO, "-B", bdir, "-DCMAKE_BUILD_TYPE=Release",
                "-DNoGitVersionString=ON", "-DCMAKE_CXX_FLAGS=" + flags] + extra, timeout=300, check=True)
            rc, out, err = sh(["ninja", "-C", bdir, "uncrustify"], timeout=1500)
            if rc != 0:
                log(out.decode("latin-1")[-3000:])
                raise RuntimeError("build of /repo failed")
    finally:
        fcntl.flock(lock, fcntl.LOCK_UN)
        lock.close()
    return os.path.join(bdir, "uncrustify")


# ---------------------------------------------------------------------------------
# work dirs

class Work:
    def __init__(self, name):
        os.makedirs(WORK, exist_ok=True)
        self.path = os.path.join(WORK, "%s-%d" % (name, os.getpid()))
        shutil.rmtree(self.path, ignore_errors=True)
        os.makedirs(self.path)
        self.n = 0

    def sub(self, name=None):
        self.n += 1
        p = os.path.join(self.path, name or ("d%06d" % self.n))
        os.makedirs(p, exist_ok=True)
        return p

    def cleanup(self):
        shutil.rmtree(self.path, ignore_errors=True)


# ---------------------------------------------------------------------------------
# TLC

class TlcResult:
    def __init__(self):
        self.rc = None
        self.raw = ""
        self.generated = 0
        self.distinct = 0
        self.diameter = 0
        self.emitted = []          # JSON values printed by the spec with the @@ marker
        self.violation = None      # (kind, name) kind in invariant/property/postcondition/deadlock/assert
        self.error = None          # infrastructure / parse error text
        self.coverage = {}         # action name -> (taken, generated)
        self.final_state = None    # text of the last state of an error trace
        self.wall = 0.0

    @property
    def ok(self):
        return self.error is None and self.violation is None


_RE_STATES = re.compile(r"(\d+) states generated, (\d+) distinct states found")
_RE_DEPTH = re.compile(r"The depth of the complete state graph search is (\d+)")
_RE_COV = re.compile(r"^<(\w+) line \d+, col \d+ to line \d+, col \d+ of module (\w+)>: (\d+):(\d+)")


def tlc(module, cfg=None, env=None, workers="auto", simulate=None, depth=None, seed=None,
        timeout=600, coverage=False, deadlock=None, extra=None, xmx="6g", dfs=False, metaroot=None,
        dump=None, cwd=None):
    """Run TLC on SPEC/<module>.tla with SPEC/<cfg>.cfg.  Returns TlcResult.
    Emission protocol: the spec prints strings that start with '@@' followed by JSON."""
    r = TlcResult()
    t0 = time.time()
    meta = os.path.join(metaroot or WORK, "tlcmeta-%d-%d" % (os.getpid(), random.randrange(1 << 30)))
    os.makedirs(meta, exist_ok=True)
    jopts = ["-XX:+UseParallelGC", "-Xmx" + xmx, "-Xss128m"]
    if dfs:
        jopts.append("-Dtlc2.tool.queue.IStateQueue=StateDeque")
    cmd = ["java"] + jopts + ["-cp", JAVA_CP, "tlc2.TLC", "-metadir", meta, "-nowarning", "-noGenerateSpecTE"]
    cmd += ["-workers", str(workers)]
    if cfg:
        cmd += ["-config", cfg if cfg.endswith(".cfg") else cfg + ".cfg"]
    if simulate is not None:
        cmd += ["-simulate", "num=%d" % simulate]
    if depth is not None:
        cmd += ["-depth", str(depth)]
    if seed is not None:
        cmd += ["-seed", str(seed)]
    if coverage:
        cmd += ["-coverage", "1"]
    if deadlock is False:
        cmd += ["-deadlock"]
    if dump:
        cmd += ["-dump", "dot,actionlabels", dump]
    if extra:
        cmd += extra
    cmd += [module if module.endswith(".tla") else module + ".tla"]
    rc, out, err = sh(cmd, timeout=timeout, env=env, cwd=cwd or SPEC)
    shutil.rmtree(meta, ignore_errors=True)
    r.rc = rc
    text = out.decode("utf-8", "replace")
    r.raw = text
    r.wall = time.time() - t0
    for line in text.split("\n"):
        if line.startswith('"@@'):
            try:
                s = json.loads(line)
                r.emitted.append(json.loads(s[2:]))
            except Exception as ex:  # pragma: no cover
                r.error = "cannot parse emitted line: %r (%s)" % (line[:200], ex)
            continue
        m = _RE_STATES.search(line)
        if m:
            r.generated, r.distinct = int(m.group(1)), int(m.group(2))
        m = _RE_DEPTH.search(line)
        if m:
            r.diameter = int(m.group(1))
        m = _RE_COV.match(line)
        if m:
            r.coverage[m.group(1)] = (int(m.group(3)), int(m.group(4)))
    m = re.search(r"Error: Invariant (\w+) is violated", text)
    if m:
        r.violation = ("invariant", m.group(1))
    m = re.search(r"Error: Action property (\w+) is violated", text)
    if m:
        r.violation = ("property", m.group(1))
    if "Temporal properties were violated" in text or re.search(r"Temporal property \w+ was violated", text):
        r.violation = ("temporal", "liveness")
    m = re.search(r"Error: The postcondition (\w+)? ?.*is violated|Checking of postcondition .* failed", text)
    if "ostcondition" in text and ("violated" in text or "failed" in text) and r.violation is None:
        r.violation = ("postcondition", "TraceAccepted")
    if "Deadlock reached" in text:
        r.violation = ("deadlock", "deadlock")
    if r.violation is None and rc == -999:
        r.error = "TLC timeout after %ss" % timeout
    elif r.violation is None and rc != 0:
        if "Error:" in text or rc not in (0,):
            r.error = "TLC exit %s: %s" % (rc, "\n".join(l for l in text.split("\n") if "rror" in l)[:1500])
    if r.violation:
        idx = text.rfind("State ")
        if idx >= 0:
            r.final_state = text[idx:idx + 4000]
    return r


def tlc_retry(*a, **k):
    """R4: an infrastructure failure is retried once."""
    r = tlc(*a, **k)
    if r.error:
        log("TLC infrastructure problem, retrying once:", r.error[:300])
        r = tlc(*a, **k)
    return r


# ---------------------------------------------------------------------------------
# known findings

class Known:
    def __init__(self):
        p = os.path.join(ROOT, "known_findings.json")
        self.findings = {}
        if os.path.exists(p):
            d = json.load(open(p))
            for f in d.get("findings", []):
                self.findings[(f["property"], f["signature"])] = f

    def match(self, prop, sig):
        return self.findings.get((prop, sig))


# ---------------------------------------------------------------------------------
# check context

class Ctx:
    def __init__(self, pid, tier, seed, level):
        self.pid = pid
        self.tier = tier
        self.seed = seed
        self.level = level
        self.rng = random.Random(seed)
        self.t0 = time.time()
        self.work = Work(pid)
        self.known = Known()
        self.cov = {"evaluations": 0, "distinct_nontrivial": 0, "rule": "", "samples": [],
                    "states": 0, "transitions": 0, "traces_validated_against_impl": 0}
        self.assumptions = []
        self.nviol = 0
        self.nknown = 0
        self.known_seen = set()
        self.viol_seen = set()
        self.errors = []
        self.drift = []
        self._uncr = None

    # binary ---------------------------------------------------------------------
    def unc(self, kind="hooks"):
        return build(kind)

    # verdict recording ------------------------------------------------------------
    def violation(self, signature, what, replay):
        """A property violation observed on the implementation and decided by the spec."""
        k = self.known.match(self.pid, signature)
        if k is not None:
            if signature not in self.known_seen:
                self.known_seen.add(signature)
                self.nknown += 1
                print("KNOWN-FINDING: property=%s %s [%s]" % (self.pid, k.get("what", what), signature), flush=True)
            return False
        if signature in self.viol_seen:
            return True
        self.viol_seen.add(signature)
        self.nviol += 1
        os.makedirs(os.path.join(REPLAY, self.pid), exist_ok=True)
        h = hashlib.sha1(signature.encode()).hexdigest()[:12]
        path = os.path.join(REPLAY, self.pid, h + ".json")
        replay = dict(replay)
        replay["property"] = self.pid
        replay["signature"] = signature
        replay["what"] = what
        with open(path, "w") as f:
            json.dump(replay, f, indent=1, default=_jd)
        if getattr(self, "extra", False):
            print("EXTRA-VIOLATION module=%s replay=%s" % (self.pid[2:], path), flush=True)
        else:
            print("VIOLATION property=%s replay=%s" % (self.pid, path), flush=True)
        print("  what: %s" % what, flush=True)
        print("  signature: %s" % signature, flush=True)
        return True

    def model_violation(self, module, cfg, r):
        """The design-level model itself violates an invariant: the spec no longer proves the
        property; this is reported as a violation of the check's model part."""
        self.violation("model:%s:%s:%s" % (module, cfg, r.violation[1]),
                       "TLC: %s %s violated in %s/%s" % (r.violation[0], r.violation[1], module, cfg),
                       {"kind": "model", "module": module, "cfg": cfg, "tlc_tail": r.raw[-3000:]})

    def error(self, msg):
        self.errors.append(msg)
        log("ERROR:", msg)

    def add_tlc(self, r):
        self.cov["states"] += r.distinct
        self.cov["transitions"] += r.generated

    def sample(self, x, cap=6):
        if len(self.cov["samples"]) < cap:
            self.cov["samples"].append(x)

    def finish(self):
        self.cov["known_findings_seen"] = sorted(self.known_seen)
        if self.drift:
            self.cov["drift"] = self.drift[:50]
        ev = {"property_id": self.pid, "tier": self.tier, "seed": self.seed, "level": self.level,
              "coverage": self.cov, "assumptions": self.assumptions,
              "wall_s": round(time.time() - self.t0, 2), "violations": self.nviol}
        if self.errors:
            ev["coverage"]["errors"] = self.errors[:20]
        os.makedirs(EVID, exist_ok=True)
        with open(os.path.join(EVID, self.pid + ".json"), "w") as f:
            json.dump(ev, f, indent=1, default=_jd)
        self.work.cleanup()
        if self.nviol:
            return 1
        if self.errors:
            return 3
        return 0


def _jd(o):
    if isinstance(o, bytes):
        return o.decode("latin-1")
    if isinstance(o, set):
        return sorted(o)
    return str(o)


def pmap(fn, items, nproc=None):
    """Parallel map with threads (work is in subprocesses)."""
    from concurrent.futures import ThreadPoolExecutor
    with ThreadPoolExecutor(max_workers=nproc or NCPU) as ex:
        return list(ex.map(fn, items))


def pmap_proc(fn, items, nproc=None):
    """Parallel map with processes (for CPU-bound projections); fn must be a module-level function."""
    import multiprocessing as mp
    items = list(items)
    if not items:
        return []
    with mp.get_context("fork").Pool(min(nproc or NCPU, len(items))) as pool:
        return pool.map(fn, items, chunksize=max(1, len(items) // ((nproc or NCPU) * 8)))


def write_ndjson(path, events):
    with open(path, "w") as f:
        for e in events:
            f.write(json.dumps(e, separators=(",", ":")))
            f.write("\n")


def cid(table, b):
    """Content interning: bytes -> small id (stable within one table)."""
    if b is None:
        return 0
    k = hashlib.sha1(b).hexdigest()
    if k not in table:
        table[k] = len(table) + 1
    return table[k]
