"""The repository's own test corpus as a universe of (input, config, language) triples."""
import os
import re

from .common import REPO

EXT_LANG = {".c": "C", ".c++": "CPP", ".cc": "CPP", ".cp": "CPP", ".cpp": "CPP", ".cs": "CS", ".cxx": "CPP",
            ".d": "D", ".di": "D", ".es": "ECMA", ".h": "C-Header", ".h++": "CPP", ".hh": "CPP", ".hp": "CPP",
            ".hpp": "CPP", ".hxx": "CPP", ".inc": "PAWN", ".inl": "CPP", ".java": "JAVA", ".js": "ECMA",
            ".m": "OC", ".mm": "OC+", ".p": "PAWN", ".pawn": "PAWN", ".sma": "PAWN", ".sqc": "C",
            ".vala": "VALA", ".vapi": "VALA"}


def lang_of(path):
    ext = os.path.splitext(path)[1].lower()
    return EXT_LANG.get(ext, "C")


class Case:
    __slots__ = ("num", "cfg", "inp", "lang", "suite")

    def __init__(self, num, cfg, inp, lang, suite):
        self.num, self.cfg, self.inp, self.lang, self.suite = num, cfg, inp, lang, suite


def cases():
    out = []
    tdir = os.path.join(REPO, "tests")
    for tf in sorted(os.listdir(tdir)):
        if not tf.endswith(".test"):
            continue
        for line in open(os.path.join(tdir, tf), errors="replace"):
            line = line.strip()
            if not line or line.startswith("#"):
                continue
            p = line.split()
            if len(p) < 3:
                continue
            num = p[0].rstrip("!")
            cfg = os.path.join(tdir, "config", p[1])
            inp = os.path.join(tdir, "input", p[2])
            lang = p[3] if len(p) > 3 else None
            if os.path.exists(cfg) and os.path.exists(inp):
                out.append(Case(num, cfg, inp, lang, tf[:-5]))
    return out


def inputs():
    """distinct input files of the corpus"""
    seen = {}
    for c in cases():
        seen.setdefault(c.inp, c)
    return list(seen.values())


MOD_RE = re.compile(r"^\s*(mod_\w+|cmt_\w+|sp_cmt_cpp_\w+|string_replace_tab_chars|nl_remove_extra_newlines|"
                    r"disable_processing_\w+|enable_processing_\w+|processing_cmt_as_regex|include|set|type|macro-\w+|file_ext|"
                    r"pp_\w*ignore\w*|pp_warn_unbalanced_if|tok_split_gte|utf8_\w+|input_tab_size|enable_digraphs|"
                    r"string_escape_char\w*|use_\w+|warn_level_tabs_found_in_verbatim_string_literals|debug_\w+|align_keep_extra_space)\b", re.I)


def cfg_lines(path):
    try:
        return open(path, errors="replace").read().split("\n")
    except OSError:
        return []


def is_whitespace_only_cfg(path):
    """no code-modifying / comment-rewriting / lexer-altering option is set in this config"""
    for l in cfg_lines(path):
        l = l.split("#")[0].strip()
        if not l:
            continue
        if MOD_RE.match(l):
            return False
    return True
