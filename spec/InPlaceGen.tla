---------------------------- MODULE InPlaceGen ----------------------------
(* M-gen for InPlace: enumerates (BFS) all injection-free histories of user writes and     *)
(* complete runs up to MaxLen big steps and prints each with the abstract state the spec    *)
(* predicts after every step.  The harness replays them on the real binary and adds the     *)
(* kill / fault points (every file-related syscall of the run).                             *)
EXTENDS InPlaceCore, Json
CONSTANTS MaxLen
VARIABLES g, hist
Proj(r) == [F |-> r.F, T |-> r.T, B |-> r.B, M |-> r.M, exit |-> r.exit]
GInit == /\ g \in {InitRec(c) : c \in UserConts}
         /\ hist = << [e |-> "Reset", c |-> g.F] >>
GUser(c) == /\ Len(hist) <= MaxLen /\ UserOk(g, c) /\ c # g.F
            /\ g' = UserRec(g, c)
            /\ hist' = Append(hist, [e |-> "User", c |-> c])
GRun(k, m) == /\ Len(hist) <= MaxLen
              /\ g' = RunFrom(StartRun(g, k, m), "never", {})
              /\ hist' = Append(hist, [e |-> "Run", k |-> k, m |-> m, inj |-> "none"] @@ Proj(g'))
GNext == \/ \E c \in UserConts : GUser(c)
         \/ \E k \in {"A", "B"}, m \in Modes : GRun(k, m)
GSpec == GInit /\ [][GNext]_<<g, hist>>
\* emit every history that ends in a run
Emit == (Len(hist) > 1 /\ hist[Len(hist)].e = "Run") => PrintT("@@" \o ToJson(hist))
GInv == /\ AllOrNothingR(g) /\ BackupWhenGoneR(g) /\ FailureIsReportedR(g)
        /\ (Modes = {"replace"} => BackupIsOriginR(g) /\ Md5DescribesOutputR(g) /\ NeverBackupOwnR(g))
=========================================================================
