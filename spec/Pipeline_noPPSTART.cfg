SPECIFICATION Spec
CONSTANTS
  MaxLen = 4
  MaxEdits = 2
  C_FUSE = TRUE
  C_CPPNL = TRUE
  C_PPNL = TRUE
  C_PPCONT = TRUE
  C_PPSTART = FALSE
INVARIANTS TokensPreserved CommentsPreserved
CHECK_DEADLOCK FALSE
