SPECIFICATION Spec
CONSTANTS
  MaxGap = 3
  WrongOption = TRUE
INVARIANTS ValueObeyed
CHECK_DEADLOCK FALSE
