SPECIFICATION Spec
CONSTANTS
  MaxFiles = 3
  Family = "all"
INVARIANTS CheckNeverWrites DoneOK BigStepAgrees
CHECK_DEADLOCK FALSE
