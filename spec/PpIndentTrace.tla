--------------------------- MODULE PpIndentTrace ---------------------------
(* M-trace for PpIndent: one event per (program, options, input layout): cols[i] = <<column of  *)
(* the first character of line i in the output, blanks between '#' and the directive word>>.      *)
EXTENDS PpIndent, IOUtils
TraceLog == ndJsonDeserialize(IOEnv.TRACE)
VARIABLES l
Ev == TraceLog[l]
TNext == /\ l <= Len(TraceLog) /\ l' = l + 1
         /\ prog' = Ev.prog /\ pi' = Ev.pi /\ pc' = Ev.pc /\ sa' = Ev.sa /\ sc' = Ev.sc /\ ic' = Ev.ic
         /\ inCol' = Ev.inCol /\ inGap' = Ev.inGap /\ UNCHANGED depth
TInit == /\ l = 1 /\ prog = <<"code">> /\ depth = 0 /\ pi = "ignore" /\ pc = 1 /\ sa = "ignore" /\ sc = 0 /\ ic = FALSE /\ inCol = 1 /\ inGap = 0
TSpec == TInit /\ [][TNext]_<<l, vars>>
Judge == (l > 1 /\ l - 1 <= Len(TraceLog)) =>
           LET e == TraceLog[l - 1]
               c == e.cols
               bad == IF e.rc # 0 THEN {} ELSE
                      (IF ~SameLevelSameColumn(prog, c) THEN {"SameLevelSameColumn"} ELSE {}) \cup
                      (IF ~DeeperIsFurther(prog, c) THEN {"DeeperIsFurther"} ELSE {}) \cup
                      (IF ~EndifUnderIf(prog, c) THEN {"EndifUnderIf"} ELSE {}) \cup
                      (IF ~RemoveIsFlush(prog, c) THEN {"RemoveIsFlush"} ELSE {}) \cup
                      (IF ~GapByLevel(prog, c) THEN {"GapByLevel"} ELSE {}) \cup
                      (IF ~CodeFollowsOption(prog, c) THEN {"CodeFollowsOption"} ELSE {})
               drift == IF e.rc = 0 /\ c # Cols(prog) THEN {"ColumnsAsModel"} ELSE {}
           IN (bad # {} \/ drift # {}) => PrintT("@@" \o ToJson([l |-> l - 1, id |-> e.id, bad |-> bad, drift |-> drift, expected |-> Cols(prog)]))
TraceAccepted == TLCGet("stats").diameter - 1 = Len(TraceLog)
=============================================================================
