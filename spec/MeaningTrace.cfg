SPECIFICATION TSpec
CONSTANTS
  Emit = FALSE
POSTCONDITION TraceAccepted
CHECK_DEADLOCK FALSE
