SPECIFICATION TSpec
CONSTANTS
  MaxLines = 1
  Counted = {"code", "cmt", "bs", "cppbs", "str", "on"}
  Emit = FALSE
POSTCONDITION TraceAccepted
CHECK_DEADLOCK FALSE
