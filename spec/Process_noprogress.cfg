SPECIFICATION FairSpec
CONSTANTS
  MaxLong = 3
  Progress = FALSE
INVARIANTS StatusDocumented FailureLeavesStdoutEmpty FailureIsDiagnosed
PROPERTY Terminates
CHECK_DEADLOCK FALSE
