------------------------------ MODULE CmtIndent ------------------------------
(* Indentation of comments that stand on lines of their own: indent_comment() of src/indent.cpp  *)
(* with calc_comment_next_col_diff(), transcribed.  Not one of the twenty listed properties (C18  *)
(* speaks about code lines); it extends the specification to indent_comment_align_thresh,         *)
(* indent_comment and indent_col1_comment - and it is the mechanism behind a recorded C05         *)
(* finding (a comment aligned under the comment above it by ORIGINAL columns moves again when     *)
(* the first run has moved that comment; profiles with indent_comment = false).                   *)
(*                                                                                                *)
(* A program is the body of a function: a sequence of lines of one brace level, closed by '}'.   *)
(*   code line   code of width w, written d columns to the right (d < 0: left) of where it        *)
(*               belongs (the indent pass brings it back to Indent), possibly a trailing comment  *)
(*               g blanks behind the code                                                         *)
(*   cmt line    a comment on its own, written in column o                                        *)
(*   nl          line breaks after the line                                                       *)
(* The rule (for a comment that was not in column 1):                                             *)
(*   the line above ends in a comment, directly above (one line break), and the two comments      *)
(*   stood at most Thresh columns apart IN THE INPUT, and the comment is at least as close to     *)
(*   it as to the next code below (or there is none within single line breaks)                    *)
(*        -> the comment goes to the column the comment above has NOW                             *)
(*   otherwise it goes to the block's column (indent_comment) or stays where it was               *)
(*   a comment in column 1 stays there unless indent_col1_comment                                 *)
EXTENDS Naturals, Integers, Sequences, FiniteSets, TLC, Json
CONSTANTS MaxLines, Widths, Shifts, Gaps, CmtCols, Breaks, Threshs, Indent, Emit
VARIABLES prog, thresh, ic, c1
vars == <<prog, thresh, ic, c1>>
Line == [k : {"code"}, w : Widths, d : Shifts, tc : BOOLEAN, g : Gaps, o : {0}, nl : Breaks]
        \cup [k : {"cmt"}, w : {0}, d : {0}, tc : {FALSE}, g : {0}, o : CmtCols, nl : Breaks]
Abs(x) == IF x < 0 THEN 0 - x ELSE x
DefShifts == {0, 3, -3}            \* a cfg file cannot hold a negative number
WideShifts == {0, 2, 9, -2, -4}
BIG == 5000
(* orig[i] / now[i]: column of the comment that ends line i, in the input and after formatting   *)
TrailOrig(ln) == Indent + ln.d + ln.w + ln.g
(* reindent_line(): a comment behind code keeps its original column as long as that leaves one    *)
(* blank behind the code in its new place                                                         *)
TrailNow(ln)  == IF TrailOrig(ln) > Indent + ln.w + 1 THEN TrailOrig(ln) ELSE Indent + ln.w + 1
EndsInComment(ln) == ln.k = "cmt" \/ ln.tc
(* original column of the first token of line i *)
FirstOrig(ln) == IF ln.k = "cmt" THEN ln.o ELSE Indent + ln.d
(* calc_comment_next_col_diff(): the first code below, reached over single line breaks only;      *)
(* behind the last line comes the closing brace in column 1                                       *)
RECURSIVE NextDiff(_, _, _)
NextDiff(P, i, o) ==
   IF P[i].nl > 1 THEN BIG
   ELSE IF i = Len(P) THEN Abs(1 - o)
   ELSE IF P[i + 1].k = "cmt" THEN NextDiff(P, i + 1, o)
   ELSE Abs(FirstOrig(P[i + 1]) - o)
(* the column of the own-line comment of line i, given the original columns Orig and the columns  *)
(* Now of the comments above (a function of the lines before i)                                   *)
RECURSIVE Out(_, _)
CmtOrigAt(P, j) == IF P[j].k = "cmt" THEN P[j].o ELSE TrailOrig(P[j])
CmtNowAt(P, j)  == IF P[j].k = "cmt" THEN Out(P, j) ELSE TrailNow(P[j])
Out(P, i) ==
   LET o == P[i].o IN
   IF o = 1 /\ ~c1 THEN 1
   ELSE IF o > 1 /\ i > 1 /\ EndsInComment(P[i - 1]) /\ P[i - 1].nl = 1
           /\ Abs(CmtOrigAt(P, i - 1) - o) <= thresh
           /\ (Abs(CmtOrigAt(P, i - 1) - o) <= NextDiff(P, i, o) \/ NextDiff(P, i, o) = BIG)
        THEN CmtNowAt(P, i - 1)
   ELSE IF o > 1 /\ ~ic THEN o
   ELSE Indent
Cols(P) == [i \in 1..Len(P) |-> IF P[i].k = "cmt" THEN Out(P, i) ELSE IF P[i].tc THEN TrailNow(P[i]) ELSE 0]
(* the program as the first run leaves it *)
After(P) == LET c == Cols(P) IN [i \in 1..Len(P) |-> IF P[i].k = "cmt" THEN [P[i] EXCEPT !.o = c[i]] ELSE [P[i] EXCEPT !.d = 0, !.g = IF P[i].tc THEN TrailNow(P[i]) - Indent - P[i].w ELSE P[i].g]]
ColsAgain(P) == Cols(After(P))

(* ----------------------------------------------------------------- contracts on columns c *)
Close(P, i) == /\ P[i].k = "cmt" /\ P[i].o > 1 /\ i > 1 /\ EndsInComment(P[i - 1]) /\ P[i - 1].nl = 1
               /\ Abs(CmtOrigAt(P, i - 1) - P[i].o) <= thresh
               /\ (Abs(CmtOrigAt(P, i - 1) - P[i].o) <= NextDiff(P, i, P[i].o) \/ NextDiff(P, i, P[i].o) = BIG)
UnderTheCommentAbove(P, c) == \A i \in 1..Len(P) : Close(P, i) => c[i] = c[i - 1]
Col1Stays(P, c) == \A i \in 1..Len(P) : (P[i].k = "cmt" /\ P[i].o = 1 /\ ~c1) => c[i] = 1
BlockColumn(P, c) == \A i \in 1..Len(P) : (P[i].k = "cmt" /\ ~Close(P, i) /\ (P[i].o > 1 \/ c1) /\ (ic \/ P[i].o = 1)) => c[i] = Indent
KeepsColumn(P, c) == \A i \in 1..Len(P) : (P[i].k = "cmt" /\ ~Close(P, i) /\ P[i].o > 1 /\ ~ic) => c[i] = P[i].o
Contracts(P, c) == UnderTheCommentAbove(P, c) /\ Col1Stays(P, c) /\ BlockColumn(P, c) /\ KeepsColumn(P, c)

(* ----------------------------------------------------------------- behaviours *)
Init == prog = <<>> /\ thresh \in Threshs /\ ic \in BOOLEAN /\ c1 \in BOOLEAN
Grow == /\ Len(prog) < MaxLines
        /\ \E ln \in Line : prog' = Append(prog, ln)
        /\ UNCHANGED <<thresh, ic, c1>>
Next == Grow
Spec == Init /\ [][Next]_vars
HasCmt == \E i \in 1..Len(prog) : prog[i].k = "cmt"
Good == Contracts(prog, Cols(prog))
(* a second run over the first run's output; VIOLATED (Stable.cfg): the recorded C05 mechanism *)
Stable == ColsAgain(prog) = Cols(prog)
(* under the built-in defaults (indent_comment_align_thresh = 3, indent_comment, no                *)
(* indent_col1_comment) the pass IS a fixed point of itself - C05 claims byte-for-byte stability    *)
(* for them: a comment that does not go under the comment above goes to the block's column, and     *)
(* from there the next run takes the same decision.  It is indent_comment = false (the comment      *)
(* keeps a column of its own) that lets the second run see a distance the first run created.        *)
StableByDefault == (thresh = 3 /\ ic /\ ~c1) => Stable
(* non-vacuity: the threshold rule decides a column somewhere (must be VIOLATED) *)
NeverUnder == \A i \in 1..Len(prog) : ~Close(prog, i)
EmitCase == (Emit /\ HasCmt) => PrintT("@@" \o ToJson([prog |-> prog, thresh |-> thresh, ic |-> ic, c1 |-> c1, cols |-> Cols(prog), again |-> ColsAgain(prog)]))
EmitUnstable == (Emit /\ HasCmt /\ ~Stable) => PrintT("@@" \o ToJson([prog |-> prog, thresh |-> thresh, ic |-> ic, c1 |-> c1, cols |-> Cols(prog), again |-> ColsAgain(prog)]))
=============================================================================
