---------------------------- MODULE AlignTrace ----------------------------
(* M-trace for Align: one event per (program, options, rendering).  The harness renders a       *)
(* TLC-generated program as the statements of a function body (align_assign_span / _thresh) or   *)
(* as the enumerators of an enum (align_enum_equ_span / _thresh), formats it and reports the      *)
(* column of every aligned operator: cols.                                                       *)
(*   contract  GroupEndsAlign / NeverLeft / SpanRespected / NeighboursAlign / OnTabStop,         *)
(*             evaluated on the OBSERVED columns with the groups the machine forms               *)
(*   mechanism ColumnsAsModel   cols = Cols(prog)                                     (DRIFT)    *)
(*             SecondRunAsModel again = ColsAgainK(prog, keep): the columns after the binary has *)
(*             formatted its own output once more (<<>> when the run was not repeated)  (DRIFT)   *)
EXTENDS Align, IOUtils
TraceLog == ndJsonDeserialize(IOEnv.TRACE)
VARIABLES l
Ev == TraceLog[l]
(* the machine's result with the observed columns substituted *)
Observed(P, R, c) == [R EXCEPT !.out = [k \in 1..Len(R.out) |-> [R.out[k] EXCEPT !.col = c[R.out[k].id]]]]
TNext == /\ l <= Len(TraceLog) /\ l' = l + 1
         /\ prog' = Ev.prog /\ span' = Ev.span /\ thresh' = Ev.thresh /\ tabstop' = Ev.tabstop
TInit == l = 1 /\ prog = <<>> /\ span = 0 /\ thresh = 0 /\ tabstop = FALSE
TSpec == TInit /\ [][TNext]_<<l, vars>>
(* judged after the step: the variables hold the event's program and options *)
Judge == (l > 1 /\ l - 1 <= Len(TraceLog)) =>
           LET e == TraceLog[l - 1]
               R == Result(prog)
               O == Observed(prog, R, e.cols)
               bad == IF e.rc # 0 THEN {} ELSE
                      (IF ~GroupEndsAlign(prog, O) THEN {"GroupEndsAlign"} ELSE {}) \cup
                      (IF ~NeverLeft(prog, O) THEN {"NeverLeft"} ELSE {}) \cup
                      (IF ~OnTabStop(prog, O) THEN {"OnTabStop"} ELSE {}) \cup
                      (IF \E i \in 1..Len(prog) : prog[i].asg /\ Final(prog, R, i) = 0 /\ e.cols[i] # ColOf(prog[i]) THEN {"UngroupedStays"} ELSE {})
               drift == (IF e.rc = 0 /\ e.cols # Cols(prog) THEN {"ColumnsAsModel"} ELSE {}) \cup
                        (IF e.rc = 0 /\ e.again # <<>> /\ e.again # ColsAgainK(prog, e.keep) THEN {"SecondRunAsModel"} ELSE {})
           IN (bad # {} \/ drift # {}) => PrintT("@@" \o ToJson([l |-> l - 1, id |-> e.id, bad |-> bad, drift |-> drift, expected |-> Cols(prog), again |-> ColsAgainK(prog, e.keep)]))
TraceAccepted == TLCGet("stats").diameter - 1 = Len(TraceLog)
=============================================================================
