------------------------------ MODULE Meaning ------------------------------
(* Compile equivalence (C01).                                                                 *)
(*                                                                                            *)
(* Part 1 - Expr: the expression neighbourhoods in which a removed blank changes the meaning    *)
(* without changing the characters: left operand (with optional postfix operator), binary       *)
(* operator, prefix operator, right operand.  Typed so that every generated expression          *)
(* compiles: Valid says which combinations are well typed over int a, b, c and int *p, *q.       *)
(* TLC enumerates all of them; the harness renders each into a function and compiles it.         *)
(* Part 2 - the history Compile(p) = m1; Format(p, cfg) = (q, status); Compile(q) = m2 and its   *)
(* invariant, judged by MeaningTrace on content ids.                                             *)
EXTENDS Naturals, Sequences, TLC, Json
CONSTANTS Emit
VARIABLES post, bin, pre, tern
vars == <<post, bin, pre, tern>>
Postfix == {"", "++", "--"}
Binary  == {"+", "-", "*", "/", "%", "&", "|", "^", "<<", ">>", "<", ">", "<=", ">=", "==", "!=", "&&", "||", "=", "+=", "-=", "*=", "/=",
            "&=", "|=", "^=", "<<=", ">>=", ","}
Prefix  == {"", "+", "-", "*", "&", "!", "~", "++", "--", "(int)", "sizeof"}
(* the type of the right operand after the prefix operator *)
RightType(u) == CASE u = "*" -> "int"            \* *p
                  [] u = "&" -> "ptr"            \* &b
                  [] OTHER -> "int"
Assign == {"=", "+=", "-=", "*=", "/=", "&=", "|=", "^=", "<<=", ">>="}
Valid(po, b, u) ==
  /\ (b \in Assign => po = "")                                   \* a++ = ... is not an lvalue
  /\ (RightType(u) = "ptr" => b \in {"==", "!=", "<", ">", "<=", ">=", "-", "&&", "||", ","})
(* with a pointer on the right the left operand is a pointer too *)
LeftOperand(po, b, u) == IF RightType(u) = "ptr" /\ b \notin {"&&", "||", ","} THEN "p" ELSE "a"
RightOperand(u) == IF u = "*" THEN "q" ELSE "b"
Init == /\ post \in Postfix /\ bin \in Binary /\ pre \in Prefix /\ tern \in BOOLEAN
        /\ Valid(post, bin, pre)
        /\ (tern => bin \notin Assign /\ bin # ",")
Next == UNCHANGED vars
Spec == Init /\ [][Next]_vars
(* the expression as a token list; tern wraps it as  c ? <e> : <e>  to put ':' and '?' next to   *)
(* the operators as well                                                                        *)
Core == <<LeftOperand(post, bin, pre)>> \o (IF post = "" THEN <<>> ELSE <<post>>) \o <<bin>>
        \o (IF pre = "" THEN <<>> ELSE <<pre>>) \o <<RightOperand(pre)>>
Tokens == IF tern THEN <<"c", "?">> \o Core \o <<":">> \o (IF pre = "" THEN <<>> ELSE <<pre>>) \o <<RightOperand(pre)>> ELSE Core
ResultIsPointerDiff == RightType(pre) = "ptr" /\ bin = "-"
EmitExpr == Emit => PrintT("@@" \o ToJson([tokens |-> Tokens, lvalue |-> (bin \in Assign)]))

(* ------------------------------------------------------------------ Part 2 *)
(* a history is accepted when the formatter accepted the program and both compilations agree     *)
HistoryOk(status, m1, m2) == status = 0 /\ m1 = m2
=============================================================================
