------------------------------ MODULE PpIndent ------------------------------
(* Indentation of preprocessor directives at file level (pp_indent, pp_indent_count,            *)
(* pp_space_after, pp_space_count, pp_if_indent_code): indent_pp() / the directive branch of      *)
(* indent_text() reduced to its closed form over the #if nesting.                                 *)
(*                                                                                             *)
(* A program is a sequence of lines at brace level 0: if / else / endif (well nested), other      *)
(* directives (define, include, pragma) and code lines.  The first line is a code line, so that   *)
(* no #if spans the whole file (that case has its own option, pp_indent_in_guard).               *)
(* Lvl(P, i) is the #if nesting the line belongs to (an #else / #endif belongs to its #if's).     *)
(* Not one of the twenty listed properties.                                                       *)
EXTENDS Naturals, Sequences, TLC, Json
CONSTANTS MaxLines, MaxDepth, Counts, SpaceCounts, IndentColumns, InCols, InGaps, Emit
VARIABLES prog, depth, pi, pc, sa, sc, ic, inCol, inGap
vars == <<prog, depth, pi, pc, sa, sc, ic, inCol, inGap>>
IARF == {"ignore", "add", "remove", "force"}
Dirs == {"if", "else", "endif", "define", "include", "pragma"}
Kinds == Dirs \cup {"code"}
RECURSIVE Open(_, _)
(* number of #if open BEFORE line i *)
Open(P, i) == IF i <= 1 THEN 0
              ELSE Open(P, i - 1) + (IF P[i - 1] = "if" THEN 1 ELSE IF P[i - 1] = "endif" THEN 0 - 1 ELSE 0)
Lvl(P, i) == IF P[i] \in {"else", "endif"} THEN Open(P, i) - 1 ELSE Open(P, i)
(* closed forms *)
HashCol(P, i) == CASE pi \in {"add", "force"} -> 1 + pc * Lvl(P, i)
                   [] pi = "remove" -> 1
                   [] OTHER -> inCol
Gap(P, i) == CASE sa \in {"add", "force"} -> sc * Lvl(P, i)
               [] sa = "remove" -> 0
               [] OTHER -> inGap
CodeCol(P, i) == IF ic THEN 1 + IndentColumns * Lvl(P, i) ELSE 1
Cols(P) == [i \in 1..Len(P) |-> IF P[i] = "code" THEN <<CodeCol(P, i), 0>> ELSE <<HashCol(P, i), Gap(P, i)>>]
(* contracts over any column assignment c (c[i] = <<column, gap>>) *)
Forced == pi \in {"add", "force"}
SameLevelSameColumn(P, c) == Forced => \A i, j \in 1..Len(P) : (P[i] \in Dirs /\ P[j] \in Dirs /\ Lvl(P, i) = Lvl(P, j)) => c[i][1] = c[j][1]
DeeperIsFurther(P, c) == Forced => \A i, j \in 1..Len(P) : (P[i] \in Dirs /\ P[j] \in Dirs /\ Lvl(P, j) = Lvl(P, i) + 1) => c[j][1] = c[i][1] + pc
EndifUnderIf(P, c) == (Forced \/ pi = "remove") => \A i \in 1..Len(P) : P[i] \in {"else", "endif"} =>
                          \E j \in 1..(i - 1) : P[j] = "if" /\ Lvl(P, j) = Lvl(P, i) /\ c[j][1] = c[i][1]
RemoveIsFlush(P, c) == pi = "remove" => \A i \in 1..Len(P) : P[i] \in Dirs => c[i][1] = 1
GapByLevel(P, c) == sa \in {"add", "force"} => \A i \in 1..Len(P) : P[i] \in Dirs => c[i][2] = sc * Lvl(P, i)
CodeFollowsOption(P, c) == \A i \in 1..Len(P) : P[i] = "code" => c[i][1] = (IF ic THEN 1 + IndentColumns * Lvl(P, i) ELSE 1)
AllContracts(P, c) == /\ SameLevelSameColumn(P, c) /\ DeeperIsFurther(P, c) /\ EndifUnderIf(P, c) /\ RemoveIsFlush(P, c)
                      /\ GapByLevel(P, c) /\ CodeFollowsOption(P, c)
(* behaviours: the grammar *)
Init == /\ prog = <<"code">> /\ depth = 0 /\ pi \in IARF /\ pc \in Counts /\ sa \in IARF /\ sc \in SpaceCounts /\ ic \in BOOLEAN
        /\ inCol \in InCols /\ inGap \in InGaps
Grow == /\ Len(prog) < MaxLines
        /\ \E k \in Kinds :
              /\ (k = "if" => depth < MaxDepth)
              /\ (k \in {"else", "endif"} => depth > 0)
              /\ (k = "else" => prog[Len(prog)] # "else")
              /\ prog' = Append(prog, k)
              /\ depth' = depth + (IF k = "if" THEN 1 ELSE IF k = "endif" THEN 0 - 1 ELSE 0)
        /\ UNCHANGED <<pi, pc, sa, sc, ic, inCol, inGap>>
Next == Grow
Spec == Init /\ [][Next]_vars
Complete == depth = 0 /\ prog[Len(prog)] = "code" /\ \E i \in 1..Len(prog) : prog[i] = "if"
Good == Complete => AllContracts(prog, Cols(prog))
EmitProg == (Emit /\ Complete) => PrintT("@@" \o ToJson([prog |-> prog, lv |-> [i \in 1..Len(prog) |-> Lvl(prog, i)]]))
=============================================================================
