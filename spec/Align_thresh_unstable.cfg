SPECIFICATION Spec
CONSTANTS
  MaxLines = 3
  Widths = {1, 4, 8}
  Lens = {1, 2}
  Breaks = {1, 2, 3}
  Spans = {0, 1, 2}
  Threshs <- DefThreshs
  Indent = 5
  TabStops = {TRUE, FALSE}
  TabSize = 4
  Emit = FALSE
INVARIANTS Stable
CHECK_DEADLOCK FALSE
