SPECIFICATION FairSpec
CONSTANTS
  MaxLong = 3
  Progress = TRUE
INVARIANTS StatusDocumented FailureLeavesStdoutEmpty FailureIsDiagnosed
PROPERTY Terminates
CHECK_DEADLOCK FALSE
