-------------------------- MODULE FixedPointTrace --------------------------
(* M-trace for FixedPoint (C05): one event per observed history.                               *)
(*  profile = the configuration is one of the profiles for which idempotence is claimed         *)
(*  rc / o   exit status and content id of the three consecutive runs (o = "" when refused)     *)
(*  chk      exit status of --check on the first run's output                                   *)
(*  bound    the first run left its newline loop because pass_count ran out                      *)
EXTENDS FixedPoint, Json, IOUtils
TraceLog == ndJsonDeserialize(IOEnv.TRACE)
VARIABLES l
Ev == TraceLog[l]
Bad(e) ==
  IF e.rc[1] # 0 THEN {}
  ELSE (IF ~WeakOk(e.rc[1], e.rc[2]) THEN {"SecondRunAccepts"} ELSE {}) \cup
       (IF e.profile /\ e.rc[2] = 0 /\ e.o[1] # e.o[2] THEN {"RunIsStable"} ELSE {}) \cup
       (IF e.profile /\ e.rc[2] = 0 /\ e.o[1] = e.o[2] /\ e.chk # 0 THEN {"CheckAfterRunPasses"} ELSE {})
TNext == /\ l <= Len(TraceLog) /\ l' = l + 1 /\ UNCHANGED vars
         /\ LET e == Ev
            IN Bad(e) # {} => PrintT("@@" \o ToJson([l |-> l, id |-> e.id, bad |-> Bad(e), bound |-> e.bound,
                                                    settles |-> (e.rc[3] = 0 /\ e.o[2] = e.o[3])]))
TInit == l = 1 /\ fmt = [c \in Contents |-> c] /\ file = (CHOOSE c \in Contents : TRUE) /\ hist = <<>> /\ lastCheck = "none"
TSpec == TInit /\ [][TNext]_<<l, vars>>
TraceAccepted == TLCGet("stats").diameter - 1 = Len(TraceLog)
=============================================================================
