-------------------------------- MODULE Align --------------------------------
(* Alignment of a token over neighbouring lines: the AlignStack of src/align/stack.cpp        *)
(* transcribed (Start / Add / NewLines / Flush / ReAddSkipped / End), driven the way           *)
(* align_assign() of src/align/assign.cpp drives it for the statements of one brace level.     *)
(*                                                                                             *)
(* A program is a sequence of lines.  A line either carries the token that is aligned (an      *)
(* assignment operator of length len whose left-hand side is w columns wide) or it does not;    *)
(* nl is the number of line breaks that follow it (1 = the next line follows directly).          *)
(* The machine is a function from programs to the column every operator ends up in; it is not    *)
(* one of the twenty listed properties, it extends the specification to the align_* passes:      *)
(*   GroupEndsAlign     the operators flushed together end in one column (right aligned; with   *)
(*                      align_on_tabstop they start in one column, OnTabStop: a tab stop)       *)
(*   NeverLeft          no operator moves to the left of where spacing alone had put it         *)
(*   SpanRespected      two members of one group that follow each other are at most Span        *)
(*                      line breaks apart                                                      *)
(*   EveryoneAccounted  every operator is flushed at most once; one that is flushed never      *)
(*                      appears in two groups                                                  *)
(*   NoSpanNoMove       Span = 0 switches the pass off (the caller does not run it)            *)
(* TLC enumerates every program up to MaxLines over the width / length / break alphabets and     *)
(* evaluates the predicates on Result(prog); EmitCase prints program, options and the            *)
(* predicted columns for the replay into the binary (M-gen).                                    *)
EXTENDS Naturals, Integers, Sequences, FiniteSets, TLC, Json
CONSTANTS MaxLines,
          Widths,        \* widths of the left-hand side
          Lens,          \* operator lengths ('=' 1, '+=' 2, '<<=' 3)
          Breaks,        \* line break counts after a line
          Spans, Threshs,\* align_assign_span, align_assign_thresh (negative = absolute)
          Indent,        \* column of the first character of a statement
          TabStops,      \* values of align_on_tabstop (TRUE: operators start in one column, which is a tab stop)
          TabSize,
          Emit
VARIABLES prog, span, thresh, tabstop
vars == <<prog, span, thresh, tabstop>>
BIG == 100000
DefThreshs == {0, 3, -3}          \* a cfg file cannot hold a negative number
WideThreshs == {0, 2, 5, -2, -5}
Max(x, y) == IF x > y THEN x ELSE y
Min(x, y) == IF x < y THEN x ELSE y
Abs(x) == IF x < 0 THEN 0 - x ELSE x

(* ----------------------------------------------------------------- the stack *)
(* al, sk: entries [id, col, len, seq]; out: flushed entries [id, col, grp]                     *)
Start == [al |-> <<>>, sk |-> <<>>, seq |-> 0, nlseq |-> 0, minc |-> BIG, maxc |-> 0, out |-> <<>>, grp |-> 0]
T == Abs(thresh)
AbsT == thresh < 0

RECURSIVE Add(_, _, _, _), ReAdd(_, _), AddAll(_, _, _, _), NewLines(_, _, _), Flush(_, _)
Passes(S, col) ==
  \/ S.maxc = 0 \/ T = 0
  \/ /\ col <= T + (IF AbsT THEN S.minc ELSE S.maxc)
     /\ (col + T >= S.maxc \/ col >= S.minc)
Add(S, it, seqnum, nr) ==
  LET sq == IF seqnum = 0 THEN S.seq ELSE seqnum
  IN IF Passes(S, it.col)
     THEN LET S1 == [S EXCEPT !.nlseq = Max(S.nlseq, sq),
                               !.al = Append(S.al, [it EXCEPT !.seq = sq]),
                               !.minc = Min(S.minc, it.col)]
          IN IF it.col > S.maxc
             THEN LET S2 == [S1 EXCEPT !.maxc = it.col]
                  IN IF S2.sk # <<>> /\ ~nr THEN ReAdd(S2, nr) ELSE S2
             ELSE S1
     ELSE [S EXCEPT !.sk = Append(S.sk, [it EXCEPT !.seq = sq])]
AddAll(S, items, i, nr) == IF i > Len(items) THEN S ELSE AddAll(Add(S, items[i], items[i].seq, nr), items, i + 1, nr)
ReAdd(S, nr) == IF S.sk = <<>> THEN S
               ELSE NewLines(AddAll([S EXCEPT !.sk = <<>>], S.sk, 1, nr), 0, nr)
NewLines(S, cnt, nr) ==
  IF S.al = <<>> THEN S
  ELSE LET S1 == [S EXCEPT !.seq = S.seq + cnt]
       IN IF S1.seq > S1.nlseq + span THEN Flush(S1, nr) ELSE S1
Flush(S, nr) ==
  IF S.al = <<>> THEN S
  ELSE LET n == Len(S.al)
           (* right aligned (the column adjust is the operator's length) unless align_on_tabstop *)
           adj == [i \in 1..n |-> IF tabstop THEN 0 ELSE S.al[i].len]
           m0 == CHOOSE m \in {S.al[i].col + adj[i] : i \in 1..n} : \A i \in 1..n : S.al[i].col + adj[i] <= m
           mx == IF tabstop /\ n > 1 /\ m0 % TabSize # 1 THEN ((m0 - 1) \div TabSize + 1) * TabSize + 1 ELSE m0
           placed == [i \in 1..n |-> [id |-> S.al[i].id, col |-> mx - adj[i], grp |-> S.grp + 1, seq |-> S.al[i].seq]]
           last == S.al[n].seq
           S1 == [S EXCEPT !.out = S.out \o placed, !.al = <<>>, !.minc = BIG, !.maxc = 0, !.grp = S.grp + 1]
       IN IF S1.sk = <<>> THEN [S1 EXCEPT !.nlseq = S1.seq]
          ELSE LET kept == SelectSeq(S1.sk, LAMBDA e : e.seq >= last)
               IN IF nr THEN [S1 EXCEPT !.sk = <<>>] ELSE ReAdd([S1 EXCEPT !.sk = kept], nr)
End(S, nr) == IF S.al # <<>> THEN Flush(S, nr) ELSE S

(* ----------------------------------------------------------------- the driver *)
(* align_assign(): Add at the operator, NewLines(nl) when the first token of the next line      *)
(* (or the closing brace) is reached, End at the closing brace                                   *)
Line == [asg : {TRUE}, w : Widths, len : Lens, nl : Breaks] \cup [asg : {FALSE}, w : {0}, len : {0}, nl : Breaks]
ColOf(ln) == Indent + ln.w + 1            \* name, one blank, operator
(* C[i] = the column the operator of line i stands in when Add() looks at it (ColOf on a first    *)
(* run; on a second run over the pass's own output with align_keep_extra_space the column the      *)
(* first run put it in - sp_assign = ignore keeps the blanks)                                       *)
RECURSIVE DriveC(_, _, _, _, _)
DriveC(S, P, C, i, nr) ==
  IF i > Len(P) THEN End(S, nr)
  ELSE LET S1 == IF P[i].asg THEN Add(S, [id |-> i, col |-> C[i], len |-> P[i].len, seq |-> 0], 0, nr) ELSE S
       IN DriveC(NewLines(S1, P[i].nl, nr), P, C, i + 1, nr)
Drive(S, P, i, nr) == DriveC(S, P, [k \in 1..Len(P) |-> ColOf(P[k])], i, nr)
ResultV(P, nr) == IF span = 0 THEN Start ELSE Drive(Start, P, 1, nr)
Result(P) == ResultV(P, FALSE)
(* final column of the operator of line i *)
Final(P, R, i) == IF \E k \in 1..Len(R.out) : R.out[k].id = i
                  THEN (CHOOSE k \in 1..Len(R.out) : R.out[k].id = i /\ \A k2 \in 1..Len(R.out) : R.out[k2].id = i => k2 <= k)
                  ELSE 0
ColFinal(P, R, i) == IF Final(P, R, i) = 0 THEN ColOf(P[i]) ELSE R.out[Final(P, R, i)].col
ColsV(P, nr) == LET R == ResultV(P, nr) IN [i \in 1..Len(P) |-> IF P[i].asg THEN ColFinal(P, R, i) ELSE 0]
Cols(P) == ColsV(P, FALSE)

(* ----------------------------------------------------------------- predicates *)
Adj(P, i) == IF tabstop THEN 0 ELSE P[i].len
GroupEndsAlign(P, R) == \A j, k \in 1..Len(R.out) : R.out[j].grp = R.out[k].grp
                              => R.out[j].col + Adj(P, R.out[j].id) = R.out[k].col + Adj(P, R.out[k].id)
OnTabStop(P, R) == tabstop => \A j, k \in 1..Len(R.out) : (j # k /\ R.out[j].grp = R.out[k].grp) => R.out[j].col % TabSize = 1
NeverLeft(P, R) == \A k \in 1..Len(R.out) : R.out[k].col >= ColOf(P[R.out[k].id])
EveryoneAccounted(P, R) == /\ \A j, k \in 1..Len(R.out) : (R.out[j].id = R.out[k].id) => j = k
                           /\ \A k \in 1..Len(R.out) : P[R.out[k].id].asg
(* line breaks between line i and line j > i *)
RECURSIVE BreaksBetween(_, _, _)
BreaksBetween(P, i, j) == IF i >= j THEN 0 ELSE P[i].nl + BreaksBetween(P, i + 1, j)
SpanRespected(P, R) == \A j, k \in 1..Len(R.out) :
                          (/\ R.out[j].grp = R.out[k].grp /\ R.out[j].id < R.out[k].id
                           /\ ~\E m \in 1..Len(R.out) : R.out[m].grp = R.out[j].grp /\ R.out[j].id < R.out[m].id /\ R.out[m].id < R.out[k].id)
                             => BreaksBetween(P, R.out[j].id, R.out[k].id) <= span
NoSpanNoMove(P, R) == span = 0 => R.out = <<>>
(* without a threshold every operator that has a neighbour within Span is aligned with it *)
NeighboursAlign(P, R) ==
  thresh = 0 /\ span > 0 =>
    \A i \in 1..Len(P) - 1 : \A j \in (i + 1)..Len(P) :
        (P[i].asg /\ P[j].asg /\ (\A m \in (i + 1)..(j - 1) : ~P[m].asg) /\ BreaksBetween(P, i, j) <= span)
           => ColFinal(P, R, i) + Adj(P, i) = ColFinal(P, R, j) + Adj(P, j)

(* ----------------------------------------------------------------- a second run (C05) *)
(* the columns after the pass has run over its own output                                          *)
ColsAgain(P) == LET C == Cols(P)
                    R == IF span = 0 THEN Start ELSE DriveC(Start, P, C, 1, FALSE)
                IN [i \in 1..Len(P) |-> IF ~P[i].asg THEN 0
                                        ELSE IF Final(P, R, i) = 0 THEN C[i] ELSE R.out[Final(P, R, i)].col]
(* Add() first pulls the operator back to the column spacing alone gives it ("tighten down the     *)
(* spacing between ref and start") unless align_keep_extra_space is set: without that option a      *)
(* second run starts from the same columns as the first one                                         *)
ColsAgainK(P, keep) == IF keep THEN ColsAgain(P) ELSE Cols(P)
(* With align_keep_extra_space:                                                                     *)
(* Without a threshold the pass is a fixed point of itself.  With one it is not: an operator the   *)
(* first run left alone (too far from the group) can be within the threshold of the columns the    *)
(* first run produced - Stable is VIOLATED under Align_thresh_unstable.cfg, and the counterexample *)
(* programs are the hazard set replayed on the binary for C05 (recorded finding: alignment          *)
(* thresholds are judged against columns that alignment itself moves)                               *)
Stable == ColsAgain(prog) = Cols(prog)
StableWithoutThresh == thresh = 0 => Stable
EmitUnstable == (Emit /\ prog # <<>> /\ ~Stable) =>
                   PrintT("@@" \o ToJson([prog |-> prog, span |-> span, thresh |-> thresh, tabstop |-> tabstop, cols |-> Cols(prog), again |-> ColsAgain(prog)]))
(* ----------------------------------------------------------------- behaviours *)
Init == prog = <<>> /\ span \in Spans /\ thresh \in Threshs /\ tabstop \in TabStops
Grow == /\ Len(prog) < MaxLines
        /\ \E ln \in Line : prog' = Append(prog, ln)
        /\ UNCHANGED <<span, thresh, tabstop>>
Next == Grow
Spec == Init /\ [][Next]_vars
Good == LET R == Result(prog)
        IN /\ GroupEndsAlign(prog, R) /\ NeverLeft(prog, R) /\ EveryoneAccounted(prog, R)
           /\ SpanRespected(prog, R) /\ NoSpanNoMove(prog, R) /\ NeighboursAlign(prog, R) /\ OnTabStop(prog, R)
(* non-vacuity of the skipped list: within the bounds some program is laid out differently by a   *)
(* machine that never looks again at an entry that failed the threshold (this invariant must be   *)
(* VIOLATED; the counterexample is a program on which ReAddSkipped() decides the columns)         *)
ReAddNeverMatters == ColsV(prog, TRUE) = Cols(prog)
EmitCase == (Emit /\ prog # <<>>) =>
               PrintT("@@" \o ToJson([prog |-> prog, span |-> span, thresh |-> thresh, tabstop |-> tabstop, cols |-> Cols(prog),
                                      groups |-> LET R == Result(prog) IN [k \in 1..Len(R.out) |-> <<R.out[k].id, R.out[k].grp>>]]))
=============================================================================
