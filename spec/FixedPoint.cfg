SPECIFICATION Spec
CONSTANTS
  Contents = {"a", "b", "c"}
  IdempotentFmt = TRUE
  MaxSteps = 4
INVARIANTS CheckAfterRunPasses
PROPERTIES RunIsStable SecondRunAccepts
CHECK_DEADLOCK FALSE
