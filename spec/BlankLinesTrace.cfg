SPECIFICATION TSpec
CONSTANTS
  MaxN = 1
  MaxOpt = 1
  Unpretend = TRUE
POSTCONDITION TraceAccepted
CHECK_DEADLOCK FALSE
