SPECIFICATION TSpec
CONSTANTS
  MaxLines = 1
  Counted = {"code", "cmt", "bs", "cppbs", "on"}
  Emit = FALSE
POSTCONDITION TraceAccepted
CHECK_DEADLOCK FALSE
