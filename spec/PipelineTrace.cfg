SPECIFICATION TSpec
CONSTANTS
  MaxLen = 1
  MaxEdits = 0
  C_FUSE = TRUE
  C_CPPNL = TRUE
  C_PPNL = TRUE
  C_PPCONT = TRUE
  C_PPSTART = TRUE
POSTCONDITION TraceAccepted
CHECK_DEADLOCK FALSE
