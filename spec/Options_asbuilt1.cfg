SPECIFICATION Spec
CONSTANTS
  MaxLines = 2
  EscapeOnSave = FALSE
  TypeKeyword = "type"
  TokenNames <- MiniTokens
  LangNames <- MiniLang
INVARIANTS RoundTrip SaveIdempotent BadLineIsNoOp GoodLineQuiet DiagnosedOrApplied
CHECK_DEADLOCK FALSE
