SPECIFICATION Spec
CONSTANTS
  MaxLen = 3
  MaxEdits = 2
  C_FUSE = FALSE
  C_CPPNL = TRUE
  C_PPNL = TRUE
  C_PPCONT = TRUE
  C_PPSTART = TRUE
INVARIANTS TokensPreserved CommentsPreserved
CHECK_DEADLOCK FALSE
