SPECIFICATION TSpec
CONSTANTS
  Sites = {"nl_if_brace"}
  Emit = FALSE
  RemoveAcrossCpp = FALSE
POSTCONDITION TraceAccepted
CHECK_DEADLOCK FALSE
