SPECIFICATION TSpec
CONSTANTS
  Alphabet = {65}
  MaxPayload = 0
  Forms = {"plain"}
  OptSets <- DefaultOpts
  RejectOverlong = TRUE
  Emit = FALSE
POSTCONDITION TraceAccepted
CHECK_DEADLOCK FALSE
