SPECIFICATION TSpec
CONSTANTS
  MaxLines = 8
  Widths = {4}
  Shifts <- DefShifts
  Gaps = {1}
  CmtCols = {1}
  Breaks = {1}
  Threshs = {0}
  Spans = {0}
  MinGaps = {0}
  Indent = 5
  Emit = FALSE
INVARIANTS Judge
POSTCONDITION TraceAccepted
CHECK_DEADLOCK FALSE
