SPECIFICATION TSpec
CONSTANTS
  MaxLines = 8
  Widths = {1}
  Lens = {1}
  Breaks = {1}
  Spans = {0}
  Threshs = {0}
  Indent = 5
  TabStops = {FALSE}
  TabSize = 4
  Emit = FALSE
INVARIANTS Judge
POSTCONDITION TraceAccepted
CHECK_DEADLOCK FALSE
