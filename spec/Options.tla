---------------------------- MODULE Options ----------------------------
(* M-check of the configuration loader/saver over a small abstract registry (two options   *)
(* per kind where references matter) and a line alphabet of good and bad spellings          *)
(* (OptionsWords.tla): every sequence of up to MaxLines lines is loaded, then saved by the  *)
(* model of save_option_file(), reloaded and saved again.                                   *)
(*   RoundTrip        Load(Save(s)) = s   on values, keywords and extensions (C15)          *)
(*   SaveIdempotent   Save(Load(Save(s))) = Save(s)                                         *)
(*   BadLineIsNoOp    a line of BadLines changes nothing but the diagnostics, which name    *)
(*                    its line number (C16)                                                 *)
(*   GoodLineQuiet    a line of GoodLines produces no diagnostic                            *)
EXTENDS OptionsCore
CONSTANTS MaxLines,
          EscapeOnSave,      \* TRUE: as fixed; FALSE: strings written as "%s" unescaped (as built)
          TypeKeyword        \* "type" (as fixed) | "custom type" (as built)
MiniNames == {"b1", "b2", "i1", "i2", "l1", "t1", "n1", "n2", "u1", "s1", "s2"}
MiniOrder == <<"b1", "b2", "i1", "i2", "l1", "t1", "n1", "n2", "u1", "s1", "s2">>
MiniKind(o) == CASE o \in {"b1", "b2"} -> "bool" [] o \in {"i1", "i2"} -> "iarf" [] o = "l1" -> "lineend"
                 [] o = "t1" -> "tokenpos" [] o \in {"n1", "n2"} -> "num" [] o = "u1" -> "unum" [] OTHER -> "string"
MiniBounded(o) == o \in {"n1", "u1"}
MiniMin(o) == IF o = "n1" THEN 0 - 2 ELSE 0
MiniMax(o) == IF o = "n1" THEN 3 ELSE 4
MiniDefault(o) == CASE o \in {"b1", "b2"} -> WordChars["false"] [] o \in {"i1", "i2"} -> WordChars["ignore"]
                    [] o = "l1" -> WordChars["auto"] [] o = "t1" -> WordChars["ignore"]
                    [] o \in {"n1", "n2", "u1"} -> <<"0">> [] OTHER -> <<>>
MiniReg == [o \in MiniNames |-> [kind |-> MiniKind(o), bounded |-> MiniBounded(o), min |-> MiniMin(o), max |-> MiniMax(o), def |-> MiniDefault(o)]]
MiniTokens == {"TYPE", "FOR", "MACRO_OPEN", "MACRO_CLOSE", "MACRO_ELSE"}
MiniLang(w) == CASE w = "c" -> "C" [] w = "cpp" -> "CPP" [] OTHER -> ""
Init0 == St0

\* ---- model of save_option_file() + print_custom_keywords() + print_extensions()
RECURSIVE Escape(_)
Escape(v) == IF v = <<>> THEN <<>>
             ELSE IF EscapeOnSave /\ Head(v) \in {"\"", "\\"} THEN <<"\\", Head(v)>> \o Escape(Tail(v))
             ELSE <<Head(v)>> \o Escape(Tail(v))
SaveOpt(st, o) == MiniNameChars[o] \o <<" ", "=", " ">> \o
                  (IF MiniKind(o) = "string" THEN <<"\"">> \o Escape(ValOf(MiniReg, st.val, o)) \o <<"\"">> ELSE ValOf(MiniReg, st.val, o))
TypeKwChars == IF TypeKeyword = "type" THEN <<"t","y","p","e">> ELSE <<"c","u","s","t","o","m"," ","t","y","p","e">>
KwLine(p) == CASE p[1] = "TYPE" -> TypeKwChars \o <<" ">> \o KwWordChars[p[2]]
               [] p[1] = "MACRO_OPEN" -> <<"m","a","c","r","o","-","o","p","e","n"," ">> \o KwWordChars[p[2]]
               [] p[1] = "MACRO_CLOSE" -> <<"m","a","c","r","o","-","c","l","o","s","e"," ">> \o KwWordChars[p[2]]
               [] p[1] = "MACRO_ELSE" -> <<"m","a","c","r","o","-","e","l","s","e"," ">> \o KwWordChars[p[2]]
               [] OTHER -> <<"s","e","t"," ">> \o TokChars[p[1]] \o <<" ">> \o KwWordChars[p[2]]
ExtLine(p) == <<"f","i","l","e","_","e","x","t"," ">> \o LangChars[p[1]] \o <<" ">> \o ExtChars[p[2]]
RECURSIVE SetToSeq(_)
SetToSeq(S) == IF S = {} THEN <<>> ELSE LET x == CHOOSE y \in S : TRUE IN <<x>> \o SetToSeq(S \ {x})
SaveLines(st) == [i \in 1..Len(MiniOrder) |-> SaveOpt(st, MiniOrder[i])]
                 \o [i \in 1..Cardinality(st.kw) |-> KwLine(SetToSeq(st.kw)[i])]
                 \o [i \in 1..Cardinality(st.ext) |-> ExtLine(SetToSeq(st.ext)[i])]
Same(x, y) == NonDefault(x) = NonDefault(y) /\ x.kw = y.kw /\ x.ext = y.ext

\* ---- system: feed lines one by one
VARIABLES st, n, last
vars == <<st, n, last>>
\* kind: "good" (never a diagnostic), "bad" (always one), "ctx" (a reference whose value may be out of range for the target)
AllLines == [i \in 1..Len(GoodLines) |-> [c |-> GoodLines[i], kind |-> "good"]] \o
            [i \in 1..Len(BadLines) |-> [c |-> BadLines[i], kind |-> "bad"]] \o
            [i \in 1..Len(CtxLines) |-> [c |-> CtxLines[i], kind |-> "ctx"]]
Init == st = Init0 /\ n = 0 /\ last = [kind |-> "good", before |-> Init0]
Feed(i) == /\ n < MaxLines
           /\ st' = ProcessLine(MiniReg, st, AllLines[i].c) /\ n' = n + 1
           /\ last' = [kind |-> AllLines[i].kind, before |-> st]
Next == \E i \in 1..Len(AllLines) : Feed(i)
Spec == Init /\ [][Next]_vars

Reloaded      == LoadLines(MiniReg, Init0, SaveLines(st))
RoundTrip     == Same(Reloaded, st) /\ Reloaded.diag = <<>>
SaveIdempotent == SaveLines(Reloaded) = SaveLines(st)
NoOpWithDiag  == Same(st, last.before) /\ st.diag = Append(last.before.diag, st.line)
BadLineIsNoOp == (n > 0 /\ last.kind = "bad") => NoOpWithDiag
GoodLineQuiet == (n > 0 /\ last.kind = "good") => st.diag = last.before.diag
\* whatever the line: either it is diagnosed and has no other effect, or it is not diagnosed
DiagnosedOrApplied == n > 0 => (NoOpWithDiag \/ st.diag = last.before.diag)
=========================================================================
