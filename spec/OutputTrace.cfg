SPECIFICATION TSpec
CONSTANTS
  MaxSteps = 0
  Cols = {1}
  TabSizes = {8}
  KeepTabsOnFirst = FALSE
POSTCONDITION TraceAccepted
CHECK_DEADLOCK FALSE
