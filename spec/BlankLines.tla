----------------------------- MODULE BlankLines -----------------------------
(* Blank-line limits (C20): do_blank_lines() for one newline chunk, newlines_eat_start_end()  *)
(* and the repetition of both by the newline loop of uncrustify_file().                       *)
(*                                                                                           *)
(* A newline chunk carries nl = number of line breaks (nl - 1 blank lines).  For the chunk     *)
(* that opens or closes the file do_blank_lines() pretends one extra line, caps, lets the      *)
(* count options speak, and takes the extra line away again.                                   *)
EXTENDS Naturals, Integers, Sequences, TLC, StartEnd
CONSTANTS MaxN, MaxOpt,
          Unpretend        \* TRUE: the pretended line is removed again (as built); FALSE: a change that forgets it
VARIABLES n, edge, nlmax, canInc, req, seOpt, seMin
vars == <<n, edge, nlmax, canInc, req, seOpt, seMin>>

Cap(k, m) == IF m > 0 /\ k > m THEN m ELSE k
(* req: the largest count a blank-line count option asks for at this place (0 = none asks);   *)
(* count options only ever raise the count (blank_line_set is guarded by opt > count)          *)
DoBlank(k, e, m, ci, r) ==
  LET k1 == IF e # "interior" THEN k + 1 ELSE k
      k2 == Cap(k1, m)
      k3 == IF ~ci THEN 1 ELSE IF r > k2 THEN r ELSE k2
  IN IF e # "interior" /\ Unpretend /\ k3 > 1 THEN k3 - 1 ELSE k3
(* one iteration of the newline loop on this chunk; a chunk whose count reaches 0 at the file   *)
(* edge is deleted (REMOVE) or written as nothing (FORCE with min 0)                            *)
Iter(k, e, m, ci, r, o, mn) ==
  IF k = 0 THEN (IF e = "interior" THEN 0 ELSE StartEndCount(o, mn, 0))
  ELSE LET d == DoBlank(k, e, m, ci, r)
       IN IF e = "interior" THEN d ELSE StartEndCount(o, mn, d)
Final == Iter(Iter(n, edge, nlmax, canInc, req, seOpt, seMin), edge, nlmax, canInc, req, seOpt, seMin)

Init == /\ n \in 0..MaxN /\ edge \in {"first", "last", "interior"} /\ nlmax \in 0..MaxOpt /\ canInc \in BOOLEAN
        /\ req \in 0..MaxOpt /\ seOpt \in {"ignore", "add", "remove", "force"} /\ seMin \in 0..MaxOpt
        /\ (edge = "interior" => (n >= 1 /\ seOpt = "ignore" /\ seMin = 0))
        /\ (nlmax > 0 => (req <= nlmax /\ seMin <= nlmax))       \* the proviso of the statement / too_big_for_nl_max()
Next == UNCHANGED vars
Spec == Init /\ [][Next]_vars

(* ---------------------------------------------------------------- properties *)
CapRespected == nlmax > 0 => Final <= nlmax
(* the edge handling is invisible when nothing limits or asks: n in, n out *)
EdgeNeutral == (nlmax = 0 /\ req = 0 /\ canInc /\ seOpt = "ignore" /\ n >= 1) => Final = n
StartEndExact == (edge # "interior") =>
                   CASE seOpt = "remove" -> Final = 0
                     [] seOpt = "force" -> Final = seMin
                     [] seOpt = "add" -> Final >= seMin
                     [] OTHER -> TRUE
(* a second run of the loop changes nothing: the loop can stop *)
Stable == Iter(Final, edge, nlmax, canInc, req, seOpt, seMin) = Final
=============================================================================
