---------------------------- MODULE IndentTrace ----------------------------
(* M-trace for Indent (C18): one event per (program, configuration).  The harness renders a    *)
(* TLC-generated program twice with different seeded original indentation, formats both and     *)
(* reports the column (tabs expanded) of the first token of every line: c1, c2.                 *)
(*   property  SameBlockSameColumn / OneLevelDeeper / CloseBraceAligns on c1                    *)
(*             OriginalIndentIrrelevant  c1 = c2                                                *)
(*             the same three clauses on c3, the rendering with comments                        *)
(*   mechanism ColumnsAsModel  c1 = Cols(prog, opts)                                  (DRIFT)   *)
EXTENDS Indent, IOUtils
TraceLog == ndJsonDeserialize(IOEnv.TRACE)
VARIABLES l
Ev == TraceLog[l]
TNext == /\ l <= Len(TraceLog) /\ l' = l + 1 /\ UNCHANGED vars
         /\ LET e == Ev
                P == e.prog
                bad == IF e.rc # 0 THEN {} ELSE
                       (IF ~SameBlockSameColumn(P, e.c1) THEN {"SameBlockSameColumn"} ELSE {}) \cup
                       (IF ~OneLevelDeeper(P, e.c1, e.o) THEN {"OneLevelDeeper"} ELSE {}) \cup
                       (IF ~CloseBraceAligns(P, e.c1, e.o) THEN {"CloseBraceAligns"} ELSE {}) \cup
                       (IF ~BracePlacement(P, e.c1, e.o) THEN {"BracePlacement"} ELSE {}) \cup
                       (IF e.c1 # e.c2 THEN {"OriginalIndentIrrelevant"} ELSE {}) \cup
                       (* the third rendering carries trailing comments and comment lines: the code lines obey the same clauses *)
                       (IF ~SameBlockSameColumn(P, e.c3) THEN {"SameBlockSameColumn"} ELSE {}) \cup
                       (IF ~OneLevelDeeper(P, e.c3, e.o) THEN {"OneLevelDeeper"} ELSE {}) \cup
                       (IF ~CloseBraceAligns(P, e.c3, e.o) THEN {"CloseBraceAligns"} ELSE {}) \cup
                       (IF ~BracePlacement(P, e.c3, e.o) THEN {"BracePlacement"} ELSE {})
                drift == (IF e.rc = 0 /\ e.c1 # Cols(P, e.o) THEN {"ColumnsAsModel"} ELSE {}) \cup
                         (IF e.rc = 0 /\ e.c3 # e.c1 THEN {"CommentsMoveCode"} ELSE {})
            IN (bad # {} \/ drift # {}) => PrintT("@@" \o ToJson([l |-> l, id |-> e.id, bad |-> bad, drift |-> drift,
                                                                  expected |-> IF e.rc = 0 THEN Cols(P, e.o) ELSE <<>>]))
TInit == l = 1 /\ prog = <<>> /\ stack = <<>> /\ closed = ""
TSpec == TInit /\ [][TNext]_<<l, vars>>
TraceAccepted == TLCGet("stats").diameter - 1 = Len(TraceLog)
=============================================================================
