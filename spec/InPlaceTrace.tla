---------------------------- MODULE InPlaceTrace ----------------------------
(* M-trace for InPlace: consumes histories executed on the real binary (user writes by the  *)
(* harness, runs under strace with a kill or an errno injected at one syscall), one JSON     *)
(* object per line, and                                                                      *)
(*  - explains every observed run by the spec's steps (which pc was killed / which step      *)
(*    failed is inferred by TLC); an unexplained run is a DRIFT line and the observed        *)
(*    contents are taken over so that the rest of the history is still checked;              *)
(*  - evaluates the C13 / C14 property predicates on the state after every event and prints  *)
(*    the ones that do not hold (the harness turns those into VIOLATION / KNOWN-FINDING).    *)
EXTENDS InPlaceCore, Json, IOUtils
TraceLog == ndJsonDeserialize(IOEnv.TRACE)
VARIABLES t, l
Ev == TraceLog[l]

Kills  == Pcs \ {"idle"}
Faults == {{}} \cup {{p} : p \in Fallible} \cup {{p, q} : p, q \in Fallible}
Matches(r, e) == r.F = e.F /\ r.T = e.T /\ r.B = e.B /\ r.M = e.M /\ r.exit = e.exit
Explain(r0, e) ==
   IF e.inj = "none" THEN { r \in {RunFrom(r0, "never", {})} : Matches(r, e) }
   ELSE IF e.inj = "kill" THEN { r \in {RunFrom(r0, kp, {}) : kp \in Kills} : Matches(r, e) }
   ELSE IF e.inj = "benign" THEN { r \in {RunFrom(r0, "never", {})} : Matches(r, e) }
   \* a read-only open that fails: the load and the md5 source are real failures, the md5 record and
   \* the compare fall back gracefully (backup made / rename done)
   ELSE IF e.inj = "ro" THEN { r \in {RunFrom(r0, "never", fs) : fs \in {{}, {"load"}, {"md5read"}, {"md5src"}}} : Matches(r, e) }
   ELSE { r \in {RunFrom(r0, "never", fs) : fs \in Faults \ {{}}} : Matches(r, e) }

\* observed contents taken over when the spec cannot explain the run (ghosts by observable rules)
Obs(r0, e) ==
   LET left == e.exit = "ok" \/ e.F # r0.F
       r1 == [r0 EXCEPT !.F = e.F, !.T = e.T, !.B = e.B, !.M = e.M, !.exit = e.exit, !.pc = "idle",
                        !.faulted = (e.inj = "fault"),
                        !.bkOwn = (e.B # r0.B /\ e.B = r0.F /\ r0.F = r0.lastLeft),
                        !.tainted = r0.tainted \/ (e.exit = "killed" /\ e.F # r0.F /\ e.M # e.F)]
   IN IF left THEN Leave(r1, e.F) ELSE r1

C13Props(r) == (IF AllOrNothingR(r) THEN {} ELSE {"AllOrNothing"}) \cup
               (IF BackupWhenGoneS(r) THEN {} ELSE {"BackupWhenGone"}) \cup
               (IF FailureIsReportedR(r) THEN {} ELSE {"FailureIsReported"}) \cup
               (IF SilentFaultR(r) THEN {"SilentMd5Fault"} ELSE {})
C14Props(r) == (IF BackupIsOriginS(r) THEN {} ELSE {"BackupIsOrigin"}) \cup
               (IF Md5DescribesOutputR(r) THEN {} ELSE {"Md5DescribesOutput"}) \cup
               (IF NeverBackupOwnS(r) THEN {} ELSE {"NeverBackupOwn"})
Report(r, drift) ==
   LET bad == C13Props(r) \cup (IF Modes = {"replace"} THEN C14Props(r) ELSE {}) IN
   (bad # {} \/ drift) =>
      PrintT("@@" \o ToJson([l |-> l, bad |-> bad, drift |-> drift, tainted |-> r.tainted,
                            hid |-> Ev.hid]))

TInit == l = 1 /\ t = InitRec("none")
TReset == /\ Ev.e = "Reset" /\ t' = InitRec(Ev.c)
TUser  == /\ Ev.e = "User"  /\ t' = UserRec(t, Ev.c)
TRun   == /\ Ev.e = "Run"
          /\ LET r0 == StartRun(t, Ev.k, Ev.m)
                 ex == Explain(r0, Ev)
             IN IF ex # {} THEN \E r \in ex : t' = r /\ Report(r, FALSE)
                ELSE t' = Obs(r0, Ev) /\ Report(t', TRUE)
TNext == l <= Len(TraceLog) /\ l' = l + 1 /\ (TReset \/ TUser \/ TRun)
TSpec == TInit /\ [][TNext]_<<t, l>>
TraceAccepted == TLCGet("stats").diameter - 1 = Len(TraceLog)
=========================================================================
