SPECIFICATION Spec
CONSTANTS
  Depth = 2
  ChainDepth = 3
  SkipAllVClose = TRUE
  IfGuard = TRUE
  Emit = FALSE
INVARIANTS MeaningKept OnlyBracesGo EmitTree
CHECK_DEADLOCK FALSE
