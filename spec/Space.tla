------------------------------- MODULE Space -------------------------------
(* Spacing decisions (C19): what space_text() does with the answer of do_space().            *)
(*                                                                                           *)
(*   do_space(first, second) logs a rule name and returns an IARF value;                      *)
(*   ensure_force_space() turns it into value|ADD when the pair must stay apart;              *)
(*   space_text() converts the value into a column delta (the arithmetic below).              *)
(* The property speaks about the value configured for the option that the rule names:         *)
(* Clause(v, gapIn, gapOut, sep).  The model shows that the arithmetic realises the clause    *)
(* when do_space() returns the value of the option it names; WrongOption (a return of another  *)
(* option's value) breaks it.                                                                  *)
EXTENDS Naturals, Integers, TLC
CONSTANTS MaxGap,
          WrongOption    \* FALSE: the value returned is the named option's; TRUE: some other option's value
VARIABLES v, other, forced, minsp, gapIn, sameLine,
          qt,            \* the pair lies inside a Qt SIGNAL( ) / SLOT( ) macro and use_options_overriding_for_qt_macros is on
          inTable        \* the named option is one of those the Qt override replaces
vars == <<v, other, forced, minsp, gapIn, sameLine, qt, inTable>>
(* options_for_QT.cpp: while space_text() walks the arguments of SIGNAL / SLOT these options are  *)
(* temporarily set to Remove (Qt compares the normalised signature text); documented by the       *)
(* option use_options_overriding_for_qt_macros.  The value "configured" there is the override.    *)
QtRules == {"sp_inside_fparen", "sp_inside_fparens", "sp_paren_paren", "sp_before_comma", "sp_after_comma", "sp_before_byref",
            "sp_before_unnamed_byref", "sp_after_type", "sp_before_ptr_star", "sp_before_unnamed_ptr_star", "sp_inside_angle"}
Effective(val, inqt, tab) == IF inqt /\ tab THEN "remove" ELSE val
IARF == {"ignore", "add", "remove", "force"}
OrAdd(x) == CASE x = "ignore" -> "add" [] x = "remove" -> "force" [] OTHER -> x
(* column delta chosen by space_text(); gapIn = orig_col(next) - orig_col_end(first) when both *)
(* were on one line in the input, else the "keep relative spacing" branches do not apply       *)
Apply(av, ms, gi, same) ==
  LET m == IF ms < 1 THEN 1 ELSE ms
  IN CASE av = "force" -> m
       [] av = "add" -> IF same /\ gi > m THEN gi ELSE m
       [] av = "remove" -> 0
       [] av = "ignore" -> IF same THEN gi ELSE 0
Returned == IF WrongOption THEN other ELSE Effective(v, qt, inTable)
GapOut == Apply(IF forced THEN OrAdd(Returned) ELSE Returned, minsp, gapIn, sameLine)
(* what the option value promises; sep = the two texts written without a blank would lex        *)
(* differently (Fusion.tla); the Ignore clause speaks only about pairs that shared a line       *)
Clause(val, gi, go, same, sep) ==
  CASE val = "remove" -> go = 0 \/ (sep /\ go = 1)
    [] val = "force"  -> go = 1
    [] val = "add"    -> go >= 1
    [] val = "ignore" -> (~same) \/ ((go > 0) <=> (gi > 0)) \/ (sep /\ go >= 1)
Init == /\ v \in IARF /\ other \in IARF /\ forced \in BOOLEAN /\ minsp \in {1} /\ gapIn \in 0..MaxGap /\ sameLine \in BOOLEAN
        /\ qt \in BOOLEAN /\ inTable \in BOOLEAN
Next == UNCHANGED vars
Spec == Init /\ [][Next]_vars
ValueObeyed == Clause(Effective(v, qt, inTable), gapIn, GapOut, sameLine, forced)
=============================================================================
