SPECIFICATION GSpec
CONSTANTS
  MaxSteps = 0
  MaxFaults = 0
  AllowCrash = FALSE
  Modes = {"replace"}
  UserConts = {"U1", "U2", "A2", "X"}
  Md5Order = "after"
  MaxLen = 3
INVARIANT GInv
CONSTRAINT Emit
CHECK_DEADLOCK FALSE
