SPECIFICATION TSpec
CONSTANTS
  MaxLong = 1
  Progress = TRUE
POSTCONDITION TraceAccepted
CHECK_DEADLOCK FALSE
