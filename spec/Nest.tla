-------------------------------- MODULE Nest --------------------------------
(* Indentation of statements whose bodies have NO braces (C18): statement trees with braced     *)
(* and unbraced bodies - if / else, loops, do-while, try / catch / finally - written one token    *)
(* group per line.  uncrustify gives an unbraced body a virtual brace pair; the statement of      *)
(* the body stands one level deeper than its header exactly as a braced one does, and the level   *)
(* returns behind it.  Lines(x, lv) is that reading: every line with its nesting level.            *)
(*   BodyOneDeeper    column = 1 + indent_columns * level for every line                          *)
(* Indent.tla covers the braced constructs with the brace-style options; this module adds the      *)
(* virtual braces (brace_cleanup.cpp: handle_complex_close, insert_vbrace_open and _close).                      *)
EXTENDS Naturals, Sequences, TLC, Json
CONSTANTS Depth, WithTry, Emit
VARIABLE tree
SS == [k |-> "s"]
NONE == [k |-> "none"]
RECURSIVE Trees(_)
Bodies(T) == [br : BOOLEAN, st : T]
Braced(T) == [br : {TRUE}, st : T]
Trees(n) == IF n = 0 THEN {SS}
            ELSE LET T == Trees(n - 1)
                     B == Bodies(T)
                 IN T \cup [k : {"if"}, t : B, e : B \cup {NONE}] \cup [k : {"loop"}, b : B] \cup [k : {"do"}, b : B]
                      \cup (IF WithTry THEN [k : {"try"}, b : Braced(T), fin : BOOLEAN] ELSE {})
(* an else-less if at the end of an unbraced then-body would capture the owner's else: such a      *)
(* tree cannot be written down in the language                                                     *)
RECURSIVE EndsOpenIf(_)
EndsOpenIf(x) == CASE x.k = "if" -> IF x.e = NONE THEN (IF x.t.br THEN TRUE ELSE TRUE)
                                    ELSE (~x.e.br /\ EndsOpenIf(x.e.st))
                   [] x.k = "loop" -> ~x.b.br /\ EndsOpenIf(x.b.st)
                   [] OTHER -> FALSE
RECURSIVE Writable(_)
WritableBody(b) == Writable(b.st)
Writable(x) == CASE x.k = "if" -> /\ WritableBody(x.t) /\ (x.e # NONE => WritableBody(x.e))
                                  /\ (x.e # NONE /\ ~x.t.br => ~EndsOpenIf(x.t.st))
                 [] x.k \in {"loop", "do", "try"} -> WritableBody(x.b)
                 [] OTHER -> TRUE
(* lines with levels *)
Ln(t, lv) == <<[t |-> t, lv |-> lv]>>
(* ei = indent_else_if: an 'if' that is the whole unbraced body of an 'else' continues the chain   *)
(* ('else' / 'if' read as 'else if') and stays at the chain's level unless the option indents it   *)
RECURSIVE Lines(_, _, _)
Body(b, lv, ei) == IF b.br THEN Ln("{", lv) \o Lines(b.st, lv + 1, ei) \o Ln("}", lv) ELSE Lines(b.st, lv + 1, ei)
ElseBody(b, lv, ei) == IF ~b.br /\ b.st.k = "if" /\ ~ei THEN Lines(b.st, lv, ei) ELSE Body(b, lv, ei)
Lines(x, lv, ei) ==
  CASE x.k = "s" -> Ln("S", lv)
    [] x.k = "if" -> Ln("I", lv) \o Body(x.t, lv, ei) \o (IF x.e = NONE THEN <<>> ELSE Ln("E", lv) \o ElseBody(x.e, lv, ei))
    [] x.k = "loop" -> Ln("L", lv) \o Body(x.b, lv, ei)
    [] x.k = "do" -> Ln("D", lv) \o Body(x.b, lv, ei) \o Ln("W", lv)
    [] x.k = "try" -> Ln("T", lv) \o Body(x.b, lv, ei) \o Ln("C", lv) \o Body([br |-> TRUE, st |-> SS], lv, ei)
                      \o (IF x.fin THEN Ln("F", lv) \o Body([br |-> TRUE, st |-> SS], lv, ei) ELSE <<>>)
(* judged on any column assignment c *)
BodyOneDeeper(L, c, ic, base) == \A i \in 1..Len(L) : c[i] = base + ic * L[i].lv
SameLevelSameColumn(L, c) == \A i, j \in 1..Len(L) : L[i].lv = L[j].lv => c[i] = c[j]
Cols(L, ic, base) == [i \in 1..Len(L) |-> base + ic * L[i].lv]
Init == tree \in {x \in Trees(Depth) : Writable(x)}
Next == UNCHANGED tree
Spec == Init /\ [][Next]_tree
Good == \A ei \in BOOLEAN : LET L == Lines(tree, 0, ei) IN SameLevelSameColumn(L, Cols(L, 4, 5)) /\ BodyOneDeeper(L, Cols(L, 4, 5), 4, 5)
EmitLines == Emit => PrintT("@@" \o ToJson([lines |-> Lines(tree, 0, FALSE), lines_ei |-> Lines(tree, 0, TRUE)]))
=============================================================================
