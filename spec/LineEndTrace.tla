--------------------------- MODULE LineEndTrace ---------------------------
(* M-trace for LineEnd (C08).  Event kinds:                                                  *)
(*  Layout  a TLC-generated layout rendered to bytes and formatted with newlines = opt:       *)
(*          terms = the set of terminators found in the output, le / chosen = the census and  *)
(*          cpd.newline reported by the Tokenized hook                                        *)
(*  Commute the same source in several terminator conventions, formatted with one fixed       *)
(*          newlines setting: ids = content id of each output after mapping terminators to LF *)
(*  Subst   Fmt_crlf(x) (and Fmt_cr(x)) against Fmt_lf(x): ids of the LF-normalised outputs   *)
EXTENDS LineEnd, IOUtils
TraceLog == ndJsonDeserialize(IOEnv.TRACE)
VARIABLES l
Ev == TraceLog[l]
ToSet(sq) == {sq[j] : j \in 1..Len(sq)}
TermOf(o) == o
LayoutBad(e) ==
  LET ts == ToSet(e.terms)
      prop == PropCensus(e.layout)
  IN (IF e.opt # "auto" /\ ts \notin {{}, {e.opt}} THEN {"OneTerminator"} ELSE {}) \cup
     (IF e.opt = "auto" /\ Cardinality(ts) > 1 THEN {"OneTerminator"} ELSE {}) \cup
     (IF e.opt = "auto" /\ Cardinality(ts) = 1 /\ ~(ts \subseteq ArgMax(prop)) THEN {"AutoPicksMostFrequent"} ELSE {})
LayoutDrift(e) ==
  (IF e.le # <<>> /\ e.le # <<CodeCensus(e.layout)["lf"], CodeCensus(e.layout)["crlf"], CodeCensus(e.layout)["cr"]>>
   THEN {"CensusAsModel"} ELSE {}) \cup
  (IF e.chosen # "" /\ e.chosen # Choose(e.opt, CodeCensus(e.layout)) THEN {"ChoiceAsModel"} ELSE {})
(* when the choice is wrong AND it is exactly the choice the coded census makes: the uncounted  *)
(* line kinds present in the layout - the signature of a census gap.  A wrong choice that the    *)
(* coded census does not explain has no such signature (it is a different defect).               *)
Why(e) == IF ToSet(e.terms) = {Choose(e.opt, CodeCensus(e.layout))}
          THEN {k \in PropKinds \ Counted : \E j \in 1..Len(e.layout) : e.layout[j].k = k}
          ELSE {}
AllEqual(sq) == \A i, j \in 1..Len(sq) : sq[i] = sq[j]
TNext == /\ l <= Len(TraceLog) /\ l' = l + 1 /\ UNCHANGED vars
         /\ LET e == Ev
                bad == CASE e.e = "Layout" -> IF e.rc = 0 THEN LayoutBad(e) ELSE {}
                         [] e.e = "Commute" -> IF AllEqual(e.ids) THEN {} ELSE {"CommuteConvert"}
                         [] e.e = "Subst" -> IF AllEqual(e.ids) /\ e.termsok THEN {} ELSE {"CommuteOption"}
                         (* newlines=auto with a one-line file inserted by cmt_insert_file_header / _footer whose terminator differs: *)
                         (* the source's lines are the majority, every line of the output ends the way they do                        *)
                         [] e.e = "Insert" -> IF e.rc # 0 \/ ToSet(e.terms) \subseteq {e.src} THEN {} ELSE {"AutoPicksMostFrequent"}
                drift == IF e.e = "Layout" /\ e.rc = 0 THEN LayoutDrift(e) ELSE {}
                why == IF e.e = "Layout" /\ "AutoPicksMostFrequent" \in bad THEN Why(e) ELSE {}
            IN (bad # {} \/ drift # {}) => PrintT("@@" \o ToJson([l |-> l, id |-> e.id, bad |-> bad, drift |-> drift, why |-> why]))
TInit == l = 1 /\ layout = <<>> /\ opt = "lf"
TSpec == TInit /\ [][TNext]_<<l, vars>>
TraceAccepted == TLCGet("stats").diameter - 1 = Len(TraceLog)
=============================================================================
