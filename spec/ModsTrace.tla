----------------------------- MODULE ModsTrace -----------------------------
(* M-trace for Mods (C04).                                                                    *)
(*  Tree   a TLC-generated statement tree rendered to C and formatted with the brace-removing  *)
(*         options: abs = the output abstracted back to I / E / L / S / { / } tokens            *)
(*  File   any source formatted with code-modifying options: mods = the names of the mod_       *)
(*         options that are on, tin / tout = token sequences of input and output, bal_in /       *)
(*         bal_out = whether their brackets nest properly (BalancedSeq, computed by the harness   *)
(*         for long sequences)                                                                    *)
EXTENDS Mods, IOUtils
TraceLog == ndJsonDeserialize(IOEnv.TRACE)
VARIABLES l
Ev == TraceLog[l]
ToSet(sq) == {sq[j] : j \in 1..Len(sq)}
Classes(mods) == {ModClass(m) : m \in ToSet(mods)} \ {"none"}
TreeBad(e) ==
  (IF PStmt(e.abs)[1] # PStmt(e.tokens)[1] THEN {"MeaningKept"} ELSE {}) \cup
  (IF Strip(e.abs, {"{", "}"}) # Strip(e.tokens, {"{", "}"}) THEN {"OnlyNamedKinds"} ELSE {}) \cup
  (IF ~BalancedSeq(e.abs) THEN {"Balanced"} ELSE {})
FileBad(e) ==
  LET cl == Classes(e.mods)
  IN (IF ~e.sorting /\ ~OrderKept(e.tin, e.tout, cl) THEN {"OnlyNamedKinds"} ELSE {}) \cup
     (IF e.bal_in /\ ~e.bal_out THEN {"Balanced"} ELSE {}) \cup
     (IF e.sorting /\ e.lines_in # e.lines_out THEN {"SortPermutesLines"} ELSE {})
TNext == /\ l <= Len(TraceLog) /\ l' = l + 1 /\ UNCHANGED tree
         /\ LET e == Ev
                bad == IF e.rc # 0 THEN {} ELSE IF e.e = "Tree" THEN TreeBad(e) ELSE FileBad(e)
                drift == IF e.rc = 0 /\ e.e = "Tree" /\ e.abs # e.after THEN {"RemovedBracesAsModel"} ELSE {}
            IN (bad # {} \/ drift # {}) => PrintT("@@" \o ToJson([l |-> l, id |-> e.id, bad |-> bad, drift |-> drift]))
TInit == l = 1 /\ tree = SS
TSpec == TInit /\ [][TNext]_<<l, tree>>
TraceAccepted == TLCGet("stats").diameter - 1 = Len(TraceLog)
=============================================================================
