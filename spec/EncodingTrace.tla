--------------------------- MODULE EncodingTrace ---------------------------
(* M-trace for Encoding (C09).                                                               *)
(*  Case     a TLC-generated file (frame + payload, form, options) given to the binary:       *)
(*           rc and the bytes it printed.  Property: NeverAltered / BomPolicy on the observed  *)
(*           bytes; mechanism: the observed bytes are exactly Run(file, o).                    *)
(*  Sweep    a block of consecutive Unicode scalar values written in one encoding inside a     *)
(*           comment or a string literal: mismatch = first scalar not reproduced, -1 if none   *)
(*  Commute  one source transcoded to several encodings, formatted, decoded: ids of the texts  *)
EXTENDS Encoding, IOUtils
TraceLog == ndJsonDeserialize(IOEnv.TRACE)
VARIABLES l
Ev == TraceLog[l]
AllEqual(sq) == \A i, j \in 1..Len(sq) : sq[i] = sq[j]
StartsWithBom(b) == (Len(b) >= 2 /\ SubSeq(b, 1, 2) \in {<<255, 254>>, <<254, 255>>}) \/ (Len(b) >= 3 /\ SubSeq(b, 1, 3) = <<239, 187, 191>>)
CaseBad(e) ==
  LET det == Detect(e.file)
      dflt == e.o = Default
  IN (IF e.rc = 0 /\ dflt /\ ~(\/ e.out = e.file
                               \/ (det[2] \in {"utf16le", "utf16be"} /\ ~det[3] /\ e.out = WriteBom(det[2]) \o e.file))
      THEN {"NeverAltered"} ELSE {}) \cup
     (IF e.rc = 0 /\ e.o.bom = "ignore" /\ ~e.o.force /\ ~e.o.byte /\ det[1]
         /\ ~(IF det[2] \in {"utf16le", "utf16be"} THEN StartsWithBom(e.out) ELSE (StartsWithBom(e.out) <=> det[3]))
      THEN {"BomPolicy"} ELSE {}) \cup
     (* "unless utf8_bom / utf8_force say otherwise": what they say.  The output is UTF-8 when the input was UTF-8 or when  *)
     (* utf8_force is set (or utf8_byte for undecodable input); then utf8_bom add / force puts the mark, remove takes it.  *)
     (IF e.rc = 0 /\ det[1] /\ (e.o.force \/ (det[2] = "byte" /\ e.o.byte)) /\ Len(e.out) >= 2 /\ SubSeq(e.out, 1, 2) \in {<<255, 254>>, <<254, 255>>}
      THEN {"ForceIsUtf8"} ELSE {}) \cup
     (IF e.rc = 0 /\ det[1] /\ (det[2] = "utf8" \/ e.o.force \/ (det[2] = "byte" /\ e.o.byte))
         /\ ~(CASE e.o.bom \in {"add", "force"} -> (Len(e.out) >= 3 /\ SubSeq(e.out, 1, 3) = <<239, 187, 191>>)
                [] e.o.bom = "remove" -> ~(Len(e.out) >= 3 /\ SubSeq(e.out, 1, 3) = <<239, 187, 191>>)
                [] OTHER -> TRUE)
      THEN {"BomOption"} ELSE {})
CaseDrift(e) ==
  LET r == Run(e.file, e.o)
  IN (IF (e.rc = 0) # (r[1] = "ok") THEN {"StatusAsModel"} ELSE {}) \cup
     (IF e.rc = 0 /\ r[1] = "ok" /\ e.out # r[2] THEN {"BytesAsModel"} ELSE {})
TNext == /\ l <= Len(TraceLog) /\ l' = l + 1 /\ UNCHANGED vars
         /\ LET e == Ev
                bad == CASE e.e = "Case" -> CaseBad(e)
                         [] e.e = "Sweep" -> IF e.mismatch = -1 THEN {} ELSE {"ScalarIdentity"}
                         [] e.e = "Commute" -> (IF AllEqual(e.ids) THEN {} ELSE {"CommuteTranscode"}) \cup
                                               (* the characters outside ASCII come out again, all of them and in order *)
                                               (IF e.naok THEN {} ELSE {"NonAsciiSurvives"})
                drift == IF e.e = "Case" THEN CaseDrift(e) ELSE {}
            IN (bad # {} \/ drift # {}) => PrintT("@@" \o ToJson([l |-> l, id |-> e.id, bad |-> bad, drift |-> drift]))
TInit == l = 1 /\ form = "plain" /\ payload = <<>> /\ o = Default
TSpec == TInit /\ [][TNext]_<<l, vars>>
TraceAccepted == TLCGet("stats").diameter - 1 = Len(TraceLog)
=============================================================================
