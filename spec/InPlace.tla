---------------------------- MODULE InPlace ----------------------------
(* Small-step system over InPlaceCore: TLC explores every interleaving of run steps,   *)
(* kills, faults and user edits up to MaxSteps history steps and checks the C13 / C14   *)
(* invariants in every state.                                                           *)
EXTENDS InPlaceCore
\* ---------------------------------------------------------------- the small-step system
VARIABLES s, steps
vars == <<s, steps>>

Init == /\ s \in {InitRec(c) : c \in UserConts}
        /\ steps = 0

\* A user write the md5 protocol cannot see (new bytes equal to the recorded md5 but not to the
\* current content, or equal to what uncrustify last left while the file holds something else)
\* is outside the universe of C14, see DESIGN.md.
UserWrite(c) ==
   /\ s.pc = "idle" /\ steps < MaxSteps
   /\ UserOk(s, c)
   /\ s' = UserRec(s, c)
   /\ steps' = steps + 1

Start(k, m) == /\ s.pc = "idle" /\ steps < MaxSteps
               /\ s' = StartRun(s, k, m) /\ steps' = steps + 1
Do      == s.pc # "idle" /\ s' = Step(s) /\ UNCHANGED steps
DoFault == /\ s.pc \in Fallible /\ s.faults < MaxFaults
           /\ s' = FaultStep(s) /\ UNCHANGED steps
DoCrash == AllowCrash /\ s.pc # "idle" /\ s' = Crash(s) /\ UNCHANGED steps

Next == \/ \E c \in UserConts : UserWrite(c)
        \/ \E k \in {"A", "B"}, m \in Modes : Start(k, m)
        \/ Do \/ DoFault \/ DoCrash
Spec == Init /\ [][Next]_vars

Running == s.pc # "idle"
AllOrNothing      == AllOrNothingR(s)
BackupWhenGone    == BackupWhenGoneR(s)
FailureIsReported == FailureIsReportedR(s)
Idle == s.pc = "idle"
BackupIsOrigin     == BackupIsOriginR(s)
Md5DescribesOutput == Md5DescribesOutputR(s)
NeverBackupOwn     == NeverBackupOwnR(s)
TypeOK == /\ s.F \in Cont /\ s.T \in Cont /\ s.B \in Cont /\ s.M \in Cont
          /\ s.pc \in Pcs /\ s.F # "part"
=========================================================================
