---------------------------- MODULE BatchCore ----------------------------
(* Cross-file state of one uncrustify process (C11): cpd and the other statics that        *)
(* survive from one file to the next, which processing step dirties which field, which     *)
(* step (language detection, tokenizer start, output_text start, uncrustify_end) cleans    *)
(* it, and which fields the next file reads before writing.  TLC explores every sequence   *)
(* of file classes up to MaxFiles with and without -l and checks CleanStart: at every      *)
(* FileStart no field the next file is sensitive to is dirty.  BatchTrace.tla evaluates    *)
(* the same predicate on FileStart/FileEnd projections recorded from the real process and  *)
(* Independent (batch bytes = single-run bytes) on observed output.                        *)
EXTENDS Naturals, Sequences, FiniteSets, TLC
CONSTANTS MaxFiles, ForcedReset   \* ForcedReset: do_source_file restores the forced language per file (as fixed)

Fields == {"lang", "unc_off", "pp_level", "in_preproc", "le", "changes", "al_cnt", "ncnl", "ifdef_whole",
           "last_char", "spaces", "column", "did_newline", "qt", "chunks", "bout", "unc_off_used", "check_fail"}

\* file classes and what processing such a file leaves behind if nobody cleans up
Classes == {"plain", "objc_probe", "indent_off_open", "pragma_asm_open", "if_open", "qt_macro",
            "crlf", "ends_in_cr", "aligned", "empty"}
Dirt(c) ==
   {"changes", "chunks", "le", "column", "last_char", "did_newline"} \cup
   CASE c = "objc_probe"      -> {"lang"}
     [] c = "indent_off_open" -> {"unc_off", "unc_off_used"}
     [] c = "pragma_asm_open" -> {"unc_off"}
     [] c = "if_open"         -> {"pp_level", "in_preproc", "ncnl", "ifdef_whole"}
     [] c = "qt_macro"        -> {}        \* SIGNAL()/SLOT() overrides are restored at the closing parenthesis
     [] c = "aligned"         -> {"al_cnt"}
     [] c = "empty"           -> {}
     [] OTHER                 -> {}
\* uncrustify_end(), field by field
EndResets == {"unc_off", "al_cnt", "did_newline", "pp_level", "changes", "in_preproc", "le", "ncnl",
              "ifdef_whole", "chunks", "bout"}
\* (re)initialised by the next file before it is read: output_text() start, tokenizer start
StartInits == {"column", "did_newline"}
\* never read across files (write-only or cumulative by design)
Inert == {"unc_off_used", "check_fail"}
\* fields whose stale value can change the bytes of the next file
Sensitive == Fields \ (Inert \cup StartInits)

=========================================================================
