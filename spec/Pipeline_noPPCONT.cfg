SPECIFICATION Spec
CONSTANTS
  MaxLen = 3
  MaxEdits = 2
  C_FUSE = TRUE
  C_CPPNL = TRUE
  C_PPNL = TRUE
  C_PPCONT = FALSE
  C_PPSTART = TRUE
INVARIANTS TokensPreserved CommentsPreserved
CHECK_DEADLOCK FALSE
