------------------------------- MODULE CmtPipe -------------------------------
(* The two passes that place comments, one after the other, as uncrustify_file() runs them:       *)
(*   1. indent_text(): indent_comment() for comments on lines of their own and reindent_line()     *)
(*      for comments behind code (CmtIndent.tla, repeated here)                                    *)
(*   2. align_right_comments(): trailing comments whose gap in the INPUT is at least               *)
(*      align_right_cmt_gap, and comments on their own line that stand input_tab_size (8) or more   *)
(*      columns right of the block's column, are grouped (align_right_cmt_span) and moved to one    *)
(*      column (TrailCmt.tla, extended by the own-line comments)                                    *)
(* Not one of the listed properties.  It is the mechanism behind the recorded C05 finding          *)
(* "a comment below a comment moves again under align_right_cmt_span": stage 1 decides by the       *)
(* columns of the input, stage 2 moves the comment that stage 1 used as reference, and takes the    *)
(* own-line comment along only when it stands far enough to the right.                              *)
EXTENDS Naturals, Integers, Sequences, FiniteSets, TLC, Json
CONSTANTS MaxLines, Widths, Shifts, Gaps, CmtCols, Breaks, Threshs, Spans, MinGaps, Indent, Emit
VARIABLES prog, thresh, ic, c1, span, mingap
vars == <<prog, thresh, ic, c1, span, mingap>>
Line == [k : {"code"}, w : Widths, d : Shifts, tc : BOOLEAN, g : Gaps, o : {0}, nl : Breaks]
        \cup [k : {"cmt"}, w : {0}, d : {0}, tc : {FALSE}, g : {0}, o : CmtCols, nl : Breaks]
Abs(x) == IF x < 0 THEN 0 - x ELSE x
DefShifts == {0, 3, -3}            \* a cfg file cannot hold a negative number
WideShifts == {0, 2, 9, -2, -4}
BIG == 5000
(* orig[i] / now[i]: column of the comment that ends line i, in the input and after formatting   *)
TrailOrig(ln) == Indent + ln.d + ln.w + ln.g
(* reindent_line(): a comment behind code keeps its original column as long as that leaves one    *)
(* blank behind the code in its new place                                                         *)
TrailNow(ln)  == IF TrailOrig(ln) > Indent + ln.w + 1 THEN TrailOrig(ln) ELSE Indent + ln.w + 1
EndsInComment(ln) == ln.k = "cmt" \/ ln.tc
(* original column of the first token of line i *)
FirstOrig(ln) == IF ln.k = "cmt" THEN ln.o ELSE Indent + ln.d
(* calc_comment_next_col_diff(): the first code below, reached over single line breaks only;      *)
(* behind the last line comes the closing brace in column 1                                       *)
RECURSIVE NextDiff(_, _, _)
NextDiff(P, i, o) ==
   IF P[i].nl > 1 THEN BIG
   ELSE IF i = Len(P) THEN Abs(1 - o)
   ELSE IF P[i + 1].k = "cmt" THEN NextDiff(P, i + 1, o)
   ELSE Abs(FirstOrig(P[i + 1]) - o)
(* the column of the own-line comment of line i, given the original columns Orig and the columns  *)
(* Now of the comments above (a function of the lines before i)                                   *)
RECURSIVE Out(_, _)
CmtOrigAt(P, j) == IF P[j].k = "cmt" THEN P[j].o ELSE TrailOrig(P[j])
CmtNowAt(P, j)  == IF P[j].k = "cmt" THEN Out(P, j) ELSE TrailNow(P[j])
Out(P, i) ==
   LET o == P[i].o IN
   IF o = 1 /\ ~c1 THEN 1
   ELSE IF o > 1 /\ i > 1 /\ EndsInComment(P[i - 1]) /\ P[i - 1].nl = 1
           /\ Abs(CmtOrigAt(P, i - 1) - o) <= thresh
           /\ (Abs(CmtOrigAt(P, i - 1) - o) <= NextDiff(P, i, o) \/ NextDiff(P, i, o) = BIG)
        THEN CmtNowAt(P, i - 1)
   ELSE IF o > 1 /\ ~ic THEN o
   ELSE Indent
Cols1(P) == [i \in 1..Len(P) |-> IF P[i].k = "cmt" THEN Out(P, i) ELSE IF P[i].tc THEN TrailNow(P[i]) ELSE 0]
(* ------------------------------------------------------------ stage 2: align_right_comments() *)
Max(x, y) == IF x > y THEN x ELSE y
HasCmtAt(P, i) == P[i].k = "cmt" \/ P[i].tc
Qualifies(P, C, i) == \/ (P[i].k = "code" /\ P[i].tc /\ P[i].g >= mingap)
                      \/ (P[i].k = "cmt" /\ C[i] >= Indent + 8 /\ C[i] > 1)
RECURSIVE Scan(_, _, _, _, _)
Scan(P, C, i, nlc, mem) ==
   IF i > Len(P) \/ nlc >= span THEN <<mem, i>>
   ELSE LET q == Qualifies(P, C, i)
        IN Scan(P, C, i + 1, (IF q THEN 0 ELSE nlc) + P[i].nl, IF q THEN Append(mem, i) ELSE mem)
MinColOf(P, i) == IF P[i].k = "cmt" THEN 1 ELSE Indent + P[i].w + 1
GroupCol(P, C, mem) ==
   LET minorig == CHOOSE c \in {C[mem[k]] : k \in 1..Len(mem)} : \A k \in 1..Len(mem) : c <= C[mem[k]]
       mincol  == CHOOSE c \in {MinColOf(P, mem[k]) : k \in 1..Len(mem)} : \A k \in 1..Len(mem) : c >= MinColOf(P, mem[k])
   IN Max(minorig, mincol)
RECURSIVE Pass(_, _, _, _)
Pass(P, C, i, acc) ==
   IF i > Len(P) THEN acc
   ELSE IF ~Qualifies(P, C, i) THEN Pass(P, C, i + 1, acc)
   ELSE LET r == Scan(P, C, i, 0, <<>>)
            mem == r[1]
            (* align_trailing_comments() returns the chunk BEHIND the one at which it stopped: when that is a comment   *)
            (* on a line of its own (the first chunk of its line), the comment is stepped over and starts no group       *)
            stop == r[2]
            resume == IF stop <= Len(P) /\ P[stop].k = "cmt" THEN stop + 1 ELSE stop
        IN Pass(P, C, Max(resume, i + 1), Append(acc, [mem |-> mem, col |-> GroupCol(P, C, mem), moved |-> Len(mem) > 1]))
Groups(P, C) == IF span = 0 THEN <<>> ELSE Pass(P, C, 1, <<>>)
GroupOf(gs, i) == IF \E k \in 1..Len(gs) : \E n \in 1..Len(gs[k].mem) : gs[k].mem[n] = i
                  THEN CHOOSE k \in 1..Len(gs) : \E n \in 1..Len(gs[k].mem) : gs[k].mem[n] = i
                  ELSE 0
Cols(P) == LET C == Cols1(P)
               gs == Groups(P, C)
           IN [i \in 1..Len(P) |-> IF ~HasCmtAt(P, i) THEN 0
                                   ELSE IF GroupOf(gs, i) # 0 /\ gs[GroupOf(gs, i)].moved THEN gs[GroupOf(gs, i)].col
                                   ELSE C[i]]
(* the program as the first run leaves it *)
After(P) == LET c == Cols(P) IN [i \in 1..Len(P) |-> IF P[i].k = "cmt" THEN [P[i] EXCEPT !.o = c[i]]
                                                      ELSE [P[i] EXCEPT !.d = 0, !.g = IF P[i].tc THEN c[i] - Indent - P[i].w ELSE P[i].g]]
ColsAgain(P) == Cols(After(P))

(* ----------------------------------------------------------------- behaviours *)
Init == prog = <<>> /\ thresh \in Threshs /\ ic \in BOOLEAN /\ c1 \in BOOLEAN /\ span \in Spans /\ mingap \in MinGaps
Grow == /\ Len(prog) < MaxLines
        /\ \E ln \in Line : prog' = Append(prog, ln)
        /\ UNCHANGED <<thresh, ic, c1, span, mingap>>
Next == Grow
Spec == Init /\ [][Next]_vars
HasCmt == \E i \in 1..Len(prog) : prog[i].k = "cmt"
(* what stage 2 guarantees whatever stage 1 did: the members of a moved group share a column, no comment overlaps its code *)
Good == LET C == Cols1(prog)
            gs == Groups(prog, C)
            F == Cols(prog)
        IN /\ \A k \in 1..Len(gs) : gs[k].moved => \A x, y \in 1..Len(gs[k].mem) : F[gs[k].mem[x]] = F[gs[k].mem[y]]
           /\ \A i \in 1..Len(prog) : (prog[i].k = "code" /\ prog[i].tc) => F[i] >= Indent + prog[i].w + 1
           /\ (span = 0 => F = C)
(* a second run over the first run's output; VIOLATED (Stable.cfg): the recorded C05 mechanism *)
Stable == ColsAgain(prog) = Cols(prog)
(* under the built-in defaults (indent_comment_align_thresh = 3, indent_comment, no                *)
(* indent_col1_comment) the pass IS a fixed point of itself - C05 claims byte-for-byte stability    *)
(* for them: a comment that does not go under the comment above goes to the block's column, and     *)
(* from there the next run takes the same decision.  It is indent_comment = false (the comment      *)
(* keeps a column of its own) that lets the second run see a distance the first run created.        *)
StableByDefault == (thresh = 3 /\ ic /\ ~c1) => Stable
EmitCase == (Emit /\ HasCmt) => PrintT("@@" \o ToJson([prog |-> prog, thresh |-> thresh, ic |-> ic, c1 |-> c1, span |-> span, mingap |-> mingap, cols |-> Cols(prog), again |-> ColsAgain(prog)]))
EmitUnstable == (Emit /\ HasCmt /\ ~Stable) => PrintT("@@" \o ToJson([prog |-> prog, thresh |-> thresh, ic |-> ic, c1 |-> c1, span |-> span, mingap |-> mingap, cols |-> Cols(prog), again |-> ColsAgain(prog)]))
=============================================================================
