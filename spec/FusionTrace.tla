---------------------------- MODULE FusionTrace ----------------------------
(* M-trace for Fusion: one event per token pair (a, b) rendered into a snippet and run     *)
(* through the binary with a spacing configuration.  The event carries the token sequence  *)
(* of the snippet before and after formatting (projection by the independent lexer, or by  *)
(* uncrustify's own tokenizer for the languages the lexer does not cover), whether b       *)
(* directly follows a in the output, and PCF_FORCE_SPACE as reported by the Space hook.    *)
(*   property (C02/C01):  TokensPreserved  ins = outs                                      *)
(*   mechanism:           ForceAsModel     hook flag = Force(a, b, ang)        (DRIFT)      *)
(*                        LexersAgree      gap0 /\ Fuses(a,b) => ins # outs    (DRIFT)      *)
EXTENDS Fusion, IOUtils
TraceLog == ndJsonDeserialize(IOEnv.TRACE)
VARIABLES l
Ev == TraceLog[l]
TNext == /\ l <= Len(TraceLog) /\ l' = l + 1
         /\ UNCHANGED <<a, b, ang>>
         /\ LET e == Ev
                bad == (IF e.rc = 0 /\ e.ins # e.outs THEN {"TokensPreserved"} ELSE {})
                drift == (IF e.rc = 0 /\ e.force >= 0 /\ (e.force = 1) # Force(e.a, e.b, e.ang)
                          THEN {"ForceAsModel"} ELSE {})
                         \cup (IF e.rc = 0 /\ e.gap0 /\ Fuses(e.a, e.b) /\ ~Equivalent(e.a, e.b, e.ang) /\ e.ins = e.outs
                               THEN {"LexersAgree"} ELSE {})
            IN (bad # {} \/ drift # {}) =>
                  PrintT("@@" \o ToJson([l |-> l, id |-> e.id, bad |-> bad, drift |-> drift,
                                         cls |-> Class(e.a, e.b, e.ang)]))
TInit == l = 1 /\ a = <<>> /\ b = <<>> /\ ang = FALSE
TSpec == TInit /\ [][TNext]_<<l, a, b, ang>>
TraceAccepted == TLCGet("stats").diameter - 1 = Len(TraceLog)
=============================================================================
