SPECIFICATION Spec
CONSTANTS
  MaxLines = 9
  MaxDepth = 3
  Emit = FALSE
INVARIANTS ModelConsistent EmitProg
CHECK_DEADLOCK FALSE
