SPECIFICATION Spec
CONSTANTS
  Lang = "CPP"
  Cpp11Shift = TRUE
  Fixed = TRUE
  Fixed2 = TRUE
  Fixed3 = FALSE
  Fixed4 = FALSE
  Emit = FALSE
INVARIANTS WellFormed NoCommentOpener PunctGuarded WordsGuarded ExponentGuarded DotsGuarded EmitPair
CHECK_DEADLOCK FALSE
