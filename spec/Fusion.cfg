SPECIFICATION Spec
CONSTANTS
  Lang = "CPP"
  Cpp11Shift = TRUE
  Fixed = TRUE
  Fixed2 = TRUE
  Fixed3 = TRUE
  Fixed4 = TRUE
  Emit = FALSE
INVARIANTS WellFormed NoCommentOpener PunctGuarded WordsGuarded ExponentGuarded DotsGuarded EmitPair
CHECK_DEADLOCK FALSE
