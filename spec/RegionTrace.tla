---------------------------- MODULE RegionTrace ----------------------------
(* M-trace for Region (C07).                                                                   *)
(*  File    a TLC-generated line sequence rendered to a source file and formatted with some     *)
(*          configuration: regs = for every region the lines in the input and in the output     *)
(*          (whitespace-only lines logged as ""), ign = the CT_IGNORED chunk texts of the hook   *)
(*  Opaque  the same file with the region contents replaced: ids of the output outside regions  *)
EXTENDS Region, IOUtils
TraceLog == ndJsonDeserialize(IOEnv.TRACE)
VARIABLES l
Ev == TraceLog[l]
AllEqual(sq) == \A i, j \in 1..Len(sq) : sq[i] = sq[j]
TNext == /\ l <= Len(TraceLog) /\ l' = l + 1 /\ UNCHANGED lines
         /\ LET e == Ev
                bad == CASE e.e = "File" ->
                              (IF e.rc = 0 /\ \E r \in 1..Len(e.regs) : ~Verbatim(e.regs[r].i, e.regs[r].o)
                               THEN {"RegionVerbatim"} ELSE {}) \cup
                              (IF e.rc = 0 /\ e.nregs_out # Len(e.regs) THEN {"RegionLost"} ELSE {})
                         [] e.e = "Opaque" -> IF AllEqual(e.ids) THEN {} ELSE {"RegionOpaque"}
                drift == IF e.e = "File" /\ e.rc = 0 /\ e.ign # <<>> /\ e.ign # e.ign_expected THEN {"IgnoredChunksAsModel"} ELSE {}
                which == IF e.e = "File" THEN {r \in 1..Len(e.regs) : ~Verbatim(e.regs[r].i, e.regs[r].o)} ELSE {}
            IN (bad # {} \/ drift # {}) => PrintT("@@" \o ToJson([l |-> l, id |-> e.id, bad |-> bad, drift |-> drift, regions |-> which]))
TInit == l = 1 /\ lines = <<"code">>
TSpec == TInit /\ [][TNext]_<<l, lines>>
TraceAccepted == TLCGet("stats").diameter - 1 = Len(TraceLog)
=============================================================================
