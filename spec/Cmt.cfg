SPECIFICATION Spec
CONSTANTS
  MaxItems = 3
  MaxLines = 2
  Shapes = {"w", "tag", "empty"}
  Emit = FALSE
INVARIANTS Good
CHECK_DEADLOCK FALSE
