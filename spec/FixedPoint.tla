----------------------------- MODULE FixedPoint -----------------------------
(* Formatting as a fixed point (C05): histories of runs over one file with one configuration.  *)
(*                                                                                           *)
(* The formatter is a function Fmt on file contents (or a refusal).  A history is a sequence   *)
(* of Run and Check steps.  For a *profile* configuration Fmt is claimed idempotent; for any    *)
(* configuration a formatted file is at least accepted again.  TLC explores every Fmt over a    *)
(* small set of contents that satisfies the claim and shows what users observe: Run; Run never   *)
(* changes the file, Run; Check passes.  With IdempotentFmt = FALSE the same exploration        *)
(* produces the histories in which --check fails on a freshly formatted tree.                   *)
(* The newline loop of uncrustify_file() leaves either because nothing changed or because       *)
(* pass_count ran out (Process.tla): a run that left by the bound is the predictor of an         *)
(* unstable pair, reported by the trace specification as ExitByBound.                            *)
EXTENDS Naturals, Sequences, FiniteSets, TLC
CONSTANTS Contents, IdempotentFmt, MaxSteps
VARIABLES fmt, file, hist, lastCheck
vars == <<fmt, file, hist, lastCheck>>
Refused == "refused"
Fmts == {f \in [Contents -> Contents \cup {Refused}] :
           IdempotentFmt => \A c \in Contents : f[c] # Refused => f[f[c]] = f[c]}
Init == fmt \in Fmts /\ file \in Contents /\ hist = <<>> /\ lastCheck = "none"
Run == /\ Len(hist) < MaxSteps
       /\ IF fmt[file] = Refused THEN file' = file /\ hist' = Append(hist, "refused")
          ELSE file' = fmt[file] /\ hist' = Append(hist, "run")
       /\ UNCHANGED <<fmt, lastCheck>>
Check == /\ Len(hist) < MaxSteps
         /\ lastCheck' = IF fmt[file] = file THEN "pass" ELSE "fail"
         /\ hist' = Append(hist, "check") /\ UNCHANGED <<fmt, file>>
Next == Run \/ Check
Spec == Init /\ [][Next]_vars
(* ---------------------------------------------------------------- properties *)
(* a tree that has just been formatted passes --check *)
CheckAfterRunPasses == (Len(hist) >= 2 /\ hist[Len(hist)] = "check" /\ hist[Len(hist) - 1] = "run") => lastCheck = "pass"
(* the second run reproduces the first run's output *)
RunIsStable == [][(Len(hist) >= 1 /\ hist[Len(hist)] = "run" /\ hist' = Append(hist, "run")) => file' = file]_vars
(* the weaker claim, for every configuration *)
SecondRunAccepts == [][(Len(hist) >= 1 /\ hist[Len(hist)] = "run") => hist' # Append(hist, "refused")]_vars
(* judged on an observed history of three runs and a check *)
ProfileOk(o1, o2, o3, chk) == o1 = o2 /\ o2 = o3 /\ chk = 0
WeakOk(rc1, rc2) == rc1 = 0 => rc2 = 0
=============================================================================
