SPECIFICATION Spec
CONSTANTS
  MaxLines = 3
  Widths = {4, 8}
  Shifts <- DefShifts
  Gaps = {1, 4}
  CmtCols = {1, 5, 7, 9, 13, 17}
  Breaks = {1, 2}
  Threshs = {0, 3, 8}
  Indent = 5
  Emit = FALSE
INVARIANTS Stable
CHECK_DEADLOCK FALSE
