SPECIFICATION Spec
CONSTANTS
  MaxLines = 3
  Widths = {4, 7, 12}
  Gaps = {1, 2, 5}
  Breaks = {1, 2}
  Spans = {0, 1, 2, 3}
  MinGaps = {0, 2, 3}
  AtCols = {0, 12, 24}
  Indent = 5
  TabStops = {TRUE, FALSE}
  TabSize = 4
  Emit = FALSE
INVARIANTS Good
CHECK_DEADLOCK FALSE
