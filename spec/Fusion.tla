------------------------------- MODULE Fusion -------------------------------
(* Token fusion (C01, C02, C19).                                                           *)
(*                                                                                         *)
(* Two adjacent chunks written without a blank between them must lex to the same two       *)
(* tokens.  uncrustify protects this with the "general safety check" at the top of         *)
(* space_text() (src/space.cpp): it sets PCF_FORCE_SPACE on the first chunk when the two   *)
(* texts "combined will tokenize differently", and ensure_force_space() then turns every   *)
(* decision of do_space() into decision|ADD.                                               *)
(*                                                                                         *)
(* This module contains                                                                    *)
(*   Lex      the property's own notion of lexing: maximal munch over the punctuator table *)
(*            the binary was built with (FusionTable is generated from symbols_table.h),   *)
(*            pp-numbers, words, encoding prefixes, quoted literals and comment openers;   *)
(*   Force    the safety check, transcribed branch by branch;                              *)
(*   the classification of every ordered pair over Alphabet:                               *)
(*            Safe (cannot fuse) / Guarded (fuses, forced) / Open (fuses, not forced).     *)
(* TLC enumerates all pairs (one initial state per pair).  Open pairs rely on do_space()   *)
(* never answering REMOVE for them; they are emitted and the replay on the binary decides. *)
(* Variant Fixed = FALSE is the rule as it was before the repair (no comment-opener        *)
(* branch, no word.digit branch) and must violate NoCommentOpener.                         *)
EXTENDS Naturals, Sequences, FiniteSets, TLC, Json, FusionTable
CONSTANTS Lang,          \* one of FusionTable!Langs
          Cpp11Shift,    \* option sp_permit_cpp11_shift
          Fixed,         \* TRUE: rule as in the tree; FALSE: rule before fix commit 6a354ae
          Fixed2,        \* TRUE: with the pp-number exponent branch ('0x1e' '+'); FALSE: before that fix
          Fixed3,        \* TRUE: with the number.dot / dot.digit branches and the 4-character second text
          Fixed4,        \* TRUE: with the D '/+' comment opener and the '<#' placeholder opener
          Emit           \* TRUE: print every pair with its classification (M-gen)

VARIABLES a, b, ang      \* the pair; ang: both chunks are CT_ANGLE_CLOSE

Alphabet == Punct[Lang] \cup Reps
Last(s) == s[Len(s)]
Max(S) == CHOOSE x \in S : \A y \in S : y <= x

(* ------------------------------------------------------------------ the lexer *)
RECURSIVE NumEnd(_, _), WordEnd(_, _), QuoteEnd(_, _, _), CmtEnd(_, _), Lex(_)
NumEnd(s, i) ==   \* index of the last char of the pp-number starting at 1, scanning from i
  IF i > Len(s) THEN i - 1
  ELSE IF s[i] \in Kw2Chars \ {"@", "$"} \/ s[i] = "." THEN NumEnd(s, i + 1)
  ELSE IF s[i] \in {"+", "-"} /\ s[i - 1] \in {"e", "E", "p", "P"} THEN NumEnd(s, i + 1)
  ELSE i - 1
WordEnd(s, i) == IF i <= Len(s) /\ s[i] \in (Kw2Chars \ {"@"}) THEN WordEnd(s, i + 1) ELSE i - 1
QuoteEnd(s, i, q) ==   \* i: first index after the opening quote
  IF i > Len(s) THEN Len(s)
  ELSE IF s[i] = "\\" THEN QuoteEnd(s, i + 2, q)
  ELSE IF s[i] = q THEN i
  ELSE QuoteEnd(s, i + 1, q)
CmtEnd(s, i) ==
  IF i + 1 > Len(s) THEN Len(s)
  ELSE IF s[i] = "*" /\ s[i + 1] = "/" THEN i + 1
  ELSE CmtEnd(s, i + 1)
Prefixes == {<<"L">>, <<"u">>, <<"U">>, <<"u", "8">>, <<"R">>, <<"L", "R">>, <<"u", "8", "R">>}
PunctLen(s) == LET c == {n \in 1..Len(s) : SubSeq(s, 1, n) \in Punct[Lang]}
               IN IF c = {} THEN 1 ELSE Max(c)
FirstLen(s) ==
  IF s[1] \in DigitChars \/ (s[1] = "." /\ Len(s) > 1 /\ s[2] \in DigitChars) THEN NumEnd(s, 2)
  ELSE IF s[1] \in Kw1Chars THEN
       LET e == WordEnd(s, 1)
       IN IF e < Len(s) /\ s[e + 1] \in {"\"", "'"} /\ SubSeq(s, 1, e) \in Prefixes
          THEN QuoteEnd(s, e + 2, s[e + 1]) ELSE e
  ELSE IF s[1] = "/" /\ Len(s) > 1 /\ s[2] = "/" THEN Len(s)
  ELSE IF s[1] = "/" /\ Len(s) > 1 /\ s[2] = "*" THEN CmtEnd(s, 3)
  ELSE IF s[1] = "/" /\ Len(s) > 1 /\ s[2] = "+" /\ Lang = "D" THEN Len(s)        \* D: '/+' opens a nesting comment
  ELSE IF s[1] = "<" /\ Len(s) > 1 /\ s[2] = "#" THEN Len(s)                      \* '<#' opens an Xcode code placeholder
  ELSE IF s[1] \in {"\"", "'"} THEN QuoteEnd(s, 2, s[1])
  ELSE PunctLen(s)
Lex(s) == IF s = <<>> THEN <<>>
          ELSE LET n == FirstLen(s) IN <<SubSeq(s, 1, n)>> \o Lex(SubSeq(s, n + 1, Len(s)))

Fuses(x, y) == Lex(x \o y) # <<x, y>>
IsCmt(t) == Len(t) >= 2 /\ ((t[1] = "/" /\ t[2] \in {"/", "*"}) \/ (t[1] = "/" /\ t[2] = "+" /\ Lang = "D") \/ (t[1] = "<" /\ t[2] = "#"))
OpensComment(x, y) == /\ x \notin CmtReps /\ Fuses(x, y)
                      /\ \E k \in 1..Len(Lex(x \o y)) : IsCmt(Lex(x \o y)[k])

(* ------------------------------------------- the safety check of space_text() *)
Exempt(x) == x \in {<<"[", "]">>, <<"{", "{">>, <<"}", "}">>, <<"(", ")">>}
             \/ (Len(x) >= 2 /\ x[1] = "@" /\ x[2] = "\"")
IsNum(x) == x[1] \in DigitChars \/ (x[1] = "." /\ Len(x) > 1 /\ x[2] \in DigitChars)   \* CT_NUMBER / CT_NUMBER_FP
FindPunct(s) == LET c == {n \in 1..Len(s) : SubSeq(s, 1, n) \in Punct[Lang]}   \* find_punctuator: longest prefix
                IN IF c = {} THEN 0 ELSE Max(c)
ShiftLang == (Lang = "CPP" /\ Cpp11Shift) \/ Lang \in {"JAVA", "CS", "VALA", "OC"}
Force(x, y, angle) ==
  /\ Len(x) > 0 /\ Len(y) > 0 /\ ~Exempt(x)
  /\ LET kw1 == Last(x) \in Kw2Chars
         kw2 == y[1] \in Kw1Chars
         dig == Fixed /\ y[1] \in DigitChars
     IN IF kw1 /\ (kw2 \/ dig) THEN TRUE
        ELSE IF Fixed /\ Last(x) = "/" /\ y[1] \in {"/", "*"} THEN TRUE
        ELSE IF Fixed4 /\ ((Last(x) = "/" /\ y[1] = "+" /\ Lang = "D") \/ (x = <<"<">> /\ y[1] = "#")
                          \/ (Lang = "PAWN" /\ ((Last(x) \in {"!", "\\"} /\ y[1] = "\"") \/ (x = <<"%">> /\ y[1] \in DigitChars)))) THEN TRUE
        ELSE IF Fixed2 /\ IsNum(x) /\ y[1] \in {"+", "-"} /\ Last(x) \in {"e", "E", "p", "P"} THEN TRUE
        ELSE IF Fixed3 /\ y[1] = "." /\ IsNum(x) /\ ~(Lang = "D" /\ y = <<".", ".">>) THEN TRUE
        ELSE IF Fixed3 /\ Last(x) = "." /\ y[1] \in DigitChars /\ (Len(x) = 1 \/ IsNum(x)) THEN TRUE
        ELSE IF ~kw1 /\ ~kw2 /\ Len(x) < 4 /\ Len(y) < (IF Fixed3 THEN 5 ELSE 4)
             THEN LET m == FindPunct(x \o y)
                  IN /\ m # 0 /\ m # Len(x)
                     /\ ~(ShiftLang /\ angle)
                     /\ SubSeq(x \o y, 1, m) # <<"[", "]">>
             ELSE FALSE

(* --------------------------------------------------------------- classification *)
Class(x, y, angle) == IF ~Fuses(x, y) THEN "safe" ELSE IF Force(x, y, angle) THEN "guarded" ELSE "open"

Init == /\ a \in Alphabet /\ b \in Alphabet
        /\ ang \in IF a = <<">">> /\ b = <<">">> THEN BOOLEAN ELSE {FALSE}
Next == UNCHANGED <<a, b, ang>>
Spec == Init /\ [][Next]_<<a, b, ang>>

(* every representative is one token by itself: the alphabet is well formed *)
WellFormed == Lex(a) = <<a>> /\ Lex(b) = <<b>>
(* the two tokens of a lexical equivalence the languages define themselves *)
Equivalent(x, y, angle) == (x = <<"[">> /\ y = <<"]">>) \/ (x = <<">">> /\ y = <<">">> /\ angle /\ ShiftLang)
(* The rule never leaves a pair unguarded whose concatenation opens a comment: whatever    *)
(* do_space() answers, the rest of the line cannot disappear into a comment.               *)
NoCommentOpener == OpensComment(a, b) => Force(a, b, ang)
(* Punctuator pairs are fully guarded by the rule itself (no reliance on do_space).        *)
PunctGuarded == (a \in Punct[Lang] /\ b \in Punct[Lang] /\ Fuses(a, b))
                   => (Force(a, b, ang) \/ Equivalent(a, b, ang))
(* Words and numbers never glue.                                                          *)
WordsGuarded == (Last(a) \in Kw2Chars /\ (b[1] \in Kw1Chars \/ b[1] \in DigitChars) /\ a \notin CmtReps)
                   => Force(a, b, ang)
(* A number ending in an exponent letter never swallows a following sign ('0x1e + 5').      *)
ExponentGuarded == (IsNum(a) /\ Last(a) \in {"e", "E", "p", "P"} /\ b[1] \in {"+", "-"}) => Force(a, b, ang)
(* A number never swallows a following '.', '.*' or '...' ('case 1 ... 5'), and a '.' never  *)
(* swallows a following digit.  In D '1..2' is a slice: the D lexer itself splits it.          *)
DotsGuarded == /\ (IsNum(a) /\ b[1] = "." /\ a \notin CmtReps /\ ~(Lang = "D" /\ b = <<".", ".">>)) => Force(a, b, ang)
               /\ ((a = <<".">> \/ (IsNum(a) /\ Last(a) = ".")) /\ b[1] \in DigitChars) => Force(a, b, ang)
EmitPair == Emit => PrintT("@@" \o ToJson([a |-> a, b |-> b, ang |-> ang, cls |-> Class(a, b, ang),
                                          force |-> Force(a, b, ang)]))
=============================================================================
