SPECIFICATION TSpec
CONSTANTS
  Depth = 1
  WithTry = TRUE
  Emit = FALSE
POSTCONDITION TraceAccepted
CHECK_DEADLOCK FALSE
