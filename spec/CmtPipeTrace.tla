--------------------------- MODULE CmtPipeTrace ---------------------------
(* M-trace for CmtPipe: one event per (program, options): cols[i] = the column of the comment of *)
(* line i after the binary formatted the program, again = after a second run over its output.     *)
(*   contract   a comment behind code leaves a blank behind the code; with span = 0 the second     *)
(*              stage does nothing                                                                 *)
(*   mechanism  ColumnsAsModel / SecondRunAsModel: both runs equal the two-stage machine  (DRIFT) *)
EXTENDS CmtPipe, IOUtils
TraceLog == ndJsonDeserialize(IOEnv.TRACE)
VARIABLES l
Ev == TraceLog[l]
TNext == /\ l <= Len(TraceLog) /\ l' = l + 1
         /\ prog' = Ev.prog /\ thresh' = Ev.thresh /\ ic' = Ev.ic /\ c1' = Ev.c1 /\ span' = Ev.span /\ mingap' = Ev.mingap
TInit == l = 1 /\ prog = <<>> /\ thresh = 0 /\ ic = TRUE /\ c1 = FALSE /\ span = 0 /\ mingap = 0
TSpec == TInit /\ [][TNext]_<<l, vars>>
Judge == (l > 1 /\ l - 1 <= Len(TraceLog)) =>
           LET e == TraceLog[l - 1]
               bad == IF e.rc # 0 THEN {} ELSE
                      (IF \E i \in 1..Len(prog) : prog[i].k = "code" /\ prog[i].tc /\ e.cols[i] < Indent + prog[i].w + 1 THEN {"ClearOfCode"} ELSE {})
               drift == (IF e.rc = 0 /\ e.cols # Cols(prog) THEN {"ColumnsAsModel"} ELSE {}) \cup
                        (IF e.rc = 0 /\ e.again # <<>> /\ e.again # ColsAgain(prog) THEN {"SecondRunAsModel"} ELSE {})
           IN (bad # {} \/ drift # {}) => PrintT("@@" \o ToJson([l |-> l - 1, id |-> e.id, bad |-> bad, drift |-> drift, expected |-> Cols(prog), again |-> ColsAgain(prog)]))
TraceAccepted == TLCGet("stats").diameter - 1 = Len(TraceLog)
=============================================================================
