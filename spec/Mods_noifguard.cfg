SPECIFICATION Spec
CONSTANTS
  Depth = 1
  ChainDepth = 4
  SkipAllVClose = TRUE
  IfGuard = FALSE
  Emit = FALSE
INVARIANTS MeaningKept OnlyBracesGo EmitTree
CHECK_DEADLOCK FALSE
