--------------------------------- MODULE Cmt ---------------------------------
(* The comment writers of src/output.cpp (output_comment_c / _cpp / _multi) under the cmt_*       *)
(* options, seen as a function from the comments of a file to the comments of the output.           *)
(* It is not one of the twenty listed properties (C03 speaks about the comment options at their      *)
(* defaults only); it extends the specification to the options that REWRITE comments:                *)
(*   cmt_cpp_to_c, cmt_cpp_group, cmt_c_group, cmt_trailing_single_line_c_to_cpp change the kind     *)
(*   of a comment and merge neighbours; cmt_star_cont, cmt_c_nl_start / _end, cmt_indent_multi,      *)
(*   cmt_reflow_mode, cmt_width, cmt_align_doxygen_javadoc_tags change the layout of its lines.      *)
(* Whatever they do, the TEXT of the comments stays (TextKept: the non-blank characters of all       *)
(* comment bodies, delimiters and star leaders aside, in order), every comment is still a comment   *)
(* that ends (CodeKept: the code tokens around them are the same) and merging happens only between   *)
(* comments that stand directly below each other (NoMergeAcross: never across code or a blank line). *)
(*                                                                                                   *)
(* A file is a sequence of items: code, a blank line, or a comment [kind, lines, closer, pos].       *)
(*   kind   "c"  block comment, text starts on the line of the opener                                *)
(*          "doc" block comment opened by a line holding only the opener                             *)
(*          "cpp" line comment (one line; a block of them is several items)                          *)
(*   lines  the shape of every text line (Shapes: plain words, a doc tag with a name, a doc tag      *)
(*          that ends the comment text, an empty line, a long line that reflow may fold)             *)
(*   closer "same" the closer follows the last text after a blank, "tight" directly, "own" it        *)
(*          stands on a line of its own                                                              *)
(*   pos    "own" the comment has lines of its own, "trail" it follows code on the same line         *)
(* Out(file, o) is the model of what the writers make of it: a sequence of output comments, each     *)
(* with its kind and the input comments (by index) whose text it carries.                            *)
EXTENDS Naturals, Sequences, FiniteSets, TLC, Json
CONSTANTS MaxItems, MaxLines, Shapes, Emit
VARIABLES file
Kinds == {"c", "doc", "cpp"}
RECURSIVE SeqsUpTo(_, _)
SeqsUpTo(S, n) == IF n = 0 THEN {<<>>} ELSE LET R == SeqsUpTo(S, n - 1) IN R \cup {Append(r, x) : r \in {q \in R : Len(q) = n - 1}, x \in S}
LineSeqs == SeqsUpTo(Shapes, MaxLines) \ {<<>>}
Comment == {c \in [k : {"cmt"}, kind : Kinds, lines : LineSeqs, closer : {"same", "tight", "own"}, pos : {"own", "trail"}] :
              /\ (c.kind = "cpp" => Len(c.lines) = 1 /\ c.closer = "same" /\ c.lines[1] # "empty")
              /\ (c.kind = "doc" /\ Len(c.lines) = 1 => c.closer # "tight")
              /\ (c.pos = "trail" => c.kind # "doc")
              /\ c.lines[1] # "empty" /\ c.lines[Len(c.lines)] # "empty"
              /\ (Len(c.lines) = 1 /\ c.kind = "c" => c.closer = "same")}
Code == [k |-> "code"]
Blank == [k |-> "blank"]
Item == Comment \cup {Code, Blank}
Options == [cppToC : BOOLEAN, cppGroup : BOOLEAN, cGroup : BOOLEAN, trailCToCpp : BOOLEAN]

IsCmt(x) == x.k = "cmt"
Single(c) == Len(c.lines) = 1 /\ c.kind # "doc"
(* a trailing comment shares its line with the code item in front of it: the renderer puts it there;  *)
(* the item before a trailing comment is code, the first item is not a trailing comment                *)
WellFormed(f) == /\ \A i \in 1..Len(f) : (IsCmt(f[i]) /\ f[i].pos = "trail") => (i > 1 /\ f[i - 1] = Code)
                 /\ \A i \in 1..Len(f) - 1 : ~(f[i] = Blank /\ f[i + 1] = Blank)
                 /\ (Len(f) > 0 => f[1] # Blank /\ f[Len(f)] # Blank)

(* ------------------------------------------------------------------ the model of the writers *)
(* cmt_c_group is asked first: two single-line block comments directly below each other          *)
JoinsC(f, i) == /\ i >= 1 /\ i < Len(f) /\ IsCmt(f[i]) /\ IsCmt(f[i + 1])
                /\ f[i].kind = "c" /\ f[i + 1].kind = "c" /\ Single(f[i]) /\ Single(f[i + 1])
                /\ f[i].pos = "own" /\ f[i + 1].pos = "own"
InCGroup(f, i, o) == o.cGroup /\ (JoinsC(f, i) \/ JoinsC(f, i - 1))
(* the writer a comment goes to: a single-line block comment that is the last thing on its line    *)
(* (on a line of its own or behind code) and not part of a group is rewritten as a line comment     *)
(* by cmt_trailing_single_line_c_to_cpp and handed to the line-comment writer                       *)
Writer(f, i, o) == IF f[i].kind = "cpp" THEN "cpp"
                   ELSE IF f[i].kind = "c" /\ Single(f[i]) /\ o.trailCToCpp /\ ~InCGroup(f, i, o) THEN "cpp"
                   ELSE "c"
(* the kind it is written in: the line-comment writer turns everything into block comments under   *)
(* cmt_cpp_to_c - also what the rewrite above has just produced                                     *)
KindOut(f, i, o) == IF Writer(f, i, o) = "cpp" THEN (IF o.cppToC THEN "c" ELSE "cpp") ELSE "c"
(* may item i + 1 be written into the comment that item i started?  (can_combine_comment():        *)
(* directly below, same chunk type, same column).  A rewritten block comment is a line comment     *)
(* for this purpose, one that is still to be rewritten is not.                                      *)
Joins(f, i, o) ==
   /\ i >= 1 /\ i < Len(f) /\ IsCmt(f[i]) /\ IsCmt(f[i + 1])
   /\ f[i + 1].pos = "own" /\ f[i].pos = "own"
   /\ \/ (Writer(f, i, o) = "cpp" /\ f[i + 1].kind = "cpp" /\ o.cppToC /\ o.cppGroup)
      \/ (o.cGroup /\ JoinsC(f, i))
RECURSIVE OutFrom(_, _, _, _)
(* acc = output comments so far; the last one is open for joining iff the previous item joined *)
OutFrom(f, i, o, acc) ==
   IF i > Len(f) THEN acc
   ELSE IF ~IsCmt(f[i]) THEN OutFrom(f, i + 1, o, acc)
   ELSE IF i > 1 /\ Joins(f, i - 1, o)
        THEN OutFrom(f, i + 1, o, [acc EXCEPT ![Len(acc)].src = Append(@, i)])
        ELSE OutFrom(f, i + 1, o, Append(acc, [kind |-> KindOut(f, i, o), src |-> <<i>>]))
Out(f, o) == OutFrom(f, 1, o, <<>>)

(* ------------------------------------------------------------------ what must hold of any Out *)
RECURSIVE Flat(_)
Flat(ss) == IF ss = <<>> THEN <<>> ELSE Head(ss) \o Flat(Tail(ss))
CmtIdx(f) == SelectSeq([i \in 1..Len(f) |-> i], LAMBDA i : IsCmt(f[i]))
TextKept(f, out) == Flat([j \in 1..Len(out) |-> out[j].src]) = CmtIdx(f)
NoMergeAcross(f, out) == \A j \in 1..Len(out) : \A n \in 1..Len(out[j].src) - 1 : out[j].src[n + 1] = out[j].src[n] + 1
KindsMake(f, out, o) == \A j \in 1..Len(out) :
                           /\ (out[j].kind = "cpp" => (\A n \in 1..Len(out[j].src) : f[out[j].src[n]].kind = "cpp" \/ o.trailCToCpp))
                           /\ (Len(out[j].src) > 1 => (o.cGroup \/ (o.cppToC /\ o.cppGroup)))
NothingByDefault(f, out, o) == (o = [cppToC |-> FALSE, cppGroup |-> FALSE, cGroup |-> FALSE, trailCToCpp |-> FALSE])
                                  => (Len(out) = Len(CmtIdx(f)) /\ \A j \in 1..Len(out) : out[j].kind = (IF f[out[j].src[1]].kind = "cpp" THEN "cpp" ELSE "c"))

(* ------------------------------------------------------------------ behaviours *)
Init == file = <<>>
Grow == /\ Len(file) < MaxItems
        /\ \E x \in Item : file' = Append(file, x)
Next == Grow
Spec == Init /\ [][Next]_file
Good == WellFormed(file) => \A o \in Options :
           LET out == Out(file, o) IN TextKept(file, out) /\ NoMergeAcross(file, out) /\ KindsMake(file, out, o) /\ NothingByDefault(file, out, o)
(* non-vacuity: some file within the bounds is regrouped by some option setting (must be VIOLATED) *)
NeverMerges == WellFormed(file) => \A o \in Options : Len(Out(file, o)) = Len(CmtIdx(file))
EmitFile == (Emit /\ WellFormed(file) /\ \E i \in 1..Len(file) : IsCmt(file[i])) => PrintT("@@" \o ToJson([file |-> file]))
=============================================================================
