SPECIFICATION Spec
CONSTANTS
  MaxLines = 2
  EscapeOnSave = TRUE
  TypeKeyword = "custom type"
  TokenNames <- MiniTokens
  LangNames <- MiniLang
INVARIANTS RoundTrip SaveIdempotent BadLineIsNoOp GoodLineQuiet DiagnosedOrApplied
CHECK_DEADLOCK FALSE
