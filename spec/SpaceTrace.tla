---------------------------- MODULE SpaceTrace ----------------------------
(* M-trace for Space (C19).  One event per class of token pair handled by space_text() in a   *)
(* run: the rule name logged by do_space() (hook), the value configured for the option of     *)
(* that name, the value do_space_ensured() returned, the gap the pair had in the input (when   *)
(* on one line) and the gap measured between the same two tokens in the output bytes.          *)
(*   property  ValueObeyed      Clause(configured value of the named option, ...)              *)
(*   mechanism ReturnedIsNamed  the returned value is the named option's value (or value|ADD)  *)
EXTENDS Fusion, IOUtils
CONSTANTS MaxGap, WrongOption
VARIABLES v, other, forced, minsp, gapIn, sameLine, qt, inTable, l
S == INSTANCE Space
TraceLog == ndJsonDeserialize(IOEnv.TRACE)
Ev == TraceLog[l]
(* the statement's own exceptions to Remove: 'return' / 'case' and an operand, a macro name   *)
(* and what opens its body - there Remove is documented to be treated as Force                *)
StatementExempt(e) == S!Effective(e.val, e.qt = 1, e.rule \in S!QtRules) = "remove" /\ e.gout = 1 /\ e.t1 \in {"RETURN", "CASE", "MACRO"}
Judged(e) == e.val # "" /\ e.outsame /\ ~e.cmt2 /\ e.minsp <= 1 /\ e.s1 # <<>> /\ e.s2 # <<>> /\ ~StatementExempt(e)
TNext == /\ l <= Len(TraceLog) /\ l' = l + 1 /\ UNCHANGED <<a, b, ang, v, other, forced, minsp, gapIn, sameLine, qt, inTable>>
         /\ LET e == Ev
                sep == Fuses(e.s1, e.s2)
                eff == S!Effective(e.val, e.qt = 1, e.rule \in S!QtRules)
                bad == IF Judged(e) /\ ~S!Clause(eff, e.gin, e.gout, e.same, sep) THEN {"ValueObeyed"} ELSE {}
                drift == (IF e.val # "" /\ e.av # eff /\ e.av # S!OrAdd(eff) THEN {"ReturnedIsNamed"} ELSE {}) \cup
                         (IF e.qtrule # (e.rule \in S!QtRules) THEN {"QtTableAsSource"} ELSE {})
            IN (bad # {} \/ drift # {}) => PrintT("@@" \o ToJson([l |-> l, id |-> e.id, bad |-> bad, drift |-> drift, sep |-> sep]))
TInit == /\ l = 1 /\ a = <<>> /\ b = <<>> /\ ang = FALSE /\ v = "ignore" /\ other = "ignore" /\ forced = FALSE /\ minsp = 1
         /\ gapIn = 0 /\ sameLine = TRUE /\ qt = FALSE /\ inTable = FALSE
TSpec == TInit /\ [][TNext]_<<l, a, b, ang, v, other, forced, minsp, gapIn, sameLine, qt, inTable>>
TraceAccepted == TLCGet("stats").diameter - 1 = Len(TraceLog)
=============================================================================
