---------------------------- MODULE BatchTrace ----------------------------
(* M-trace for Batch: one event per observed multi-file invocation.  For every file the    *)
(* harness reports (a) whether the bytes written in the batch equal the bytes of a separate *)
(* invocation on that file alone and (b) the set of cross-file fields whose value at       *)
(* FileStart (hook projection) differs from the value the same file sees when it is run    *)
(* alone.  Independent is the property (C11); CleanStart is the mechanism constraint of     *)
(* Batch.tla evaluated on real state.                                                       *)
EXTENDS BatchCore, Json, IOUtils
TraceLog == ndJsonDeserialize(IOEnv.TRACE)
VARIABLES l
Ev == TraceLog[l]
ToSet(sq) == {sq[j] : j \in 1..Len(sq)}
TNext == /\ l <= Len(TraceLog) /\ l' = l + 1
         /\ LET differing == {j \in 1..Len(Ev.files) : ~Ev.files[j].same}
                unclean   == {j \in 1..Len(Ev.files) : ~((ToSet(Ev.files[j].start) \cap Sensitive) \subseteq {"last_char"})}
            IN (differing # {} \/ unclean # {}) =>
                 PrintT("@@" \o ToJson([l |-> l, bad |-> IF differing # {} THEN {"Independent"} ELSE {},
                                        differing |-> differing, unclean |-> unclean]))
TSpec == l = 1 /\ [][TNext]_l
TraceAccepted == TLCGet("stats").diameter - 1 = Len(TraceLog)
=========================================================================
