SPECIFICATION Spec
CONSTANTS
  MaxGap = 3
  WrongOption = FALSE
INVARIANTS ValueObeyed
CHECK_DEADLOCK FALSE
