SPECIFICATION TSpec
CONSTANTS
  MaxSteps = 0
  MaxFaults = 2
  AllowCrash = TRUE
  Modes = {"replace"}
  UserConts = {"U1", "U2", "A2", "X"}
  Md5Order = "after"
POSTCONDITION TraceAccepted
CHECK_DEADLOCK FALSE
