-------------------------- MODULE BlankLinesTrace --------------------------
(* M-trace for BlankLines (C20): one event per formatted file.                                *)
(*   runs   the distinct lengths of runs of consecutive line breaks found in the output        *)
(*          outside comments, literals, continued preprocessor lines and disabled regions      *)
(*   maxreq the largest value any blank-line count option of the configuration asks for        *)
(*   sout / eout   line breaks that open / close the output file                               *)
(*   afterOpen / beforeClose   blank lines found directly after a '{' / before a '}'           *)
EXTENDS BlankLines, Json, IOUtils
TraceLog == ndJsonDeserialize(IOEnv.TRACE)
VARIABLES l
Ev == TraceLog[l]
SEOk(o, mn, out) == CASE o = "remove" -> out = 0 [] o = "force" -> out = mn [] o = "add" -> out >= mn [] OTHER -> TRUE
Bad(e) ==
  (IF e.nlmax > 0 /\ e.maxreq <= e.nlmax /\ \E i \in 1..Len(e.runs) : e.runs[i].len > e.nlmax THEN {"CapRespected"} ELSE {}) \cup
  (IF ~SEOk(e.so, e.smin, e.sout) THEN {"StartExact"} ELSE {}) \cup
  (IF ~SEOk(e.eo, e.emin, e.eout) THEN {"EndExact"} ELSE {}) \cup
  (IF e.eatAfter /\ e.afterOpen > 0 THEN {"NoBlankAfterOpenBrace"} ELSE {}) \cup
  (IF e.eatBefore /\ e.beforeClose > 0 THEN {"NoBlankBeforeCloseBrace"} ELSE {})
TNext == /\ l <= Len(TraceLog) /\ l' = l + 1 /\ UNCHANGED vars
         /\ LET e == Ev
            IN (e.rc = 0 /\ Bad(e) # {}) =>
                 PrintT("@@" \o ToJson([l |-> l, id |-> e.id, bad |-> Bad(e),
                                        lines |-> {e.runs[i].no : i \in {j \in 1..Len(e.runs) : e.nlmax > 0 /\ e.runs[j].len > e.nlmax}}]))
TInit == l = 1 /\ n = 1 /\ edge = "interior" /\ nlmax = 0 /\ canInc = TRUE /\ req = 0 /\ seOpt = "ignore" /\ seMin = 0
TSpec == TInit /\ [][TNext]_<<l, vars>>
TraceAccepted == TLCGet("stats").diameter - 1 = Len(TraceLog)
=============================================================================
