---------------------------- MODULE DriverTrace ----------------------------
(* M-trace for the driver: one event per observed invocation of the real binary.          *)
(* Each event carries the command-line record, the file classes (established by the       *)
(* harness from reference bytes), and the projected outcome (exit status, PASS/FAIL      *)
(* reports, what appeared on stdout, which paths were created / modified / touched and   *)
(* with which content class).  The C12 / C10 statements are evaluated on the OBSERVED    *)
(* outcome; a difference from the model's predicted outcome without a property           *)
(* violation is drift.                                                                    *)
EXTENDS DriverCore, Json, IOUtils
TraceLog == ndJsonDeserialize(IOEnv.TRACE)
VARIABLES l
Ev == TraceLog[l]
\* when source and formatted bytes coincide "src" and "fmt" are the same observation
Norm(t, files) == IF t[3] \in {"src", "fmt"} /\ ~Changed(files[t[2]]) THEN <<t[1], t[2], "same">> ELSE t
NormSet(S, files) == {Norm(t, files) : t \in S}
ObsOf(e) == [exit |-> e.o.exit, done |-> TRUE, pass |-> e.o.pass, fail |-> e.o.fail,
             failcnt |-> Len(e.o.fail), touched |-> NormSet(SeqToSet(e.o.touched), e.files), stdout |-> e.o.stdout]
ExpOf(e) == LET x == Expected(e.a, e.files) IN [x EXCEPT !.touched = NormSet(@, e.files)]
Agree(o, x) == o.exit = x.exit /\ o.pass = x.pass /\ o.fail = x.fail /\ o.touched = x.touched /\ o.stdout = x.stdout
NormExpectedFmt(a, files, o) ==
   \* the property predicates speak of "fmt" content: rewrite "same" back for unchanged files
   [o EXCEPT !.touched = {IF t[3] = "same" THEN <<t[1], t[2], "fmt">> ELSE t : t \in o.touched}]
TNext == /\ l <= Len(TraceLog) /\ l' = l + 1
         /\ LET o == ObsOf(Ev)
                x == ExpOf(Ev)
                op == NormExpectedFmt(Ev.a, Ev.files, o)
                bad == C12Bad(Ev.a, Ev.files, op) \cup C10Bad(Ev.a, Ev.files, op)
            IN (bad # {} \/ ~Agree(o, x)) =>
                  PrintT("@@" \o ToJson([l |-> l, bad |-> bad, drift |-> ~Agree(o, x), exp |-> x]))
TSpec == l = 1 /\ [][TNext]_l
TraceAccepted == TLCGet("stats").diameter - 1 = Len(TraceLog)
=========================================================================
