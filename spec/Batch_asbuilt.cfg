SPECIFICATION Spec
CONSTANTS
  MaxFiles = 3
  ForcedReset = FALSE
INVARIANT CleanStart
CHECK_DEADLOCK FALSE
