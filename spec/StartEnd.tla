------------------------------ MODULE StartEnd ------------------------------
(* newlines_eat_start_end() (src/newlines/eat_start_end.cpp): how many line breaks open and  *)
(* close the file, as a function of nl_start_of_file / nl_end_of_file (IARF), their _min      *)
(* value and the number n of line breaks the chunk list has at that end (0 = no newline       *)
(* chunk).  Shared by C17 (end-of-file policy) and C20 (StartEndExact).                       *)
EXTENDS Naturals
(* the coded case analysis, including FORCE with min = 0 (a newline chunk with count 0)       *)
StartEndCount(o, min, n) ==
  CASE o = "ignore" -> n
    [] o = "remove" -> 0
    [] o = "force"  -> min
    [] o = "add"    -> IF min > 0 /\ n < min THEN min ELSE n
(* what the option documentation promises about the observable file (the property-level      *)
(* reading): remove = none, force = exactly min, add = at least min, ignore = no claim (count  *)
(* options such as nl_after_func_body and nl_max still apply to the last newline chunk)        *)
StartEndOk(o, min, n, out) ==
  CASE o = "ignore" -> TRUE
    [] o = "remove" -> out = 0
    [] o = "force"  -> out = min
    [] o = "add"    -> out >= min
=============================================================================
