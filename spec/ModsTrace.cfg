SPECIFICATION TSpec
CONSTANTS
  Depth = 0
  ChainDepth = 0
  SkipAllVClose = TRUE
  IfGuard = TRUE
  Emit = FALSE
POSTCONDITION TraceAccepted
CHECK_DEADLOCK FALSE
