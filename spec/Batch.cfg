SPECIFICATION Spec
CONSTANTS
  MaxFiles = 3
  ForcedReset = TRUE
INVARIANT CleanStart
CHECK_DEADLOCK FALSE
