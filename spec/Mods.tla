-------------------------------- MODULE Mods --------------------------------
(* Code-modifying passes (C04, C01).                                                         *)
(*                                                                                           *)
(* Part 1 - what each mod_ option is licensed to change: AllowedKinds, and the three          *)
(* observable predicates OnlyNamedKinds / OrderKept / Balanced over token sequences.          *)
(*                                                                                           *)
(* Part 2 - brace removal (mod_full_brace_if / for / while / do = remove), the one edit whose  *)
(* legality is semantic: examine_brace() of src/braces.cpp transcribed over a token list with  *)
(* levels and virtual braces, applied to every statement tree up to Depth; the result, printed *)
(* without virtual braces and parsed again with the dangling-else rule, must be the same tree. *)
(* SkipAllVClose = FALSE is the variant that steps over only one virtual closing brace when     *)
(* it looks for a following 'else'; TLC finds the tree on which it re-attaches an else.         *)
EXTENDS Naturals, Sequences, FiniteSets, TLC, Json
CONSTANTS Depth, ChainDepth, SkipAllVClose, IfGuard, Emit

(* ===================================================================== Part 1 *)
ModKinds == [
  braces    |-> {"{", "}"},
  parens    |-> {"(", ")"},
  semicolon |-> {";"},
  int       |-> {"int"},
  return    |-> {"return", ";"},
  comma     |-> {","},
  loop      |-> {"for", "while", "do", "(", ")", ";", "1", "true", "TRUE", "{", "}"},
  casebrk   |-> {"break", ";", "{", "}", "return"}
]
(* option name -> class of edit it licenses *)
ModClass(name) ==
  CASE name \in {"mod_full_brace_do", "mod_full_brace_for", "mod_full_brace_function", "mod_full_brace_if", "mod_full_brace_while",
                 "mod_full_brace_using", "mod_full_brace_if_chain", "mod_full_brace_if_chain_only", "mod_case_brace"} -> "braces"
    [] name \in {"mod_paren_on_return", "mod_paren_on_throw", "mod_full_paren_if_bool", "mod_full_paren_assign_bool",
                 "mod_full_paren_return_bool"} -> "parens"
    [] name \in {"mod_remove_extra_semicolon", "mod_pawn_semicolon"} -> "semicolon"
    [] name \in {"mod_int_short", "mod_short_int", "mod_int_long", "mod_long_int", "mod_int_signed", "mod_signed_int",
                 "mod_int_unsigned", "mod_unsigned_int", "mod_int_prefer_int_on_left"} -> "int"
    [] name = "mod_remove_empty_return" -> "return"
    [] name = "mod_enum_last_comma" -> "comma"
    [] name = "mod_infinite_loop" -> "loop"
    [] name \in {"mod_move_case_break", "mod_move_case_return"} -> "casebrk"
    [] OTHER -> "none"
Allowed(classes) == UNION {ModKinds[c] : c \in classes \cap DOMAIN ModKinds}
Strip(sq, ks) == SelectSeq(sq, LAMBDA t : t \notin ks)
(* every other token keeps its place *)
OrderKept(tin, tout, classes) == Strip(tin, Allowed(classes)) = Strip(tout, Allowed(classes))
RECURSIVE Nest(_, _, _)
(* pairs nest: a closer closes the innermost open bracket of its own kind ('( { ) }' is not balanced) *)
Opener(c) == CASE c = "}" -> "{" [] c = ")" -> "(" [] c = "]" -> "["
Nest(sq, i, st) == IF i > Len(sq) THEN st = <<>>
                   ELSE IF sq[i] \in {"{", "(", "["} THEN Nest(sq, i + 1, Append(st, sq[i]))
                   ELSE IF sq[i] \in {"}", ")", "]"}
                        THEN (IF st = <<>> \/ st[Len(st)] # Opener(sq[i]) THEN FALSE ELSE Nest(sq, i + 1, SubSeq(st, 1, Len(st) - 1)))
                   ELSE Nest(sq, i + 1, st)
BalancedSeq(sq) == Nest(sq, 1, <<>>)

(* ===================================================================== Part 2 *)
(* statement trees: "s" simple; if with then-body and optional else-body; loop with body.      *)
(* a body is [br, st, two]: braced?, its first statement, and whether a second simple one follows *)
SS == [k |-> "s"]
NONE == [k |-> "none"]
UNK == [k |-> "?"]
RECURSIVE Trees(_)
Bodies(T) == [br : BOOLEAN, st : T, two : {FALSE}] \cup [br : {TRUE}, st : T, two : {TRUE}]
Trees(n) == IF n = 0 THEN {SS}
            ELSE LET T == Trees(n - 1)
                     B == Bodies(T)
                 IN T \cup [k : {"if"}, t : B, e : B \cup {NONE}] \cup [k : {"loop"}, b : B]
(* chains: trees with one spine (the else-branch of an if on the spine is a simple statement):   *)
(* deep nesting without the breadth - the family in which an else can be captured               *)
RECURSIVE Chains(_)
Chains(n) == IF n = 0 THEN {SS}
             ELSE LET C == Chains(n - 1)
                      B == Bodies(C)
                      BS == Bodies({SS})
                  IN C \cup [k : {"if"}, t : B, e : BS \cup {NONE}] \cup [k : {"loop"}, b : B]
(* -- token list with levels and virtual braces, as brace_cleanup() leaves it *)
RECURSIVE Tok(_, _)
TokBody(b, lv, par) == <<[t |-> IF b.br THEN "{" ELSE "v{", lv |-> lv, par |-> par]>>
                       \o Tok(b.st, lv + 1) \o (IF b.two THEN <<[t |-> "S", lv |-> lv + 1, par |-> "-"]>> ELSE <<>>)
                       \o <<[t |-> IF b.br THEN "}" ELSE "v}", lv |-> lv, par |-> par]>>
Tok(x, lv) == IF x.k = "s" THEN <<[t |-> "S", lv |-> lv, par |-> "-"]>>
              ELSE IF x.k = "if" THEN <<[t |-> "I", lv |-> lv, par |-> "-"]>> \o TokBody(x.t, lv, "I")
                                      \o (IF x.e = NONE THEN <<>> ELSE <<[t |-> "E", lv |-> lv, par |-> "-"]>> \o TokBody(x.e, lv, "E"))
              ELSE <<[t |-> "L", lv |-> lv, par |-> "-"]>> \o TokBody(x.b, lv, "L")
(* -- examine_brace(bopen): may the braces that open at index i go? *)
RECURSIVE ScanBody(_, _, _, _, _, _)
(* returns <<verdict so far ("go" | "no"), index of the closing brace, if_count>> *)
ScanBody(L, j, level, semi, hit, ifc) ==
  IF j > Len(L) \/ L[j].lv < level THEN <<"go", j, ifc, semi>>
  ELSE LET tk == L[j]
           ifc2 == IF tk.t = "I" THEN ifc + 1 ELSE ifc
       IN IF tk.lv = level
          THEN IF semi > 0 /\ hit THEN <<"no", j, ifc2, semi>>
               ELSE IF tk.t = "E" THEN <<"no", j, ifc2, semi>>
               ELSE IF tk.t \in {"S", "I", "L"}
                    THEN IF semi + 1 > 1 THEN <<"no", j, ifc2, semi + 1>>
                         ELSE ScanBody(L, j + 1, level, semi + 1, hit \/ tk.t = "S", ifc2)
                    ELSE ScanBody(L, j + 1, level, semi, hit, ifc2)
          ELSE ScanBody(L, j + 1, level, semi, hit, ifc2)
RECURSIVE SkipV(_, _, _)
SkipV(L, j, budget) == IF j <= Len(L) /\ L[j].t = "v}" /\ budget > 0 THEN SkipV(L, j + 1, budget - 1) ELSE j
CanRemove(L, i) ==
  LET r == ScanBody(L, i + 1, L[i].lv + 1, 0, FALSE, 0)
      close == r[2]
      nxt == SkipV(L, close + 1, IF SkipAllVClose THEN Len(L) ELSE 1)
  IN /\ r[1] = "go" /\ close <= Len(L) /\ L[close].t = "}"
     /\ ~(IfGuard /\ r[3] > 0 /\ nxt <= Len(L) /\ L[nxt].t = "E")
     /\ r[4] > 0
Convert(L, i) == LET close == ScanBody(L, i + 1, L[i].lv + 1, 0, FALSE, 0)[2]
                 IN [j \in 1..Len(L) |-> IF j = i THEN [L[j] EXCEPT !.t = "v{"] ELSE IF j = close THEN [L[j] EXCEPT !.t = "v}"] ELSE L[j]]
(* examine_braces(): from the tail to the head, every real '{' whose parent is if / else / loop *)
RECURSIVE Examine(_, _)
Examine(L, i) == IF i = 0 THEN L
                 ELSE IF L[i].t = "{" /\ L[i].par \in {"I", "E", "L"} /\ CanRemove(L, i) THEN Examine(Convert(L, i), i - 1)
                 ELSE Examine(L, i - 1)
RemoveBraces(x) == LET L == Tok(x, 0) IN Examine(L, Len(L))
Printed(L) == LET R == SelectSeq(L, LAMBDA tk : tk.t \notin {"v{", "v}"}) IN [j \in 1..Len(R) |-> R[j].t]
(* -- the language's own reading of the printed tokens: an else binds to the nearest open if *)
RECURSIVE PStmt(_), PBlock(_, _)
PBlock(ts, acc) == IF ts = <<>> THEN <<acc, <<>>>>
                   ELSE IF Head(ts) = "}" THEN <<acc, Tail(ts)>>
                   ELSE LET r == PStmt(ts) IN PBlock(r[2], Append(acc, r[1]))
PStmt(ts) ==
  IF ts = <<>> THEN <<UNK, <<>>>>
  ELSE CASE Head(ts) = "S" -> <<SS, Tail(ts)>>
         [] Head(ts) = "{" -> LET r == PBlock(Tail(ts), <<>>) IN <<IF Len(r[1]) = 1 THEN r[1][1] ELSE [k |-> "blk", ss |-> r[1]], r[2]>>
         [] Head(ts) = "L" -> LET r == PStmt(Tail(ts)) IN <<[k |-> "loop", b |-> r[1]], r[2]>>
         [] Head(ts) = "I" -> LET r == PStmt(Tail(ts))
                              IN IF r[2] # <<>> /\ Head(r[2]) = "E"
                                 THEN LET e == PStmt(Tail(r[2])) IN <<[k |-> "if", t |-> r[1], e |-> e[1]], e[2]>>
                                 ELSE <<[k |-> "if", t |-> r[1], e |-> NONE], r[2]>>
         [] OTHER -> <<UNK, Tail(ts)>>
(* the tree as the programmer wrote it, braces forgotten *)
RECURSIVE Shape(_)
ShapeBody(b) == IF b.two THEN [k |-> "blk", ss |-> <<Shape(b.st), SS>>] ELSE Shape(b.st)
Shape(x) == IF x.k = "s" THEN SS
            ELSE IF x.k = "if" THEN [k |-> "if", t |-> ShapeBody(x.t), e |-> IF x.e = NONE THEN NONE ELSE ShapeBody(x.e)]
            ELSE [k |-> "loop", b |-> ShapeBody(x.b)]
(* an unbraced body that holds an else-less if in front of the owner's else cannot be written   *)
(* down in the language at all: such trees are not inputs                                       *)
Writable(x) == PStmt(Printed(Tok(x, 0)))[1] = Shape(x)

VARIABLE tree
Init == tree \in {x \in Trees(Depth) \cup Chains(ChainDepth) : Writable(x)}
Next == UNCHANGED tree
Spec == Init /\ [][Next]_tree
MeaningKept == PStmt(Printed(RemoveBraces(tree)))[1] = Shape(tree)
OnlyBracesGo == LET a == Printed(Tok(tree, 0))
                    b == Printed(RemoveBraces(tree))
                IN Strip(a, {"{", "}"}) = Strip(b, {"{", "}"}) /\ BalancedSeq(b)
(* IfGuard = FALSE is the variant without the 'an if in the body and an else behind the brace'     *)
(* clause at all (what can_remove_braces() of the if-chain pass lacked): must violate MeaningKept  *)
(* with a weakened rule (SkipAllVClose = FALSE, IfGuard = FALSE) the trees on which the weakening  *)
(* shows:                                                                                          *)
(* sensitivity set of that clause, replayed on the binary in every tier                          *)
EmitHazard == (Emit /\ ~MeaningKept) => PrintT("@@" \o ToJson([tokens |-> Printed(Tok(tree, 0)), after |-> Printed(Tok(tree, 0)), hazard |-> TRUE]))
EmitTree == Emit => PrintT("@@" \o ToJson([tokens |-> Printed(Tok(tree, 0)), after |-> Printed(RemoveBraces(tree))]))
=============================================================================
