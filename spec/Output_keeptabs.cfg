SPECIFICATION Spec
CONSTANTS
  MaxSteps = 3
  Cols = {1, 2, 4, 5, 9}
  TabSizes = {4}
  KeepTabsOnFirst = TRUE
INVARIANTS IndentHygiene NoTrailingBlank
CHECK_DEADLOCK FALSE
