------------------------------ MODULE Encoding ------------------------------
(* Character encodings (C09): decode_unicode() and its decoders, the encoding / BOM policy   *)
(* at the head of uncrustify_file(), write_char() and its encoders - src/unicode.cpp          *)
(* transcribed at the level of bytes and code points.                                        *)
(*                                                                                           *)
(* A file is Prefix(form) \o payload \o Suffix(form): an ASCII frame (a comment opener and    *)
(* closer, written in the encoding form under test) around a short payload of arbitrary bytes.*)
(* The formatter proper is the identity on such a file, so Out(file) is exactly what the       *)
(* binary must print - the replay compares bytes.  TLC enumerates every payload over          *)
(* Alphabet up to MaxPayload bytes in every form and option setting.                           *)
EXTENDS Naturals, Integers, Sequences, FiniteSets, TLC, Json
CONSTANTS Alphabet,        \* payload bytes explored
          MaxPayload,
          Forms,           \* subset of AllForms
          OptSets,         \* set of option records [bom, byte, force]
          RejectOverlong,  \* TRUE: decode_utf8 refuses overlong forms (as in the tree); FALSE: before the repair
          Emit
VARIABLES form, payload, o
vars == <<form, payload, o>>
AllForms == {"plain", "utf8bom", "utf16le", "utf16be", "utf16le_nobom", "utf16be_nobom"}

(* --------------------------------------------------------------------- helpers *)
RECURSIVE Concat(_)
Concat(ss) == IF ss = <<>> THEN <<>> ELSE Head(ss) \o Concat(Tail(ss))
Shl(x, n) == x * (2 ^ n)
Shr(x, n) == x \div (2 ^ n)
Band(x, m) == x % (m + 1)                  \* m = 2^k - 1
Frame1 == <<47, 42, 32>>                    \* "/* "
Frame2 == <<32, 42, 47, 10>>                \* " */\n"
U16(cp, be) == IF be THEN <<Shr(cp, 8), Band(cp, 255)>> ELSE <<Band(cp, 255), Shr(cp, 8)>>
AsciiIn(fr, f) == CASE f \in {"plain", "utf8bom"} -> fr
                    [] f \in {"utf16le", "utf16le_nobom"} -> Concat([i \in 1..Len(fr) |-> U16(fr[i], FALSE)])
                    [] f \in {"utf16be", "utf16be_nobom"} -> Concat([i \in 1..Len(fr) |-> U16(fr[i], TRUE)])
BomOf(f) == CASE f = "utf8bom" -> <<239, 187, 191>> [] f = "utf16le" -> <<255, 254>> [] f = "utf16be" -> <<254, 255>>
              [] OTHER -> <<>>
File(f, p) == BomOf(f) \o AsciiIn(Frame1, f) \o p \o AsciiIn(Frame2, f)

(* ------------------------------------------------------------------ decode_utf8 *)
MinValue == <<128, 2048, 65536, 2097152, 67108864>>      \* by number of trail bytes
Lead(b) == IF b < 128 THEN <<0, b>>
           ELSE IF Shr(b, 5) = 6 THEN <<1, Band(b, 31)>>
           ELSE IF Shr(b, 4) = 14 THEN <<2, Band(b, 15)>>
           ELSE IF Shr(b, 3) = 30 THEN <<3, Band(b, 7)>>
           ELSE IF Shr(b, 2) = 62 THEN <<4, Band(b, 3)>>
           ELSE IF Shr(b, 1) = 126 THEN <<5, Band(b, 1)>>
           ELSE <<-1, 0>>
RECURSIVE Trail(_, _, _, _)     \* returns <<ok, value, next index>>
Trail(d, i, n, acc) ==
  IF n = 0 THEN <<TRUE, acc, i>>
  ELSE IF i > Len(d) THEN <<FALSE, 0, i>>                                \* short sequence
  ELSE IF Shr(d[i], 6) # 2 THEN <<FALSE, 0, i>>                          \* not a trail byte
  ELSE Trail(d, i + 1, n - 1, Shl(acc, 6) + Band(d[i], 63))
RECURSIVE DecU8(_, _, _)
DecU8(d, i, out) ==
  IF i > Len(d) THEN <<TRUE, out>>
  ELSE LET ld == Lead(d[i])
       IN IF ld[1] = -1 THEN <<FALSE, <<>>>>
          ELSE IF ld[1] = 0 THEN DecU8(d, i + 1, Append(out, ld[2]))
          ELSE LET t == Trail(d, i + 1, ld[1], ld[2])
               IN IF ~t[1] THEN <<FALSE, <<>>>>
                  ELSE IF RejectOverlong /\ t[2] < MinValue[ld[1]] THEN <<FALSE, <<>>>>
                  ELSE DecU8(d, t[3], Append(out, t[2]))
DecodeUtf8(d) == LET s == IF Len(d) >= 3 /\ SubSeq(d, 1, 3) = <<239, 187, 191>> THEN 4 ELSE 1 IN DecU8(d, s, <<>>)

(* ----------------------------------------------------------------- decode_utf16 *)
Word(d, i, be) == IF i + 1 > Len(d) THEN -1 ELSE IF be THEN Shl(d[i], 8) + d[i + 1] ELSE d[i] + Shl(d[i + 1], 8)
RECURSIVE DecU16(_, _, _, _)
DecU16(d, i, be, out) ==
  IF i > Len(d) THEN <<TRUE, out>>
  ELSE LET ch == Word(d, i, be)
       IN IF ch >= 55296 /\ ch < 56320 THEN            \* high surrogate
             LET lo == Word(d, i + 2, be)
             IN IF lo < 56320 \/ lo >= 57344 THEN <<FALSE, <<>>>>
                ELSE DecU16(d, i + 4, be, Append(out, Shl(ch - 55296, 10) + (lo - 56320) + 65536))
          ELSE IF (ch >= 0 /\ ch < 55296) \/ ch >= 57344 THEN DecU16(d, i + 2, be, Append(out, ch))
          ELSE <<FALSE, <<>>>>
(* returns <<ok, enc, data>> *)
DecodeUtf16(d) ==
  IF Len(d) % 2 = 1 \/ Len(d) < 2 THEN <<FALSE, "ascii", <<>>>>
  ELSE IF d[1] = 254 /\ d[2] = 255 THEN LET r == DecU16(d, 3, TRUE, <<>>) IN <<r[1], "utf16be", r[2]>>
  ELSE IF d[1] = 255 /\ d[2] = 254 THEN LET r == DecU16(d, 3, FALSE, <<>>) IN <<r[1], "utf16le", r[2]>>
  ELSE IF Len(d) >= 6 /\ d[1] = 0 /\ d[3] = 0 /\ d[5] = 0 THEN LET r == DecU16(d, 1, TRUE, <<>>) IN <<r[1], "utf16be", r[2]>>
  ELSE IF Len(d) >= 6 /\ d[2] = 0 /\ d[4] = 0 /\ d[6] = 0 THEN LET r == DecU16(d, 1, FALSE, <<>>) IN <<r[1], "utf16le", r[2]>>
  ELSE <<FALSE, "ascii", <<>>>>

(* --------------------------------------------------------------- decode_unicode *)
CountIf(d, P(_)) == Cardinality({i \in 1..Len(d) : P(d[i])})
(* <<ok, enc, bom, data>> *)
Detect(d) ==
  IF Len(d) >= 2 /\ d[1] = 254 /\ d[2] = 255 THEN LET r == DecodeUtf16(d) IN <<r[1], "utf16be", TRUE, r[3]>>
  ELSE IF Len(d) >= 2 /\ d[1] = 255 /\ d[2] = 254 THEN LET r == DecodeUtf16(d) IN <<r[1], "utf16le", TRUE, r[3]>>
  ELSE IF Len(d) >= 3 /\ SubSeq(d, 1, 3) = <<239, 187, 191>> THEN LET r == DecodeUtf8(d) IN <<r[1], "utf8", TRUE, r[2]>>
  ELSE LET na == CountIf(d, LAMBDA b : b >= 128)
           z  == CountIf(d, LAMBDA b : b = 0)
       IN IF na + z = 0 THEN <<TRUE, "ascii", FALSE, d>>
          ELSE LET u16 == IF z > Len(d) \div 4 /\ z <= Len(d) \div 2 THEN DecodeUtf16(d) ELSE <<FALSE, "ascii", <<>>>>
               IN IF u16[1] THEN <<TRUE, u16[2], FALSE, u16[3]>>
                  ELSE LET u8 == DecodeUtf8(d)
                       IN IF u8[1] THEN <<TRUE, "utf8", FALSE, u8[2]>>
                          ELSE <<TRUE, "byte", FALSE, d>>

(* ------------------------------------------------ policy (uncrustify_file head) *)
OutEnc(enc, op) == IF op.force \/ (enc = "byte" /\ op.byte) THEN "utf8" ELSE enc
OutBom(enc2, bom, op) ==
  LET av == CASE enc2 = "utf8" -> op.bom [] enc2 \in {"utf16le", "utf16be"} -> "force" [] OTHER -> "ignore"
  IN IF av = "remove" THEN FALSE ELSE IF av # "ignore" THEN TRUE ELSE bom
(* an embedded NUL anywhere but in the last position aborts the run *)
HasNul(data) == \E i \in 1..(Len(data) - 1) : data[i] = 0

(* ---------------------------------------------------------------------- writers *)
EncU8(ch) ==
  IF ch < 128 THEN <<ch>>
  ELSE IF ch < 2048 THEN <<192 + Shr(ch, 6), 128 + Band(ch, 63)>>
  ELSE IF ch < 65536 THEN <<224 + Shr(ch, 12), 128 + Band(Shr(ch, 6), 63), 128 + Band(ch, 63)>>
  ELSE IF ch < 2097152 THEN <<240 + Shr(ch, 18), 128 + Band(Shr(ch, 12), 63), 128 + Band(Shr(ch, 6), 63), 128 + Band(ch, 63)>>
  ELSE IF ch < 67108864 THEN <<248 + Shr(ch, 24), 128 + Band(Shr(ch, 18), 63), 128 + Band(Shr(ch, 12), 63),
                               128 + Band(Shr(ch, 6), 63), 128 + Band(ch, 63)>>
  ELSE <<252 + Shr(ch, 30), 128 + Band(Shr(ch, 24), 63), 128 + Band(Shr(ch, 18), 63), 128 + Band(Shr(ch, 12), 63),
         128 + Band(Shr(ch, 6), 63), 128 + Band(ch, 63)>>
EncU16(ch, be) ==
  IF ch < 55296 \/ (ch >= 57344 /\ ch < 65536) THEN U16(ch, be)
  ELSE IF ch >= 65536 /\ ch < 1114112 THEN U16(55296 + Shr(ch - 65536, 10), be) \o U16(56320 + Band(ch - 65536, 1023), be)
  ELSE <<>>                                                       \* illegal code - do not store
WriteChar(ch, enc) == CASE enc = "byte" -> <<Band(ch, 255)>>
                        [] enc = "ascii" -> IF ch < 256 THEN <<ch>> ELSE <<>>
                        [] enc = "utf8" -> EncU8(ch)
                        [] enc = "utf16le" -> EncU16(ch, FALSE)
                        [] enc = "utf16be" -> EncU16(ch, TRUE)
WriteBom(enc) == CASE enc = "utf8" -> <<239, 187, 191>> [] enc = "utf16le" -> <<255, 254>> [] enc = "utf16be" -> <<254, 255>>
                   [] OTHER -> <<>>
(* the whole run on a file whose text the formatter leaves alone: <<status, bytes>> *)
Run(d, op) ==
  LET det == Detect(d)
  IN IF ~det[1] THEN <<"refused", <<>>>>
     ELSE IF HasNul(det[4]) THEN <<"refused", <<>>>>
     ELSE LET e2 == OutEnc(det[2], op)
              b2 == OutBom(e2, det[3], op)
          IN <<"ok", (IF b2 THEN WriteBom(e2) ELSE <<>>) \o Concat([i \in 1..Len(det[4]) |-> WriteChar(det[4][i], e2)])>>

(* ------------------------------------------------------------------- behaviours *)
Payloads == UNION {[1..n -> Alphabet] : n \in 0..MaxPayload}
Init == form \in Forms /\ payload \in Payloads /\ o \in OptSets
Next == UNCHANGED vars
Spec == Init /\ [][Next]_vars
TheFile == File(form, payload)
Result == Run(TheFile, o)
Default == [bom |-> "ignore", byte |-> FALSE, force |-> FALSE]
DefaultOpts == {Default}
AllOpts == [bom : {"ignore", "add", "remove", "force"}, byte : BOOLEAN, force : BOOLEAN]

(* ------------------------------------------------------------------- properties *)
(* Whatever the bytes are, with default options the file comes back unchanged or is refused:  *)
(* valid text round-trips, invalid text is passed through byte-wise - never silently altered. *)
NeverAltered == (o = Default /\ Result[1] = "ok") =>
                  LET det == Detect(TheFile)
                  IN \/ Result[2] = TheFile
                     \/ (det[2] \in {"utf16le", "utf16be"} /\ ~det[3] /\ Result[2] = WriteBom(det[2]) \o TheFile)
(* UTF-16 output always carries a BOM; with a BOM exactly when the input had one otherwise     *)
BomPolicy == (Result[1] = "ok" /\ o.bom = "ignore" /\ ~o.force /\ ~o.byte) =>
                LET det == Detect(TheFile)
                    hasOut == Len(Result[2]) >= 2 /\ (SubSeq(Result[2], 1, 2) \in {<<255, 254>>, <<254, 255>>}
                                                       \/ (Len(Result[2]) >= 3 /\ SubSeq(Result[2], 1, 3) = <<239, 187, 191>>))
                IN IF det[2] \in {"utf16le", "utf16be"} THEN hasOut ELSE (hasOut <=> det[3])
EmitCase == Emit => PrintT("@@" \o ToJson([form |-> form, payload |-> payload, o |-> o, file |-> TheFile,
                                          status |-> Result[1], out |-> Result[2], enc |-> Detect(TheFile)[2]]))
=============================================================================
