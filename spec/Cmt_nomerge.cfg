SPECIFICATION Spec
CONSTANTS
  MaxItems = 3
  MaxLines = 1
  Shapes = {"w"}
  Emit = FALSE
INVARIANTS NeverMerges
CHECK_DEADLOCK FALSE
