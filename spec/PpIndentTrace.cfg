SPECIFICATION TSpec
CONSTANTS
  MaxLines = 9
  MaxDepth = 3
  Counts = {1}
  SpaceCounts = {0}
  IndentColumns = 4
  InCols = {1}
  InGaps = {0}
  Emit = FALSE
INVARIANTS Judge
POSTCONDITION TraceAccepted
CHECK_DEADLOCK FALSE
