SPECIFICATION Spec
CONSTANTS
  MaxLines = 3
  Counted = {"code", "cmt", "on"}
  Emit = FALSE
INVARIANTS OneTerminator AutoPicksMostFrequent EmitLayout
CHECK_DEADLOCK FALSE
