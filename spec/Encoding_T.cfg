SPECIFICATION Spec
CONSTANTS
  Alphabet = {0, 65, 127, 128, 160, 191, 193, 195, 224, 237, 239, 187, 240, 144, 244, 248, 254, 255, 216, 220}
  MaxPayload = 3
  Forms = {"plain", "utf8bom", "utf16le", "utf16be", "utf16le_nobom", "utf16be_nobom"}
  OptSets <- DefaultOpts
  RejectOverlong = TRUE
  Emit = FALSE
INVARIANTS NeverAltered BomPolicy EmitCase
CHECK_DEADLOCK FALSE
