------------------------------- MODULE Region -------------------------------
(* Disabled regions (C07): the line-level machine of cpd.unc_off in the tokenizer             *)
(* (parse_comment marker detection, parse_ignored, '#pragma asm' / '#asm' handling) and the    *)
(* contract of the writer for CT_IGNORED chunks.                                               *)
(*                                                                                             *)
(* A file is a sequence of lines of these kinds:                                               *)
(*   code     ordinary code                     raw    arbitrary text (tabs, trailing blanks,  *)
(*   off      comment line with the disable marker      unbalanced brackets, lexer garbage)    *)
(*   on       comment line with the enable marker      blank / ws   empty / whitespace-only    *)
(*   offon    one comment holding both markers, disable first (no effect: re-enabled at once)  *)
(*   pasm pend  '#pragma asm' / '#pragma endasm'      asm endasm   '#asm' / '#endasm'           *)
(*   rawon    text that contains the enable marker outside a comment that starts the line       *)
(*            (the tokenizer searches the marker in the whole line, but re-enables only through *)
(*            a comment at the start of the line: the line stays in the region)                 *)
(* Off(L, i) = processing is off when line i is read.  A line is *in the region* when it is     *)
(* read while off and does not itself switch processing on.                                    *)
EXTENDS Naturals, Sequences, FiniteSets, TLC, Json
CONSTANTS MaxLines, Emit
VARIABLES lines
Kinds == {"code", "raw", "off", "on", "offon", "pasm", "pend", "asm", "endasm", "blank", "ws", "rawon"}
Switch(off, k) == CASE k \in {"off", "pasm", "asm"} -> TRUE
                    [] k \in {"on", "pend", "endasm"} -> FALSE
                    [] OTHER -> off
RECURSIVE OffAt(_, _)
OffAt(L, i) == IF i = 1 THEN FALSE ELSE Switch(OffAt(L, i - 1), L[i - 1])
(* '#pragma asm' while processing is on switches off after the line; its own line is still     *)
(* formatted.  While off, only a line that switches on ends the region.                        *)
InRegion(L, i) == OffAt(L, i) /\ Switch(TRUE, L[i])
RegionLines(L) == {i \in 1..Len(L) : InRegion(L, i)}
(* well-formed for replay: raw text only inside regions (outside it would be a syntax error),   *)
(* a '#asm' region is closed by '#endasm' or the end of the file                               *)
WF(L) == \A i \in 1..Len(L) :
           /\ (L[i] \in {"raw", "rawon"} => OffAt(L, i))
           /\ (L[i] \in {"pend", "endasm", "on"} => OffAt(L, i))
           /\ (L[i] \in {"off", "pasm", "asm", "offon"} => ~OffAt(L, i))
Init == lines \in {L \in UNION {[1..n -> Kinds] : n \in 1..MaxLines} : WF(L)}
Next == UNCHANGED lines
Spec == Init /\ [][Next]_lines
(* design-level facts the replay relies on *)
RegionsAreBracketed == \A i \in RegionLines(lines) :
                          \E j \in 1..(i - 1) : lines[j] \in {"off", "pasm", "asm"} /\ \A m \in (j + 1)..(i - 1) : InRegion(lines, m)
NothingOutsideIsRaw == \A i \in 1..Len(lines) : lines[i] \in {"raw", "rawon"} => InRegion(lines, i)
EmitFile == Emit => PrintT("@@" \o ToJson([lines |-> lines, off |-> [i \in 1..Len(lines) |-> OffAt(lines, i)],
                                          inreg |-> [i \in 1..Len(lines) |-> InRegion(lines, i)]]))

(* ------------------------------------------------ the output contract (C07) *)
(* judged on observations: reg_in / reg_out are the region's lines in input and output.         *)
IsBlank(s) == s = ""
NonBlank(sq) == SelectSeq(sq, LAMBDA s : ~IsBlank(s))
Verbatim(reg_in, reg_out) == /\ NonBlank(reg_in) = NonBlank(reg_out)
                             /\ Len(reg_in) = Len(reg_out)
                             /\ \A i \in 1..Len(reg_in) : IsBlank(reg_in[i]) <=> IsBlank(reg_out[i])
=============================================================================
