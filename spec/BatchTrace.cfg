SPECIFICATION TSpec
CONSTANTS
  MaxFiles = 3
  ForcedReset = TRUE
POSTCONDITION TraceAccepted
CHECK_DEADLOCK FALSE
