SPECIFICATION TSpec
CONSTANTS
  MaxItems = 0
  MaxLines = 0
  Shapes = {}
  Emit = FALSE
POSTCONDITION TraceAccepted
CHECK_DEADLOCK FALSE
