SPECIFICATION Spec
CONSTANTS
  MaxSteps = 7
  MaxFaults = 1
  AllowCrash = TRUE
  Modes = {"replace"}
  UserConts = {"U1", "U2", "A2"}
  Md5Order = "after"
INVARIANTS TypeOK BackupIsOrigin Md5DescribesOutput NeverBackupOwn AllOrNothing
CHECK_DEADLOCK FALSE
