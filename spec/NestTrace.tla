---------------------------- MODULE NestTrace ----------------------------
(* M-trace for Nest (C18): one event per (statement tree, language, indent_columns, rendering):   *)
(* lines = the token groups with the levels the generator configuration of Nest.tla emitted,       *)
(* cols = the column of the first token of each line in the output.                                *)
EXTENDS Nest, IOUtils
TraceLog == ndJsonDeserialize(IOEnv.TRACE)
VARIABLES l
Ev == TraceLog[l]
TNext == /\ l <= Len(TraceLog) /\ l' = l + 1 /\ UNCHANGED tree
         /\ LET e == Ev
                bad == IF e.rc # 0 THEN {} ELSE
                       (IF ~BodyOneDeeper(e.lines, e.cols, e.ic, e.base) THEN {"OneLevelDeeper"} ELSE {}) \cup
                       (IF ~SameLevelSameColumn(e.lines, e.cols) THEN {"SameBlockSameColumn"} ELSE {}) \cup
                       (IF e.cols2 # e.cols THEN {"OriginalIndentIrrelevant"} ELSE {}) \cup
                       (* the same statements formatted as a fragment (--frag, tabs in the output): the first line's        *)
                       (* indentation is the base, every line stands where it stands in the function body, shifted           *)
                       (IF e.colsf # <<>> /\ \E i \in 1..Len(e.cols) : e.colsf[i] - e.fbase # e.cols[i] - e.base THEN {"FragmentAsBody"} ELSE {})
            IN bad # {} => PrintT("@@" \o ToJson([l |-> l, id |-> e.id, bad |-> bad, expected |-> Cols(e.lines, e.ic, e.base)]))
TInit == l = 1 /\ tree = SS
TSpec == TInit /\ [][TNext]_<<l, tree>>
TraceAccepted == TLCGet("stats").diameter - 1 = Len(TraceLog)
=============================================================================
