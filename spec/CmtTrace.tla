------------------------------ MODULE CmtTrace ------------------------------
(* M-trace for Cmt: one event per (file, options) formatted by the binary.                       *)
(*   file      the item sequence TLC generated                                                    *)
(*   o         the four kind / grouping options of the model (the layout options of the run are   *)
(*             in the event for the record; the model does not need them)                         *)
(*   ctext     per item the non-blank characters of the comment's body as rendered ("" for code)  *)
(*   textOut   the non-blank characters of all comment bodies of the output, in order             *)
(*   codeIn / codeOut   the code tokens of input and output                                       *)
(*   outc      the comments of the output: [kind, text]                                           *)
(*   wrap      cmt_width is set (a long line comment may come out as several)                      *)
EXTENDS Cmt, IOUtils
TraceLog == ndJsonDeserialize(IOEnv.TRACE)
VARIABLES l
Ev == TraceLog[l]
RECURSIVE Cat(_)
Cat(ss) == IF ss = <<>> THEN "" ELSE Head(ss) \o Cat(Tail(ss))
TextIn(e) == Cat([i \in 1..Len(e.file) |-> e.ctext[i]])
Expected(e) == LET out == Out(e.file, e.o)
               IN [j \in 1..Len(out) |-> [kind |-> out[j].kind, text |-> Cat([n \in 1..Len(out[j].src) |-> e.ctext[out[j].src[n]]])]]
(* cmt_width folds a line comment that is too long into several line comments: with e.wrap the    *)
(* observed comments may refine an expected line comment (same kind, texts concatenate to it)       *)
RECURSIVE Matches(_, _, _)
Matches(exp, ob, wrap) ==
   IF exp = <<>> THEN ob = <<>>
   ELSE \E k \in 1..Len(ob) :
           /\ (k > 1 => wrap /\ Head(exp).kind = "cpp")
           /\ \A n \in 1..k : ob[n].kind = Head(exp).kind
           /\ Cat([n \in 1..k |-> ob[n].text]) = Head(exp).text
           /\ Matches(Tail(exp), SubSeq(ob, k + 1, Len(ob)), wrap)
TNext == /\ l <= Len(TraceLog) /\ l' = l + 1 /\ UNCHANGED file
         /\ LET e == Ev
                bad == IF e.rc # 0 THEN {} ELSE
                       (IF e.textOut # TextIn(e) THEN {"TextKept"} ELSE {}) \cup
                       (IF e.codeOut # e.codeIn THEN {"CodeKept"} ELSE {})
                drift == IF e.rc = 0 /\ bad = {} /\ ~Matches(Expected(e), e.outc, e.wrap) THEN {"GroupingAsModel"} ELSE {}
            IN (bad # {} \/ drift # {}) => PrintT("@@" \o ToJson([l |-> l, id |-> e.id, bad |-> bad, drift |-> drift, expected |-> Expected(e)]))
TInit == l = 1 /\ file = <<>>
TSpec == TInit /\ [][TNext]_<<l, file>>
TraceAccepted == TLCGet("stats").diameter - 1 = Len(TraceLog)
=============================================================================
