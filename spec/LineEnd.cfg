SPECIFICATION Spec
CONSTANTS
  MaxLines = 4
  Counted = {"code", "cmt", "bs", "cppbs", "str", "on"}
  Emit = FALSE
INVARIANTS OneTerminator AutoPicksMostFrequent EmitLayout
CHECK_DEADLOCK FALSE
