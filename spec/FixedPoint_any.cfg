SPECIFICATION Spec
CONSTANTS
  Contents = {"a", "b", "c"}
  IdempotentFmt = FALSE
  MaxSteps = 4
INVARIANTS CheckAfterRunPasses
PROPERTIES RunIsStable SecondRunAccepts
CHECK_DEADLOCK FALSE
