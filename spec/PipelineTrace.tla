--------------------------- MODULE PipelineTrace ---------------------------
(* M-trace for Pipeline: executions of the hooked binary, concatenated.                      *)
(*   Run   starts an execution: modOn / cmtOn say what the configuration licenses            *)
(*   Pass  one VSTEP of uncrustify_file(): name + the set of projections whose digest        *)
(*         differs from the digest after the previous pass (Tokenized for the first)         *)
(*   Out   the observable result: token / comment / literal sequences of input and output     *)
(* Property constraints (alarms): TokensPreserved, CommentsPreserved, LiteralsPreserved,      *)
(* RegionsPreserved.  Mechanism constraints (DRIFT): the pass is known, arrives in an order   *)
(* uncrustify_file() can produce, and changes only what its class may change.                 *)
EXTENDS Pipeline, Json, IOUtils
TraceLog == ndJsonDeserialize(IOEnv.TRACE)
VARIABLES l, cur, modOn, cmtOn, firstTouch, npass
tvars == <<l, cur, modOn, cmtOn, firstTouch, npass>>
Ev == TraceLog[l]
ToSet(sq) == {sq[j] : j \in 1..Len(sq)}
Report(rec) == PrintT("@@" \o ToJson(rec))
TRun == /\ Ev.e = "Run"
        /\ cur' = "start" /\ modOn' = Ev.modOn /\ cmtOn' = Ev.cmtOn /\ firstTouch' = "" /\ npass' = 0
TPass == /\ Ev.e = "Pass"
         /\ LET p == Ev.name
                ch == ToSet(Ev.changed)
                known == Known(p)
                sched == known /\ StageStep(cur, p)
                contract == known /\ ContractHolds(p, ch, modOn, cmtOn)
            IN /\ cur' = IF sched THEN NextStage(cur, p) ELSE cur
               /\ firstTouch' = IF firstTouch = "" /\ (ch \cap {"chars", "cmt", "str", "ign"}) # {} THEN p ELSE firstTouch
               /\ (~known \/ ~sched \/ ~contract) =>
                     Report([l |-> l, id |-> Ev.id, bad |-> {},
                             drift |-> (IF ~known THEN {"UnknownPass"} ELSE {}) \cup
                                       (IF known /\ ~sched THEN {"Schedule"} ELSE {}) \cup
                                       (IF known /\ ~contract THEN {"PassContract"} ELSE {}),
                             pass |-> p, changed |-> ch, stage |-> cur])
         /\ npass' = npass + 1
         /\ UNCHANGED <<modOn, cmtOn>>
(* 'why' names two rewrites of comment text that are not a change of layout: a blank is     *)
(* inserted after the '*' leader of a continuation line ('*text' -> '* text'); a tab that    *)
(* follows a blank inside the comment is expanded to blanks (cinT / coutT: blank runs merged) *)
TOut == /\ Ev.e = "Out"
        /\ LET bad == (IF ~modOn /\ Ev.tin # Ev.tout THEN {"TokensPreserved"} ELSE {}) \cup
                      (IF ~cmtOn /\ Ev.cin # Ev.cout THEN {"CommentsPreserved"} ELSE {}) \cup
                      (IF ~cmtOn /\ ~modOn /\ Ev.lin # Ev.lout THEN {"LiteralsPreserved"} ELSE {})
               why == IF "cinS" \in DOMAIN Ev /\ Ev.cin # Ev.cout /\ Ev.cinS = Ev.coutS THEN "StarLeaderSpace"
                      ELSE IF "cinT" \in DOMAIN Ev /\ Ev.cin # Ev.cout /\ Ev.cinT = Ev.coutT THEN "TabToBlanksInComment" ELSE ""
               silent == IF npass = 0 THEN {"HookSilent"} ELSE {}      \* an execution that produced output without a single pass event
           IN (bad # {} \/ silent # {}) => Report([l |-> l, id |-> Ev.id, bad |-> bad, drift |-> silent, pass |-> firstTouch,
                                  changed |-> {}, stage |-> cur, why |-> why])
        /\ UNCHANGED <<cur, modOn, cmtOn, firstTouch, npass>>
TNext == l <= Len(TraceLog) /\ l' = l + 1 /\ (TRun \/ TPass \/ TOut) /\ UNCHANGED vars
TInit == chunks = <<>> /\ stage = "trace" /\ edits = 0 /\ lexIn = <<>> /\ l = 1 /\ npass = 0 /\ cur = "start" /\ modOn = FALSE /\ cmtOn = FALSE /\ firstTouch = ""
TSpec == TInit /\ [][TNext]_<<tvars, vars>>
TraceAccepted == TLCGet("stats").diameter - 1 = Len(TraceLog)
=============================================================================
