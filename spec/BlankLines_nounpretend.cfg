SPECIFICATION Spec
CONSTANTS
  MaxN = 6
  MaxOpt = 4
  Unpretend = FALSE
INVARIANTS CapRespected EdgeNeutral StartEndExact Stable
CHECK_DEADLOCK FALSE
