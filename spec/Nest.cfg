SPECIFICATION Spec
CONSTANTS
  Depth = 2
  WithTry = TRUE
  Emit = FALSE
INVARIANTS Good
CHECK_DEADLOCK FALSE
