SPECIFICATION Spec
CONSTANTS
  Emit = FALSE
INVARIANTS EmitExpr
CHECK_DEADLOCK FALSE
