SPECIFICATION Spec
CONSTANTS
  MaxLines = 5
  Emit = FALSE
INVARIANTS RegionsAreBracketed NothingOutsideIsRaw EmitFile
CHECK_DEADLOCK FALSE
