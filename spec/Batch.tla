---------------------------- MODULE Batch ----------------------------
(* The cross-file state machine over BatchCore, explored by TLC (see BatchCore.tla). *)
EXTENDS BatchCore
VARIABLES dirty, q, forced, done
vars == <<dirty, q, forced, done>>
Init == /\ dirty = {} /\ forced \in BOOLEAN /\ done = <<>>
        /\ q \in UNION {[1..n -> Classes] : n \in 1..MaxFiles}
\* do_source_file: language detection resets "lang" unless it is forced
DetectLang(d) == IF ~forced \/ ForcedReset THEN d \ {"lang"} ELSE d
FileStep == /\ q # <<>>
            /\ LET c  == Head(q)
                   d0 == DetectLang(dirty)                 \* state the file starts from
                   d1 == d0 \cup Dirt(c)                   \* after tokenize .. output
                   d2 == d1 \ EndResets                    \* uncrustify_end
               IN /\ dirty' = d2
                  /\ done' = Append(done, [cls |-> c, start |-> d0])
            /\ q' = Tail(q) /\ UNCHANGED forced
Next == FileStep
Spec == Init /\ [][Next]_vars
\* property: every file starts from a state that is clean in every field it is sensitive to
\* (last_char/spaces: see LastCharBenign)
CleanStart == \A j \in 1..Len(done) : (done[j].start \cap Sensitive) \subseteq {"last_char"}
=========================================================================
