---------------------------- MODULE OutputTrace ----------------------------
(* M-trace for Output (C17): one event per formatted file.  The harness projects every        *)
(* output line to (lead, cls, trail): lead = leading whitespace as a word over {T, S}, cls =  *)
(* where the line's first character lies (code / pp / blank / cmt / lit / region; cmtstart =  *)
(* the line's first token is a comment: judged like code unless indent_cmt_with_tabs), trail = *)
(* the line ends in a blank that is outside comments, literals and disabled regions; plus     *)
(* the line breaks that close the file in input and output.  The invariants are Output.tla's. *)
EXTENDS Output, StartEnd, Json, IOUtils
TraceLog == ndJsonDeserialize(IOEnv.TRACE)
VARIABLES l
Ev == TraceLog[l]
Word(s) == s          \* leads are logged as sequences of "T" / "S"
(* attr = inside a '[[ ]]' attribute that spans lines; ppcmt = a line of a directive whose first token is a comment: both   *)
(* are judged like code / pp lines (the harness gives them their own signature)                                            *)
Judged(e, ln) == ln.cls \in {"code", "pp", "attr", "ppcmt"} \/ (ln.cls = "cmtstart" /\ ~e.cmtTabs)
BadLines(e) ==
  {i \in 1..Len(e.lines) :
     LET ln == e.lines[i]
         iw == IF ln.cls \in {"pp", "ppcmt"} /\ e.ppiwt # -1 THEN e.ppiwt ELSE e.iwt
     IN \/ (ln.cls \in {"code", "pp", "cmtstart", "attr", "ppcmt"} /\ ln.trail /\ ~e.trailspace)
        \/ (ln.cls = "blank" /\ ln.lead # <<>> /\ ~e.singleNl /\ ~e.trailspace)
        \/ (Judged(e, ln) /\ ~LineOk(ln.lead \o <<"X">>, iw))}
Kinds(e, i) ==
  LET ln == e.lines[i]
      iw == IF ln.cls \in {"pp", "ppcmt"} /\ e.ppiwt # -1 THEN e.ppiwt ELSE e.iwt
  IN (IF ln.cls \in {"code", "pp", "cmtstart", "attr", "ppcmt"} /\ ln.trail THEN {"NoTrailingBlank"} ELSE {}) \cup
     (IF ln.cls = "blank" /\ ln.lead # <<>> THEN {"NoTrailingBlank"} ELSE {}) \cup
     (IF Judged(e, ln) /\ iw = 0 /\ ~NoTabs(ln.lead) THEN {"SpacesOnlyIndent"} ELSE {}) \cup
     (IF Judged(e, ln) /\ iw \in {1, 2} /\ ~TsThenSs(ln.lead) THEN {"NoSpaceBeforeTabInIndent"} ELSE {})
TNext == /\ l <= Len(TraceLog) /\ l' = l + 1
         /\ UNCHANGED vars
         /\ LET e == Ev
                bl == BadLines(e)
                eofBad == e.rc = 0 /\ ~StartEndOk(e.eofmode, e.eofmin, e.eofin, e.eofout)
            IN (e.rc = 0 /\ (bl # {} \/ eofBad)) =>
                 PrintT("@@" \o ToJson([l |-> l, id |-> e.id,
                                        bad |-> UNION {Kinds(e, i) : i \in bl} \cup (IF eofBad THEN {"EofNewlinePolicy"} ELSE {}),
                                        lines |-> {e.lines[i].no : i \in bl}]))
TInit == l = 1 /\ w = W0 /\ opt = [iwt |-> 0, ppiwt |-> -1, tab |-> 8, alignTabs |-> FALSE, keepTabs |-> FALSE, singleNl |-> FALSE]
         /\ steps = 0 /\ closed = <<>>
TSpec == TInit /\ [][TNext]_<<l, vars>>
TraceAccepted == TLCGet("stats").diameter - 1 = Len(TraceLog)
=============================================================================
