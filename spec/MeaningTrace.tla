--------------------------- MODULE MeaningTrace ---------------------------
(* M-trace for Meaning (C01): one event per history.  m1 / m2 are content ids of the object      *)
(* code (assembly with file names and idents stripped, or class file bytes) of the program        *)
(* before and after formatting; c1 = 0 means the input compiled (only such programs are in the     *)
(* universe).                                                                                      *)
EXTENDS Meaning, IOUtils
TraceLog == ndJsonDeserialize(IOEnv.TRACE)
VARIABLES l
Ev == TraceLog[l]
TNext == /\ l <= Len(TraceLog) /\ l' = l + 1 /\ UNCHANGED vars
         /\ LET e == Ev
                bad == IF e.c1 # 0 THEN {}
                       ELSE (IF e.status # 0 THEN {"FormatterAccepts"} ELSE {}) \cup
                            (IF e.status = 0 /\ e.c2 # 0 THEN {"OutputCompiles"} ELSE {}) \cup
                            (IF e.status = 0 /\ e.c2 = 0 /\ ~HistoryOk(e.status, e.m1, e.m2) THEN {"SameObjectCode"} ELSE {})
            IN bad # {} => PrintT("@@" \o ToJson([l |-> l, id |-> e.id, bad |-> bad]))
TInit == l = 1 /\ post = "" /\ bin = "+" /\ pre = "" /\ tern = FALSE
TSpec == TInit /\ [][TNext]_<<l, vars>>
TraceAccepted == TLCGet("stats").diameter - 1 = Len(TraceLog)
=============================================================================
