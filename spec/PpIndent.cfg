SPECIFICATION Spec
CONSTANTS
  MaxLines = 6
  MaxDepth = 2
  Counts = {1, 3}
  SpaceCounts = {0, 2}
  IndentColumns = 4
  InCols = {1, 3}
  InGaps = {0, 2}
  Emit = FALSE
INVARIANTS Good
CHECK_DEADLOCK FALSE
