SPECIFICATION Spec
CONSTANTS
  MaxFiles = 2
  Family = "c12"
INVARIANTS CheckNeverWrites DoneOK BigStepAgrees
CONSTRAINT Emit
CHECK_DEADLOCK FALSE
