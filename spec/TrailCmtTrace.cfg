SPECIFICATION TSpec
CONSTANTS
  MaxLines = 8
  Widths = {4}
  Gaps = {1}
  Breaks = {1}
  Spans = {0}
  MinGaps = {0}
  AtCols = {0}
  Indent = 5
  TabStops = {FALSE}
  TabSize = 4
  Emit = FALSE
INVARIANTS Judge
POSTCONDITION TraceAccepted
CHECK_DEADLOCK FALSE
