------------------------------ MODULE Process ------------------------------
(* The process protocol of one uncrustify run on one source (C06) and the termination of the  *)
(* two convergence loops of uncrustify_file().                                                *)
(*                                                                                           *)
(*   Args -> Config -> Load -> Decode -> Parse -> NlLoop -> Layout -> WidthLoop -> Output -> Exit(0)  *)
(* Every phase before Output may refuse: Fail(s) with a documented status s, a diagnostic on   *)
(* stderr unless -q, and nothing written to stdout.  No action models a signal, an uncaught    *)
(* exception or a hang: a trace that contains one is not a behaviour of this specification.    *)
(* The newline loop is bounded by pass_count; the width loop terminates because every          *)
(* iteration that reports a change strictly decreases the number of over-long lines that can    *)
(* still be split (Progress) - the assumption the code relies on, made explicit.               *)
EXTENDS Naturals, Integers, Sequences, FiniteSets, TLC
CONSTANTS MaxLong,       \* over-long splittable lines at the start of the width loop
          Progress       \* TRUE: an iteration that changes something reduces them; FALSE: it may not (as built)
VARIABLES phase, status, out, err, quiet, nlIter, changed, long, tick
vars == <<phase, status, out, err, quiet, nlIter, changed, long, tick>>
Documented == {0, 1} \cup (64..78)
Phases == <<"Args", "Config", "Load", "Decode", "Parse", "NlLoop", "Layout", "WidthLoop", "Output", "Exit">>
Init == /\ phase = "Args" /\ status = -1 /\ out = 0 /\ err = 0 /\ quiet \in BOOLEAN /\ nlIter = 0 /\ changed \in BOOLEAN
        /\ long \in 0..MaxLong /\ tick = 0
Step(from, to) == phase = from /\ phase' = to /\ UNCHANGED <<status, out, err, quiet, nlIter, changed, long, tick>>
Fail == /\ phase \in {"Args", "Config", "Load", "Decode", "Parse", "NlLoop", "Layout", "WidthLoop"}
        /\ \E s \in Documented \ {0} : status' = s
        /\ err' = IF quiet THEN err ELSE err + 1
        /\ phase' = "Exit" /\ UNCHANGED <<out, quiet, nlIter, changed, long, tick>>
NlIterate == /\ phase = "NlLoop" /\ changed /\ nlIter < 4
             /\ nlIter' = nlIter + 1 /\ changed' \in BOOLEAN /\ UNCHANGED <<phase, status, out, err, quiet, long, tick>>
NlDone == /\ phase = "NlLoop" /\ (~changed \/ nlIter >= 4) /\ phase' = "Layout"
          /\ changed' \in BOOLEAN /\ UNCHANGED <<status, out, err, quiet, nlIter, long, tick>>
WidthIterate == /\ phase = "WidthLoop" /\ changed
                /\ long' \in IF Progress THEN {k \in 0..long : k < long} ELSE 0..long
                /\ (Progress => long > 0)
                /\ changed' = (long' > 0 /\ changed)
                /\ tick' = 1 - tick      \* cpd.changes moves on: the iteration is a real step even without progress
                /\ UNCHANGED <<phase, status, out, err, quiet, nlIter>>
WidthDone == /\ phase = "WidthLoop" /\ (~changed \/ (Progress /\ long = 0)) /\ phase' = "Output"
             /\ UNCHANGED <<status, out, err, quiet, nlIter, changed, long, tick>>
Output == /\ phase = "Output" /\ out' = out + 1 /\ status' = 0 /\ phase' = "Exit"
          /\ UNCHANGED <<err, quiet, nlIter, changed, long, tick>>
Next == \/ Step("Args", "Config") \/ Step("Config", "Load") \/ Step("Load", "Decode") \/ Step("Decode", "Parse")
        \/ Step("Parse", "NlLoop") \/ Step("Layout", "WidthLoop")
        \/ Fail \/ NlIterate \/ NlDone \/ WidthIterate \/ WidthDone \/ Output
Spec == Init /\ [][Next]_vars
FairSpec == Spec /\ WF_vars(Next)
(* ---------------------------------------------------------------- properties *)
StatusDocumented == phase = "Exit" => status \in Documented
FailureLeavesStdoutEmpty == (phase = "Exit" /\ status # 0) => out = 0
FailureIsDiagnosed == (phase = "Exit" /\ status # 0 /\ ~quiet) => err > 0
Terminates == <>(phase = "Exit")
(* judged on an observed run *)
RunOk(rc, timedout, outlen, errlen, q) ==
  /\ ~timedout
  /\ rc \in Documented
  /\ (rc # 0 => outlen = 0)
  /\ (rc # 0 /\ ~q => errlen > 0)
=============================================================================
