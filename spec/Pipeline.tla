------------------------------ MODULE Pipeline ------------------------------
(* The chunk list and the pass pipeline of uncrustify_file() (C02, C03, C04, C07, C20).     *)
(*                                                                                         *)
(* Part 1 - the pass schedule and the pass contracts.  Every call that uncrustify_file()   *)
(* makes on the global chunk list is one named pass; PassStage gives its place in the      *)
(* driver (stages are entered in order; the newline loop and the width loop may repeat     *)
(* their passes), PassClass says what a pass of that kind may change, expressed over the    *)
(* six projections of the list that the hook digests report after every pass:              *)
(*      tok   texts of the non-empty non-newline non-comment chunks (as a sequence)        *)
(*      chars the same texts as one stream of non-blank characters (merge/split blind)     *)
(*      cmt   comment texts      str  string/char literal texts                             *)
(*      nl    newline chunks (count + is-continuation)       ign  disabled-region lines     *)
(* Part 2 - an abstract chunk list with Render and an independent Lex, on which TLC shows  *)
(* that the contract clauses imply TokensPreserved / CommentsPreserved for every list up   *)
(* to MaxLen and every sequence of <= MaxEdits elementary newline edits followed by any     *)
(* gap assignment; switching one clause off yields its own counterexample.                 *)
EXTENDS Naturals, Sequences, TLC, FiniteSets

(* ======================================================================= Part 1 *)
Stages == <<"start", "parse", "header", "mod", "nlloop", "prespace", "space", "indent", "widthloop", "final">>
StageIx(s) == CHOOSE i \in 1..Len(Stages) : Stages[i] = s

(* pass name -> <<stage, class>>; classes:                                                 *)
(*   parse    retypes, merges or splits chunks: tok may change, chars may not               *)
(*   parsenl  parse pass that also owns newline options (fix_symbols: nl_throw_expr ...)    *)
(*   newline  inserts / deletes / alters newline chunks only                                *)
(*   layout   columns only: none of the six projections changes                             *)
(*   mod      code-modifying pass, licensed only when a mod option is on                    *)
(*   cmtadd   inserts comments (file/function headers, closing-brace comments)              *)
PassInfo == [
  add_file_header |-> <<"start", "cmtadd">>, add_file_footer |-> <<"start", "cmtadd">>,
  tokenize_cleanup |-> <<"parse", "parse">>, brace_cleanup |-> <<"parse", "parse">>,
  parameter_pack_cleanup |-> <<"parse", "parse">>, pawn_prescan |-> <<"parse", "mod">>,
  mark_question_colon |-> <<"parse", "parse">>, fix_symbols |-> <<"parse", "parsenl">>,
  tokenize_trailing_return_types |-> <<"parse", "parse">>, mark_comments |-> <<"parse", "layout">>,
  combine_labels |-> <<"parse", "parse">>, enum_cleanup |-> <<"parse", "mod">>, mark_functor |-> <<"parse", "parse">>,
  add_func_header |-> <<"header", "cmtadd">>, add_msg_header |-> <<"header", "cmtadd">>,
  do_parent_for_pp |-> <<"header", "layout">>,
  rewrite_infinite_loops |-> <<"mod", "mod">>, do_braces |-> <<"mod", "mod">>,
  remove_extra_semicolons |-> <<"mod", "mod">>, remove_extra_returns |-> <<"mod", "mod">>,
  change_int_types |-> <<"mod", "mod">>, remove_duplicate_include |-> <<"mod", "mod">>,
  do_parens |-> <<"mod", "mod">>, do_parens_assign |-> <<"mod", "mod">>, do_parens_return |-> <<"mod", "mod">>,
  newlines_remove_newlines |-> <<"nlloop", "newline">>, annotations_newlines |-> <<"nlloop", "newline">>,
  newlines_cleanup_dup |-> <<"nlloop", "newline">>, newlines_sparens |-> <<"nlloop", "newline">>,
  newlines_cleanup_braces |-> <<"nlloop", "newline">>, newlines_cleanup_angles |-> <<"nlloop", "newline">>,
  newline_after_multiline_comment |-> <<"nlloop", "newline">>, newline_after_label_colon |-> <<"nlloop", "newline">>,
  newlines_insert_blank_lines |-> <<"nlloop", "newline">>, newlines_chunk_pos |-> <<"nlloop", "newline">>,
  newlines_class_colon_pos |-> <<"nlloop", "newline">>, newlines_squeeze_ifdef |-> <<"nlloop", "newline">>,
  newlines_squeeze_paren_close |-> <<"nlloop", "newline">>, do_blank_lines |-> <<"nlloop", "newline">>,
  newlines_eat_start_end |-> <<"nlloop", "newline">>,
  newlines_functions_remove_extra_blank_lines |-> <<"nlloop", "newline">>,
  pawn_scrub_vsemi |-> <<"prespace", "mod">>, sort_imports |-> <<"prespace", "mod">>,
  space_text |-> <<"space", "layout">>,
  align_preprocessor |-> <<"indent", "layout">>, indent_preproc |-> <<"indent", "layout">>,
  indent_text |-> <<"indent", "layout">>,
  add_long_closebrace_comment |-> <<"indent", "cmtadd">>,
  add_long_preprocessor_conditional_block_comment |-> <<"indent", "cmtadd">>,
  align_all |-> <<"widthloop", "layout">>, do_code_width |-> <<"widthloop", "newline">>,
  newlines_remove_disallowed |-> <<"widthloop", "newline">>,
  align_right_comments |-> <<"final", "layout">>, align_backslash_newline |-> <<"final", "layout">>
]
Known(p) == p \in DOMAIN PassInfo
(* passes that occur in two stages: the second home *)
AlsoIn == [mark_comments |-> "prespace", indent_text |-> "widthloop", newlines_cleanup_braces |-> "widthloop",
           newlines_insert_blank_lines |-> "widthloop", newlines_functions_remove_extra_blank_lines |-> "widthloop"]
StagesOf(p) == {PassInfo[p][1]} \cup (IF p \in DOMAIN AlsoIn THEN {AlsoIn[p]} ELSE {})
ClassOf(p) == PassInfo[p][2]
Projections == {"tok", "chars", "cmt", "str", "nl", "ign"}
(* what a pass of class c may change, given whether the configuration licenses code        *)
(* modification (some mod_ option on) and comment insertion (cmt_insert_x, mod_add_long_x)        *)
MayChange(c, modOn, cmtOn) ==
  CASE c = "parse"   -> {"tok"}
    [] c = "parsenl" -> {"tok", "nl", "str"} \cup (IF modOn THEN {"chars"} ELSE {})
    [] c = "newline" -> {"nl"}
    [] c = "layout"  -> {}
    [] c = "mod"     -> IF modOn THEN {"tok", "chars", "nl", "str", "cmt"} ELSE {}
    [] c = "cmtadd"  -> IF cmtOn THEN {"cmt", "nl"} ELSE {}
(* a pass may run in stage s after stage cur when the driver order allows it: stages only  *)
(* advance, except that the two loops repeat                                                *)
StageStep(cur, p) == \E s \in StagesOf(p) : StageIx(s) >= StageIx(cur)
NextStage(cur, p) == LET c == {s \in StagesOf(p) : StageIx(s) >= StageIx(cur)}
                     IN CHOOSE s \in c : \A t \in c : StageIx(s) <= StageIx(t)
(* Nothing ever changes the lines of a disabled region (C07), whatever the configuration.   *)
ContractHolds(p, changed, modOn, cmtOn) ==
  /\ changed \subseteq MayChange(ClassOf(p), modOn, cmtOn)
  /\ "ign" \notin changed

(* ======================================================================= Part 2 *)
CONSTANTS MaxLen, MaxEdits,
          C_FUSE,     \* space pass keeps gap>=1 where two items would fuse          (Fusion.tla)
          C_CPPNL,    \* newline pass never deletes the NL ending a // comment
          C_PPNL,     \* newline pass never deletes the NL ending a directive
          C_PPCONT,   \* a newline inserted inside a directive is backslash-newline
          C_PPSTART   \* newline pass never deletes the NL in front of a directive
VARIABLES chunks, stage, edits, lexIn
vars == <<chunks, stage, edits, lexIn>>

Texts == {<<"a">>, <<"/">>, <<"*">>, <<"+">>}
Item  == [k : {"tok"}, t : Texts, g : {1}] \cup
         {[k |-> "cc", t |-> <<"/", "*", "c", "*", "/">>, g |-> 1],
          [k |-> "cpp", t |-> <<"/", "/", "c">>, g |-> 1],
          [k |-> "nl", t |-> <<"\n">>, g |-> 0],
          [k |-> "pp", t |-> <<"#">>, g |-> 0]}
RECURSIVE Render(_)
Render(L) == IF L = <<>> THEN <<>>
             ELSE LET c == Head(L)
                      sp == IF c.g = 1 THEN <<" ">> ELSE <<>>
                      body == IF c.k = "nlc" THEN <<"\\", "\n">> ELSE c.t
                  IN sp \o body \o Render(Tail(L))
Punct == {<<"/">>, <<"*">>, <<"+">>, <<"+", "+">>, <<"*", "=">>, <<"#">>}
StartsWith(s, p) == Len(s) >= Len(p) /\ SubSeq(s, 1, Len(p)) = p
LP(s) == LET c == {Len(p) : p \in {q \in Punct : StartsWith(s, q)}}
         IN IF c = {} THEN 0 ELSE CHOOSE m \in c : \A k \in c : k <= m
RECURSIVE LineLen(_), CCLen(_), Lex(_, _, _)
LineLen(s) == IF s = <<>> \/ Head(s) = "\n" THEN 0 ELSE 1 + LineLen(Tail(s))
CCLen(s) == IF Len(s) < 2 THEN Len(s) ELSE IF s[1] = "*" /\ s[2] = "/" THEN 2 ELSE 1 + CCLen(Tail(s))
(* Lex(s, bol, inpp): tokens and comments, with DS/DE markers for directive start/end; a    *)
(* comment is reported as <<"C", text...>> so that Toks and Cmts can be separated           *)
Lex(s, bol, inpp) ==
  IF s = <<>> THEN (IF inpp THEN <<<<"DE">>>> ELSE <<>>)
  ELSE IF Head(s) = " " THEN Lex(Tail(s), bol, inpp)
  ELSE IF Head(s) = "\\" /\ Len(s) >= 2 /\ s[2] = "\n" THEN Lex(SubSeq(s, 3, Len(s)), FALSE, inpp)
  ELSE IF Head(s) = "\n" THEN (IF inpp THEN <<<<"DE">>>> ELSE <<>>) \o Lex(Tail(s), TRUE, FALSE)
  ELSE IF StartsWith(s, <<"/", "/">>) THEN
        LET n == LineLen(s) IN <<<<"C">> \o SubSeq(s, 1, n)>> \o Lex(SubSeq(s, n + 1, Len(s)), FALSE, inpp)
  ELSE IF StartsWith(s, <<"/", "*">>) THEN
        LET n == 2 + CCLen(SubSeq(s, 3, Len(s)))
        IN <<<<"C">> \o SubSeq(s, 1, n)>> \o Lex(SubSeq(s, n + 1, Len(s)), FALSE, inpp)
  ELSE IF Head(s) = "#" /\ bol THEN <<<<"DS">>>> \o Lex(Tail(s), FALSE, TRUE)
  ELSE IF Head(s) = "a" THEN
        LET RECURSIVE W(_)
            W(n) == IF n < Len(s) /\ s[n + 1] = "a" THEN W(n + 1) ELSE n
            n == W(1) IN <<SubSeq(s, 1, n)>> \o Lex(SubSeq(s, n + 1, Len(s)), FALSE, inpp)
  ELSE LET n == IF LP(s) = 0 THEN 1 ELSE LP(s)
       IN <<SubSeq(s, 1, n)>> \o Lex(SubSeq(s, n + 1, Len(s)), FALSE, inpp)
IsC(t) == Len(t) >= 1 /\ t[1] = "C"
Toks(L) == SelectSeq(L, LAMBDA t : ~IsC(t))
Cmts(L) == SelectSeq(L, IsC)
WF(L) == \A i \in 1..Len(L) :
           /\ L[i].k = "pp" => (i = 1 \/ L[i - 1].k = "nl")
           /\ L[i].k = "cpp" => (i = Len(L) \/ L[i + 1].k = "nl")
InDirective(L, i) == \E j \in 1..(i - 1) : L[j].k = "pp" /\ \A m \in j..(i - 1) : L[m].k # "nl"
Fuses(x, y) == x.k \in {"tok", "pp"} /\ y.k \in {"tok", "cc", "cpp"} /\
               Lex(x.t \o y.t, FALSE, FALSE) # Lex(x.t \o <<" ">> \o y.t, FALSE, FALSE)
Seqs(n) == UNION {[1..m -> Item] : m \in 1..n}
Init == /\ chunks \in {L \in Seqs(MaxLen) : WF(L)}
        /\ stage = "newline" /\ edits = 0
        /\ lexIn = Lex(Render(chunks), TRUE, FALSE)
InsertAt(L, i, x) == SubSeq(L, 1, i - 1) \o <<x>> \o SubSeq(L, i, Len(L))
RemoveAt(L, i) == SubSeq(L, 1, i - 1) \o SubSeq(L, i + 1, Len(L))
NlInsert == /\ stage = "newline" /\ edits < MaxEdits
            /\ \E i \in 2..Len(chunks) :
                 /\ chunks[i - 1].k \notin {"nl", "nlc"} /\ chunks[i].k # "nl"
                 /\ LET cont == InDirective(chunks, i)
                        x == IF cont /\ C_PPCONT THEN [k |-> "nlc", t |-> <<>>, g |-> 1]
                             ELSE [k |-> "nl", t |-> <<"\n">>, g |-> 0]
                    IN chunks' = InsertAt(chunks, i, x)
            /\ edits' = edits + 1 /\ UNCHANGED <<stage, lexIn>>
NlDelete == /\ stage = "newline" /\ edits < MaxEdits
            /\ \E i \in 1..Len(chunks) :
                 /\ chunks[i].k = "nl" /\ i > 1 /\ i < Len(chunks)
                 /\ C_CPPNL => chunks[i - 1].k # "cpp"
                 /\ C_PPNL  => ~InDirective(chunks, i)
                 /\ C_PPSTART => chunks[i + 1].k # "pp"
                 /\ chunks' = RemoveAt(chunks, i)
            /\ edits' = edits + 1 /\ UNCHANGED <<stage, lexIn>>
ToSpace == stage = "newline" /\ stage' = "space" /\ UNCHANGED <<chunks, edits, lexIn>>
SpacePass == /\ stage = "space"
             /\ \E G \in [1..Len(chunks) -> {0, 1}] :
                  /\ \A i \in 1..Len(chunks) :
                        /\ (i = 1 \/ chunks[i].k \in {"nl"} \/ chunks[i - 1].k \in {"nl", "nlc"}) => G[i] = 0
                        /\ (C_FUSE /\ i > 1 /\ Fuses(chunks[i - 1], chunks[i])) => G[i] = 1
                  /\ chunks' = [i \in 1..Len(chunks) |-> [chunks[i] EXCEPT !.g = G[i]]]
             /\ stage' = "output" /\ UNCHANGED <<edits, lexIn>>
Next == NlInsert \/ NlDelete \/ ToSpace \/ SpacePass
Spec == Init /\ [][Next]_vars
LexOut == Lex(Render(chunks), TRUE, FALSE)
TokensPreserved == stage = "output" => Toks(LexOut) = Toks(lexIn)
CommentsPreserved == stage = "output" => Cmts(LexOut) = Cmts(lexIn)
=============================================================================
