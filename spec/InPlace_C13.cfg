SPECIFICATION Spec
CONSTANTS
  MaxSteps = 4
  MaxFaults = 2
  AllowCrash = TRUE
  Modes = {"replace", "nobackup"}
  UserConts = {"U1", "A1", "X"}
  Md5Order = "after"
INVARIANTS TypeOK AllOrNothing BackupWhenGone FailureIsReported
CHECK_DEADLOCK FALSE
