-------------------------- MODULE CmtIndentTrace --------------------------
(* M-trace for CmtIndent: one event per (program, options): cols[i] = the column the comment of  *)
(* line i starts in after the binary formatted the program (own-line comment or trailing comment; *)
(* 0 = none), again = the same after it formatted its own output once more.                       *)
(*   contract   UnderTheCommentAbove / Col1Stays / BlockColumn / KeepsColumn on the OBSERVED cols  *)
(*   mechanism  ColumnsAsModel cols = Cols(prog); SecondRunAsModel again = ColsAgain(prog) (DRIFT)*)
EXTENDS CmtIndent, IOUtils
TraceLog == ndJsonDeserialize(IOEnv.TRACE)
VARIABLES l
Ev == TraceLog[l]
TNext == /\ l <= Len(TraceLog) /\ l' = l + 1
         /\ prog' = Ev.prog /\ thresh' = Ev.thresh /\ ic' = Ev.ic /\ c1' = Ev.c1
TInit == l = 1 /\ prog = <<>> /\ thresh = 0 /\ ic = TRUE /\ c1 = FALSE
TSpec == TInit /\ [][TNext]_<<l, vars>>
Judge == (l > 1 /\ l - 1 <= Len(TraceLog)) =>
           LET e == TraceLog[l - 1]
               bad == IF e.rc # 0 THEN {} ELSE
                      (IF ~UnderTheCommentAbove(prog, e.cols) THEN {"UnderTheCommentAbove"} ELSE {}) \cup
                      (IF ~Col1Stays(prog, e.cols) THEN {"Col1Stays"} ELSE {}) \cup
                      (IF ~BlockColumn(prog, e.cols) THEN {"BlockColumn"} ELSE {}) \cup
                      (IF ~KeepsColumn(prog, e.cols) THEN {"KeepsColumn"} ELSE {})
               drift == (IF e.rc = 0 /\ e.cols # Cols(prog) THEN {"ColumnsAsModel"} ELSE {}) \cup
                        (IF e.rc = 0 /\ e.again # <<>> /\ e.again # ColsAgain(prog) THEN {"SecondRunAsModel"} ELSE {})
           IN (bad # {} \/ drift # {}) => PrintT("@@" \o ToJson([l |-> l - 1, id |-> e.id, bad |-> bad, drift |-> drift, expected |-> Cols(prog), again |-> ColsAgain(prog)]))
TraceAccepted == TLCGet("stats").diameter - 1 = Len(TraceLog)
=============================================================================
