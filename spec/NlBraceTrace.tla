--------------------------- MODULE NlBraceTrace ---------------------------
(* M-trace for NlBrace: one event per (site, value, input layout) rendered into a program and   *)
(* formatted with that one option set: outNl = the two tokens are on different lines in the      *)
(* output, glued = the second token is no longer a token of the output (it follows '//').        *)
EXTENDS NlBrace, IOUtils
TraceLog == ndJsonDeserialize(IOEnv.TRACE)
VARIABLES l
Ev == TraceLog[l]
TNext == /\ l <= Len(TraceLog) /\ l' = l + 1 /\ UNCHANGED vars
         /\ LET e == Ev
                bad == IF e.rc # 0 THEN {} ELSE
                       (IF ~Obeyed(e.site, e.v, e.inNl, e.mid, e.outNl) THEN {"Obeyed"} ELSE {}) \cup
                       (IF e.glued THEN {"SecondTokenSurvives"} ELSE {})
                drift == IF e.rc = 0 /\ e.outNl # Apply(e.site, e.v, e.inNl, e.mid) THEN {"LayoutAsModel"} ELSE {}
            IN (bad # {} \/ drift # {}) => PrintT("@@" \o ToJson([l |-> l, id |-> e.id, bad |-> bad, drift |-> drift]))
TInit == l = 1 /\ site = "nl_if_brace" /\ v = "ignore" /\ inNl = FALSE /\ mid = "none"
TSpec == TInit /\ [][TNext]_<<l, vars>>
TraceAccepted == TLCGet("stats").diameter - 1 = Len(TraceLog)
=============================================================================
