SPECIFICATION Spec
CONSTANTS
  Depth = 2
  ChainDepth = 4
  SkipAllVClose = TRUE
  Emit = FALSE
INVARIANTS MeaningKept OnlyBracesGo EmitTree
CHECK_DEADLOCK FALSE
