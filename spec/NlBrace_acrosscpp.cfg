SPECIFICATION Spec
CONSTANTS
  Sites = {"nl_if_brace"}
  Emit = FALSE
  RemoveAcrossCpp = TRUE
INVARIANTS Good
CHECK_DEADLOCK FALSE
