SPECIFICATION Spec
CONSTANTS
  Sites = {"nl_if_brace", "nl_else_brace", "nl_elseif_brace", "nl_for_brace", "nl_while_brace", "nl_do_brace", "nl_switch_brace", "nl_fdef_brace", "nl_struct_brace", "nl_union_brace", "nl_enum_brace", "nl_class_brace", "nl_namespace_brace", "nl_try_brace", "nl_catch_brace", "nl_brace_else", "nl_brace_while", "nl_brace_catch", "nl_else_if"}
  Emit = FALSE
  RemoveAcrossCpp = FALSE
INVARIANTS Good
CHECK_DEADLOCK FALSE
