------------------------------- MODULE Output -------------------------------
(* The character-level writer of output_text() (src/output.cpp) - C17, and the line break  *)
(* part of C08.                                                                              *)
(*                                                                                           *)
(* Transcribed: add_char() (buffered blanks, the "no tab after a space" guard, '\n'           *)
(* closing the line), output_to_column() (tabs as far as possible, then spaces), and the      *)
(* three kinds of chunk output_text() writes itself: CT_NEWLINE (nl_count breaks, blank       *)
(* lines indented to nl_column when indent_single_newlines asked for it), a text chunk that   *)
(* is first on its line (the indent_with_tabs=1 two-stage indent through column_indent) and   *)
(* a text chunk in the middle of a line (overlap repair, align_with_tabs / align_keep_tabs). *)
(* Comments are written by their own functions and are an environment here.                   *)
(*                                                                                           *)
(* The chunk list is not enumerated up front: each step appends one chunk with any layout     *)
(* the earlier passes could have produced (Layout constraints below), so TLC visits every     *)
(* list of up to MaxSteps chunks over the columns Cols.                                         *)
EXTENDS Naturals, Integers, Sequences, FiniteSets, TLC
CONSTANTS MaxSteps, Cols, TabSizes,
          KeepTabsOnFirst   \* FALSE: align_keep_tabs only applies in the middle of a line (as built);
                            \* TRUE : also to the first chunk of a line (a change that breaks C17)
VARIABLES w,        \* writer state
          opt,      \* options, fixed per behaviour
          steps, closed
vars == <<w, opt, steps, closed>>

Opt == [iwt : 0..2, ppiwt : -1..2, tab : TabSizes, alignTabs : BOOLEAN, keepTabs : BOOLEAN, singleNl : BOOLEAN]
W0 == [col |-> 1, sp |-> 0, last |-> "n", nl |-> TRUE, line |-> <<>>, pp |-> FALSE]

NextTab(c, tab) == 1 + (((c - 1) \div tab) + 1) * tab
IwtEff(o, pp) == IF pp /\ o.ppiwt # -1 THEN o.ppiwt ELSE o.iwt

(* -------------------------------------------------------------------- add_char *)
Push(line, c) == IF c = "X" /\ line # <<>> /\ line[Len(line)] = "X" THEN line ELSE Append(line, c)
RECURSIVE Flush(_)
Flush(x) == IF x.sp = 0 THEN x ELSE Flush([x EXCEPT !.sp = @ - 1, !.line = Push(@, "S")])
RECURSIVE SpacesTo(_, _, _)
AddSpace(x) == [x EXCEPT !.sp = @ + 1, !.col = @ + 1, !.last = "s"]
SpacesTo(x, endcol, o) == IF x.col < endcol THEN SpacesTo(AddSpace(x), endcol, o) ELSE x
AddChar(x, ch, o) ==
  CASE ch = "n" -> [Flush(x) EXCEPT !.col = 1, !.nl = TRUE, !.sp = 0, !.last = "n", !.line = <<>>]
    [] ch = "s" -> AddSpace(x)
    [] ch = "t" -> IF x.last = "s" /\ IwtEff(o, x.pp) = 0
                   THEN SpacesTo(x, NextTab(x.col, o.tab), o)            \* explicitly disallow a tab after a space
                   ELSE [Flush(x) EXCEPT !.line = Push(Flush(x).line, "T"), !.col = NextTab(x.col, o.tab), !.last = "t"]
    [] ch = "x" -> [Flush(x) EXCEPT !.line = Push(Flush(x).line, "X"), !.col = x.col + 1, !.last = "x"]
(* the summary of the line that a '\n' closes *)
LineOf(x) == Flush(x).line

(* ------------------------------------------------------------ output_to_column *)
RECURSIVE TabsTo(_, _, _)
TabsTo(x, column, o) == IF NextTab(x.col, o.tab) <= column THEN TabsTo(AddChar(x, "t", o), column, o) ELSE x
ToColumn(x, column, allowTabs, o) ==
  LET y == [x EXCEPT !.nl = FALSE]
      z == IF allowTabs THEN TabsTo(y, column, o) ELSE y
  IN SpacesTo(z, column, o)
RECURSIVE Text(_, _, _)
Text(x, n, o) == IF n = 0 THEN x ELSE Text(AddChar(x, "x", o), n - 1, o)

(* ----------------------------------------------------------------- CT_NEWLINE *)
RECURSIVE Breaks(_, _, _, _, _)
Breaks(x, cnt, total, c, o) ==
  IF cnt = total THEN x
  ELSE LET y == IF cnt > 0 /\ c.nlcol > 1 THEN ToColumn(x, c.nlcol, IwtEff(o, c.pp) >= 1, o) ELSE x
       IN Breaks(AddChar(y, "n", o), cnt + 1, total, c, o)
(* every line closed by this chunk, for the invariants *)
RECURSIVE BreakLines(_, _, _, _, _)
BreakLines(x, cnt, total, c, o) ==
  IF cnt = total THEN <<>>
  ELSE LET y == IF cnt > 0 /\ c.nlcol > 1 THEN ToColumn(x, c.nlcol, IwtEff(o, c.pp) >= 1, o) ELSE x
       IN <<[line |-> LineOf(y), pp |-> x.pp, blankReq |-> (cnt > 0 /\ c.nlcol > 1)]>>
          \o BreakLines(AddChar(y, "n", o), cnt + 1, total, c, o)

(* ----------------------------------------------------------------- text chunk *)
TextChunk(x, c, o) ==
  IF x.nl THEN   \* first on its line
     LET x0 == [x EXCEPT !.pp = c.pp]
         iw == IwtEff(o, c.pp)
         lvl == IF c.useCol THEN c.col ELSE (IF c.colind > c.col THEN c.col ELSE c.colind)
         x1 == IF iw = 1 /\ lvl > 1 THEN ToColumn(x0, lvl, TRUE, o) ELSE x0
         allow == (iw = 2) \/ (c.cmt /\ iw # 0) \/ (KeepTabsOnFirst /\ o.keepTabs /\ c.afterTab)
     IN Text(ToColumn(x1, c.col, allow, o), c.len, o)
  ELSE           \* not the first item on a line
     LET minc == x.col + (IF c.force THEN 1 ELSE 0)
         col == IF c.col < minc THEN minc ELSE c.col
         allow == (o.alignTabs /\ c.aligned) \/ (o.keepTabs /\ c.afterTab)
     IN Text(ToColumn(x, col, allow, o), c.len, o)

(* ---------------------------------------------------------------- behaviours *)
(* layouts the earlier passes hand to the writer: a newline chunk has nl_count >= 1 and an     *)
(* nl_column > 1 only when indent_single_newlines is on; a first chunk has column >= 1         *)
NlChunks == [k : {"nl"}, cnt : 1..2, nlcol : Cols, pp : BOOLEAN]
TxChunks == [k : {"tx"}, col : Cols, colind : Cols, len : {1}, pp : BOOLEAN, useCol : BOOLEAN,
             cmt : {FALSE}, aligned : BOOLEAN, afterTab : BOOLEAN, force : BOOLEAN]
Init == /\ w = W0 /\ opt \in Opt /\ steps = 0 /\ closed = <<>>
Newline(c) == /\ (c.nlcol > 1 => opt.singleNl)
              /\ w' = [Breaks(w, 0, c.cnt, c, opt) EXCEPT !.pp = FALSE]
              /\ closed' = BreakLines(w, 0, c.cnt, c, opt)
TextStep(c) == /\ w' = TextChunk(w, c, opt) /\ closed' = <<>>
Next == /\ steps < MaxSteps /\ steps' = steps + 1 /\ UNCHANGED opt
        /\ \/ \E c \in NlChunks : Newline(c)
           \/ \E c \in TxChunks : TextStep(c)
Spec == Init /\ [][Next]_vars

(* ----------------------------------------------------------------- properties *)
Lead(line) == LET xs == {i \in 1..Len(line) : line[i] = "X"}
                  n == IF xs = {} THEN Len(line) ELSE (CHOOSE i \in xs : \A j \in xs : i <= j) - 1
              IN SubSeq(line, 1, n)
HasX(line) == \E i \in 1..Len(line) : line[i] = "X"
TsThenSs(l) == \A i, j \in 1..Len(l) : (i < j /\ l[i] = "S") => l[j] = "S"
NoTabs(l) == \A i \in 1..Len(l) : l[i] # "T"
TrailBlank(line) == line # <<>> /\ line[Len(line)] \in {"S", "T"}
(* judged on any line, given the tab policy in force for it: used by the model and the trace *)
LineOk(line, iw) == /\ (iw = 0 => NoTabs(Lead(line)))
                    /\ (iw \in {1, 2} => TsThenSs(Lead(line)))
IndentHygiene == HasX(w.line) => LineOk(w.line, IwtEff(opt, w.pp))
NoTrailingBlank == \A i \in 1..Len(closed) :
                      TrailBlank(closed[i].line) => (~HasX(closed[i].line) /\ closed[i].blankReq)
=============================================================================
