SPECIFICATION Spec
CONSTANTS
  MaxSteps = 4
  Cols = {1, 2, 4, 5, 9}
  TabSizes = {3, 4}
  KeepTabsOnFirst = FALSE
INVARIANTS IndentHygiene NoTrailingBlank
CHECK_DEADLOCK FALSE
