SPECIFICATION TSpec
CONSTANTS
  MaxLines = 1
  MaxDepth = 1
  Emit = FALSE
POSTCONDITION TraceAccepted
CHECK_DEADLOCK FALSE
