SPECIFICATION TSpec
CONSTANTS
  Contents = {"a"}
  IdempotentFmt = TRUE
  MaxSteps = 0
POSTCONDITION TraceAccepted
CHECK_DEADLOCK FALSE
