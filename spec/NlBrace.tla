------------------------------ MODULE NlBrace ------------------------------
(* Newline options with an obvious site (newline_iarf_pair() of src/newlines/iarf.cpp as the   *)
(* keyword / brace options use it): the line break between a header and its '{', or between a   *)
(* '}' and the keyword that continues the statement ('else', 'while' of a do, 'catch').          *)
(*                                                                                             *)
(*   site      which option governs the pair (the replay renders it, see vlib/extras/nlbrace)    *)
(*   v         ignore / add / remove / force                                                    *)
(*   inNl      the pair is on two lines in the input                                            *)
(*   mid       what stands between the two tokens: nothing, a C comment, a C++ comment           *)
(* Apply is newline_iarf_pair() + newline_del_between(): Add / Force insert a break when there   *)
(* is none; Remove deletes the breaks between the two tokens, but never one that touches a        *)
(* comment (the second token could become comment text - the clause Pipeline.tla calls            *)
(* SafeToDeleteNl - and comments keep their line); when nothing could be deleted and the pair is  *)
(* ')' / 'do' / 'else' followed by '{', the brace is MOVED in front of the comment instead.       *)
(* The contract is what the option's documentation says, with that exception: Obeyed.             *)
(* Not one of the twenty listed properties.                                                       *)
EXTENDS Naturals, Sequences, TLC, Json
CONSTANTS Sites, Emit,
          RemoveAcrossCpp   \* variant: Remove does not look at the comment
VARIABLES site, v, inNl, mid
vars == <<site, v, inNl, mid>>
IARF == {"ignore", "add", "remove", "force"}
(* sites whose first token is ')' , 'do' or 'else' and whose second token is '{' *)
MoveSites == {"nl_if_brace", "nl_elseif_brace", "nl_for_brace", "nl_while_brace", "nl_switch_brace", "nl_fdef_brace", "nl_catch_brace",
              "nl_do_brace", "nl_else_brace"}
Mids == {"none", "c", "cpp"}
(* a C++ comment between the tokens forces them onto two lines already in the input *)
WellFormed == mid = "cpp" => inNl
Apply(st, val, nl, m) == CASE val \in {"add", "force"} -> TRUE
                           [] val = "remove" -> IF m = "none" \/ RemoveAcrossCpp \/ st \in MoveSites THEN FALSE ELSE nl
                           [] OTHER -> nl
(* the second token ends up behind a C++ comment on the same line: only when the break is deleted in place *)
Swallowed(st, val, nl, m) == val = "remove" /\ m = "cpp" /\ RemoveAcrossCpp
OutNl == Apply(site, v, inNl, mid)
(* the option's word is kept: a break where Add / Force ask for one, none where Remove asks     *)
(* for none - except behind a C++ comment, where removing it would change the token stream      *)
Obeyed(st, val, nl, m, out) == CASE val \in {"add", "force"} -> out
                                 [] val = "remove" -> (~out) \/ (m # "none" /\ st \notin MoveSites)
                                 [] OTHER -> out = nl
Init == site \in Sites /\ v \in IARF /\ inNl \in BOOLEAN /\ mid \in Mids /\ WellFormed
Next == UNCHANGED vars
Spec == Init /\ [][Next]_vars
Good == Obeyed(site, v, inNl, mid, OutNl) /\ ~Swallowed(site, v, inNl, mid)
EmitCase == Emit => PrintT("@@" \o ToJson([site |-> site, v |-> v, inNl |-> inNl, mid |-> mid, outNl |-> OutNl]))
=============================================================================
