---------------------------- MODULE DriverCore ----------------------------
(* The command-line driver of uncrustify: main() mode selection and its compatibility     *)
(* rules, process_source_list / positional loop, do_source_file (load, format to buffer    *)
(* or file, compare, report, write / rename), the --check and --if-changed protocols,      *)
(* and where each mode puts the formatted bytes.  Functional style: Process(st, a, i, c)   *)
(* is the effect of handling one file; Driver.tla explores it step by step, DriverTrace    *)
(* judges observed invocations with the same definitions.  Serves C10, C11, C12.           *)
EXTENDS Naturals, Sequences, FiniteSets, TLC

\* ---------------------------------------------------------------- file classes
\* relation of a source file to its own formatted version (how the compare can come out)
\*  fmt        already formatted
\*  unf        formats to different bytes of different size
\*  last/first formats to bytes of the SAME size that differ only in the last / first byte
\*  empty      empty file (formats to empty)
\*  bad        formatting fails (exit() inside a pass)
Classes    == {"fmt", "unf", "last", "first", "empty", "bad"}
Changed(c) == c \in {"unf", "last", "first"}
Fails(c)   == c = "bad"

\* ---------------------------------------------------------------- command lines
\* src      where sources come from: "stdin" | "f" (-f) | "pos" (positional) | "F" (-F list)
\* inplace  "no" | "replace" | "nobackup"
\* dest     "none" | "o" (-o other file) | "osame" (-o equal to -f) | "prefix" | "suffix"
\* check, ifc (--if-changed), quiet (-q), lang in {"l","ext","assume","none"} ("none": stdin without -l / --assume)
\* pfile    -p FILE given;  csv  --debug-csv-format given
ArgsSpace == [src : {"stdin", "f", "pos", "F"}, inplace : {"no", "replace", "nobackup"},
              dest : {"none", "o", "osame", "prefix", "suffix"}, check : BOOLEAN, ifc : BOOLEAN,
              quiet : BOOLEAN, lang : {"l", "ext", "assume", "none"}, pfile : BOOLEAN, csv : BOOLEAN]
Multi(a) == a.src \in {"pos", "F"}

\* exit status main() returns before touching any source, 0 if the combination is accepted.
\* Order of the tests as in main().
Reject(a) ==
   IF a.csv /\ ~a.pfile THEN 78                                            \* EX_CONFIG
   ELSE IF a.check /\ (a.dest # "none" \/ a.inplace # "no" \/ a.ifc) THEN 67     \* EX_NOUSER
   ELSE IF ~a.check /\ a.inplace = "replace" /\ a.dest \in {"prefix", "suffix"} THEN 66
   ELSE IF ~a.check /\ a.inplace = "replace" /\ (a.src = "f" \/ a.dest \in {"o", "osame"}) THEN 66
   ELSE IF Multi(a) /\ a.dest \in {"o", "osame"} THEN 68                   \* EX_NOHOST
   ELSE IF a.src = "stdin" /\ a.lang = "none" THEN 1
   ELSE IF Multi(a) /\ a.pfile THEN 78
   ELSE 0
\* combinations the generator does not produce because they denote nothing (not errors)
Sensible(a) ==
   /\ (a.dest = "osame" => a.src = "f")
   /\ (a.src \in {"stdin", "f"} => a.dest \in {"none", "o", "osame"} /\ a.inplace \in {"no", "nobackup"})
   /\ (a.src = "stdin" => a.lang # "ext" /\ ~a.ifc /\ a.inplace = "no")
   /\ (a.src # "stdin" => a.lang \in {"l", "ext"})
   /\ (a.inplace = "nobackup" /\ a.src = "f" => a.dest = "osame")

\* where the formatted bytes of file i go
Target(a, i) ==
   IF a.check THEN <<"nowhere", i>>
   ELSE IF a.src \in {"stdin", "f"} THEN
        (IF a.dest = "none" THEN <<"stdout", i>> ELSE IF a.dest = "o" THEN <<"O", i>> ELSE <<"self", i>>)
   ELSE IF a.dest = "prefix" THEN <<"prefix", i>>
   ELSE IF a.dest = "suffix" THEN <<"suffix", i>>
   ELSE IF a.inplace \in {"replace", "nobackup"} THEN <<"self", i>>
   ELSE <<"defsuffix", i>>
InPlaceT(a, i) == Target(a, i)[1] = "self"
WithBackup(a)  == a.inplace # "nobackup"

\* ---------------------------------------------------------------- effect of one file
\* st: [exit, done, pass, fail, failcnt, touched, stdout]
\*   touched: set of <<kind, i, content>> with content in {"fmt","src","trunc"}; kinds as Target plus
\*   "backup", "md5" (F.uncrustify is "defsuffix" also when it is the temporary file of an in-place run)
St0 == [exit |-> 99, done |-> FALSE, pass |-> <<>>, fail |-> <<>>, failcnt |-> 0, touched |-> {}, stdout |-> <<>>]

Process(st, a, i, c) ==
   IF a.check THEN
      \* as built: the stdin branch of main() hands stdout to uncrustify_file() even under --check,
      \* so the formatted text is printed next to the PASS/FAIL line (no file is touched)
      LET s1 == IF a.src = "stdin" /\ ~Fails(c) /\ c # "empty" THEN [st EXCEPT !.stdout = Append(@, i)] ELSE st IN
      IF Fails(c) THEN [s1 EXCEPT !.exit = 1, !.done = TRUE]
      ELSE IF Changed(c) THEN [s1 EXCEPT !.fail = Append(@, i), !.failcnt = @ + 1]
      ELSE [s1 EXCEPT !.pass = IF a.quiet THEN @ ELSE Append(@, i)]
   ELSE
      LET tg == Target(a, i)
          \* --if-changed formats into memory first: a failure or "no change" leaves no trace
          early == a.ifc /\ a.src # "stdin"
      IN IF early /\ Fails(c) THEN [st EXCEPT !.exit = 1, !.done = TRUE]
         ELSE IF early /\ ~Changed(c) THEN st
         ELSE IF tg[1] = "stdout" THEN
              (IF Fails(c) THEN [st EXCEPT !.exit = 1, !.done = TRUE]
               ELSE [st EXCEPT !.stdout = Append(@, i)])
         ELSE IF tg[1] = "self" THEN
              LET bk == IF WithBackup(a) THEN {<<"backup", i, "src">>} ELSE {}
              IN IF Fails(c) THEN [st EXCEPT !.exit = 1, !.done = TRUE, !.touched = @ \cup bk \cup {<<"defsuffix", i, "trunc">>}]
                 ELSE IF Changed(c) THEN
                      [st EXCEPT !.touched = @ \cup bk \cup {<<"self", i, "fmt">>} \cup
                                             (IF WithBackup(a) THEN {<<"md5", i, "fmt">>} ELSE {})]
                 ELSE [st EXCEPT !.touched = @ \cup bk \cup (IF WithBackup(a) THEN {<<"md5", i, "fmt">>} ELSE {})]
         ELSE \* separate output file, opened (truncated) before formatting starts
              IF Fails(c) THEN [st EXCEPT !.exit = 1, !.done = TRUE, !.touched = @ \cup {<<tg[1], i, "trunc">>}]
              ELSE [st EXCEPT !.touched = @ \cup {<<tg[1], i, "fmt">>}]

Finish(st, a) == IF st.done THEN st
                 ELSE [st EXCEPT !.done = TRUE, !.exit = IF a.check /\ st.failcnt # 0 THEN 1 ELSE 0]

RECURSIVE RunAll(_, _, _, _)
RunAll(st, a, files, i) ==
   IF st.done \/ i > Len(files) THEN Finish(st, a)
   ELSE RunAll(Process(st, a, i, files[i]), a, files, i + 1)

Expected(a, files) ==
   IF Reject(a) # 0 THEN [St0 EXCEPT !.exit = Reject(a), !.done = TRUE]
   ELSE RunAll(St0, a, files, 1)

\* ---------------------------------------------------------------- C12, over an outcome o of (a, files)
\* (o is the model's own result in Driver.tla and the OBSERVED result in DriverTrace.tla)
NoFail(files)      == \A j \in 1..Len(files) : ~Fails(files[j])
FirstBad(files)    == IF NoFail(files) THEN Len(files) + 1
                      ELSE CHOOSE j \in 1..Len(files) : Fails(files[j]) /\ \A k \in 1..(j-1) : ~Fails(files[k])
Idx(files)         == 1..(FirstBad(files) - 1)
SeqToSet(q)        == {q[j] : j \in 1..Len(q)}
CheckStatus(a, files, o) ==
   (a.check /\ Reject(a) = 0) =>
      (o.exit = 0 <=> (NoFail(files) /\ \A j \in 1..Len(files) : ~Changed(files[j])))
ReportConsistent(a, files, o) ==
   (a.check /\ Reject(a) = 0) =>
      /\ SeqToSet(o.fail) = {j \in Idx(files) : Changed(files[j])}
      /\ SeqToSet(o.pass) = IF a.quiet THEN {} ELSE {j \in Idx(files) : ~Changed(files[j])}
CheckTouchesNothing(a, files, o) == a.check => o.touched = {}
RejectedTouchNothing(a, files, o) == Reject(a) # 0 => (o.exit = Reject(a) /\ o.touched = {} /\ o.stdout = <<>>)
IfChangedIff(a, files, o) ==
   (a.ifc /\ ~a.check /\ Reject(a) = 0 /\ a.src # "stdin") =>
      \A j \in Idx(files) :
         LET tg == Target(a, j) IN
         IF tg[1] = "stdout" THEN (j \in SeqToSet(o.stdout) <=> Changed(files[j]))
         ELSE /\ (Changed(files[j]) => <<tg[1], j, "fmt">> \in o.touched)
              /\ (~Changed(files[j]) => \A t \in o.touched : t[2] # j)
C12Bad(a, files, o) ==
   (IF CheckStatus(a, files, o) THEN {} ELSE {"CheckStatus"}) \cup
   (IF ReportConsistent(a, files, o) THEN {} ELSE {"ReportConsistent"}) \cup
   (IF CheckTouchesNothing(a, files, o) THEN {} ELSE {"CheckTouchesNothing"}) \cup
   (IF RejectedTouchNothing(a, files, o) THEN {} ELSE {"RejectedTouchNothing"}) \cup
   (IF IfChangedIff(a, files, o) THEN {} ELSE {"IfChangedIff"})

\* ---------------------------------------------------------------- C10: the bytes and where they are
\* every accepted, successful invocation delivers for every file exactly the reference bytes
\* ("fmt") at the location the mode names, and the source itself is modified only in place
OutputLocation(a, files, o) ==
   (Reject(a) = 0 /\ ~a.check /\ ~a.ifc /\ NoFail(files)) =>
      /\ o.exit = 0
      /\ \A j \in 1..Len(files) :
            LET tg == Target(a, j) IN
            IF tg[1] = "stdout" THEN j \in SeqToSet(o.stdout)
            ELSE IF tg[1] = "self" THEN (Changed(files[j]) => <<"self", j, "fmt">> \in o.touched)
            ELSE <<tg[1], j, "fmt">> \in o.touched
      /\ \A t \in o.touched : t[3] # "other"
      /\ \A t \in o.touched : t[1] = "self" => InPlaceT(a, t[2])
C10Bad(a, files, o) == IF OutputLocation(a, files, o) THEN {} ELSE {"OutputLocation"}
=========================================================================
