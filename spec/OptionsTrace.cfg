SPECIFICATION TSpec
CONSTANTS
  TokenNames <- RTokens
  LangNames <- RLang
POSTCONDITION TraceAccepted
CHECK_DEADLOCK FALSE
