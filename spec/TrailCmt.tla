------------------------------- MODULE TrailCmt -------------------------------
(* Alignment of trailing comments: align_right_comments() / align_trailing_comments() /         *)
(* align_add() / align_stack() of src/align/trailing_comments.cpp and src/align/add.cpp,          *)
(* transcribed.  Not one of the twenty listed properties: an extension of the specification to   *)
(* the align_right_cmt_* options (span, gap, at_col) and align_on_tabstop.                       *)
(*                                                                                                *)
(* A program is a sequence of statement lines of one brace level.  Line i has code of width w    *)
(* starting in column Indent, possibly a comment behind it that stood g >= 1 blanks behind the   *)
(* code in the input, and nl line breaks after it.                                               *)
(*   qualifies   a comment takes part only if g >= Gap (align_right_cmt_gap: "minimum number of  *)
(*               columns between preceding text and a trailing comment in order for the comment  *)
(*               to qualify"; 0 lets every comment in), and if it is not in column 1             *)
(*   groups      from a qualifying comment the scan runs on while fewer than Span line breaks    *)
(*               have passed since the last member; a comment that does not qualify is stepped   *)
(*               over (its line breaks count)                                                    *)
(*   column      the smallest column a member stands in, pulled to AtCol if that is smaller,     *)
(*               pushed right to clear the longest code of the group (one blank), pushed right   *)
(*               to AtCol, then to the next tab stop under align_on_tabstop                       *)
(*   singles     a group of one moves only when AtCol is set                                     *)
(* Contracts (checked by TLC on the machine, and by TrailCmtTrace on the columns the binary      *)
(* produces):                                                                                     *)
(*   OneColumn        the members of a group end up in one column                                *)
(*   ClearOfCode      that column leaves at least one blank behind every member's code           *)
(*   OthersStay       a comment that does not qualify, or is alone without AtCol, keeps its      *)
(*                    column                                                                      *)
(*   AtColHonoured    with AtCol set, a group whose code all ends before AtCol stands at AtCol   *)
(*                    (the next tab stop under align_on_tabstop)                                 *)
(*   SpanRespected    fewer than Span line breaks lie between two consecutive members            *)
(*   Stable           a second run over the first run's output moves nothing (C05 at the level   *)
(*                    of this pass)                                                               *)
EXTENDS Naturals, Sequences, FiniteSets, TLC, Json
CONSTANTS MaxLines, Widths, Gaps, Breaks, Spans, MinGaps, AtCols, Indent, TabStops, TabSize, Emit
VARIABLES prog, span, mingap, atcol, tabstop
vars == <<prog, span, mingap, atcol, tabstop>>
Line == [w : Widths, cmt : {TRUE}, g : Gaps, nl : Breaks] \cup [w : Widths, cmt : {FALSE}, g : {0}, nl : Breaks]
Max(x, y) == IF x > y THEN x ELSE y
Min(x, y) == IF x < y THEN x ELSE y
CodeEnd(ln) == Indent + ln.w                 \* first column behind the code
(* G[i] = blanks between code and comment when the pass starts *)
ColIn(P, G, i) == CodeEnd(P[i]) + G[i]
Qualifies(P, G, i) == P[i].cmt /\ G[i] >= mingap
TabCol(c) == IF c % TabSize = 1 THEN c ELSE ((c - 1) \div TabSize + 1) * TabSize + 1

(* one group: scan from line s (a qualifying comment); returns <<members, index of the line     *)
(* behind the scan>>: align_trailing_comments()                                                  *)
RECURSIVE Scan(_, _, _, _, _)
Scan(P, G, i, nlc, mem) ==
   IF i > Len(P) \/ nlc >= span THEN <<mem, i>>
   ELSE LET q == Qualifies(P, G, i)
        IN Scan(P, G, i + 1, (IF q THEN 0 ELSE nlc) + P[i].nl, IF q THEN Append(mem, i) ELSE mem)
GroupCol(P, G, mem) ==
   LET minorig == CHOOSE c \in {ColIn(P, G, mem[k]) : k \in 1..Len(mem)} : \A k \in 1..Len(mem) : c <= ColIn(P, G, mem[k])
       mincol  == CHOOSE c \in {CodeEnd(P[mem[k]]) + 1 : k \in 1..Len(mem)} : \A k \in 1..Len(mem) : c >= CodeEnd(P[mem[k]]) + 1
       c1 == IF atcol > 0 /\ minorig > atcol THEN atcol ELSE minorig
       c2 == Max(c1, mincol)
       c3 == Max(c2, atcol)
   IN IF tabstop THEN TabCol(c3) ELSE c3
(* the whole pass: returns the sequence of groups [mem, col, moved] *)
RECURSIVE Pass(_, _, _, _)
Pass(P, G, i, acc) ==
   IF i > Len(P) THEN acc
   ELSE IF ~Qualifies(P, G, i) THEN Pass(P, G, i + 1, acc)
   ELSE LET r == Scan(P, G, i, 0, <<>>)
            mem == r[1]
            moved == Len(mem) > 1 \/ atcol > 0
        IN Pass(P, G, Max(r[2], i + 1), Append(acc, [mem |-> mem, col |-> GroupCol(P, G, mem), moved |-> moved]))
Groups(P, G) == IF span = 0 THEN <<>> ELSE Pass(P, G, 1, <<>>)
GroupOf(gs, i) == IF \E k \in 1..Len(gs) : \E n \in 1..Len(gs[k].mem) : gs[k].mem[n] = i
                  THEN CHOOSE k \in 1..Len(gs) : \E n \in 1..Len(gs[k].mem) : gs[k].mem[n] = i
                  ELSE 0
ColsFrom(P, G) == LET gs == Groups(P, G)
                  IN [i \in 1..Len(P) |-> IF ~P[i].cmt THEN 0
                                          ELSE IF GroupOf(gs, i) # 0 /\ gs[GroupOf(gs, i)].moved THEN gs[GroupOf(gs, i)].col
                                          ELSE ColIn(P, G, i)]
G0(P) == [i \in 1..Len(P) |-> P[i].g]
Cols(P) == ColsFrom(P, G0(P))
(* a second run: the blanks are what the first run left *)
G1(P) == LET c == Cols(P) IN [i \in 1..Len(P) |-> IF P[i].cmt THEN c[i] - CodeEnd(P[i]) ELSE 0]
ColsAgain(P) == ColsFrom(P, G1(P))

(* ----------------------------------------------------------------- contracts on columns c *)
RECURSIVE BreaksBetween(_, _, _)
BreaksBetween(P, i, j) == IF i >= j THEN 0 ELSE P[i].nl + BreaksBetween(P, i + 1, j)
OneColumn(P, gs, c) == \A k \in 1..Len(gs) : gs[k].moved => \A a, b \in 1..Len(gs[k].mem) : c[gs[k].mem[a]] = c[gs[k].mem[b]]
ClearOfCode(P, c) == \A i \in 1..Len(P) : P[i].cmt => c[i] >= CodeEnd(P[i]) + 1
OthersStay(P, gs, c) == \A i \in 1..Len(P) : (P[i].cmt /\ (GroupOf(gs, i) = 0 \/ ~gs[GroupOf(gs, i)].moved)) => c[i] = ColIn(P, G0(P), i)
AtColHonoured(P, gs, c) == atcol > 0 => \A k \in 1..Len(gs) :
                              (\A n \in 1..Len(gs[k].mem) : CodeEnd(P[gs[k].mem[n]]) + 1 <= atcol)
                                 => \A n \in 1..Len(gs[k].mem) : c[gs[k].mem[n]] = (IF tabstop THEN TabCol(atcol) ELSE atcol)
SpanRespected(P, gs) == \A k \in 1..Len(gs) : \A n \in 1..Len(gs[k].mem) - 1 : BreaksBetween(P, gs[k].mem[n], gs[k].mem[n + 1]) < span
Contracts(P, gs, c) == OneColumn(P, gs, c) /\ ClearOfCode(P, c) /\ OthersStay(P, gs, c) /\ AtColHonoured(P, gs, c)

(* ----------------------------------------------------------------- behaviours *)
Init == prog = <<>> /\ span \in Spans /\ mingap \in MinGaps /\ atcol \in AtCols /\ tabstop \in TabStops
Grow == /\ Len(prog) < MaxLines
        /\ \E ln \in Line : prog' = Append(prog, ln)
        /\ UNCHANGED <<span, mingap, atcol, tabstop>>
Next == Grow
Spec == Init /\ [][Next]_vars
Good == LET gs == Groups(prog, G0(prog)) IN Contracts(prog, gs, Cols(prog)) /\ SpanRespected(prog, gs)
Stable == ColsAgain(prog) = Cols(prog)
(* non-vacuity: some program within the bounds has a comment moved (must be VIOLATED) *)
NothingMoves == Cols(prog) = [i \in 1..Len(prog) |-> IF prog[i].cmt THEN ColIn(prog, G0(prog), i) ELSE 0]
EmitCase == (Emit /\ prog # <<>> /\ \E i \in 1..Len(prog) : prog[i].cmt) =>
               PrintT("@@" \o ToJson([prog |-> prog, span |-> span, mingap |-> mingap, atcol |-> atcol, tabstop |-> tabstop, cols |-> Cols(prog)]))
EmitUnstable == (Emit /\ prog # <<>> /\ ~Stable) =>
               PrintT("@@" \o ToJson([prog |-> prog, span |-> span, mingap |-> mingap, atcol |-> atcol, tabstop |-> tabstop, cols |-> Cols(prog), again |-> ColsAgain(prog)]))
=============================================================================
