SPECIFICATION Spec
CONSTANTS
  Depth = 1
  ChainDepth = 4
  SkipAllVClose = FALSE
  IfGuard = TRUE
  Emit = FALSE
INVARIANTS MeaningKept OnlyBracesGo EmitTree
CHECK_DEADLOCK FALSE
