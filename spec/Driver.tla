---------------------------- MODULE Driver ----------------------------
(* Small-step exploration of DriverCore: every sensible command line x every sequence of   *)
(* file classes up to MaxFiles, one step per file; the C12 / C10 statements are checked on *)
(* every state (CheckNeverWrites) and on every completed invocation.  With Emit as a       *)
(* CONSTRAINT the same module is the M-gen generator: it prints each invocation of the     *)
(* selected family with the predicted outcome.                                             *)
EXTENDS DriverCore, Json
CONSTANTS MaxFiles, Family      \* Family: "all" | "c12" | "c10"
VARIABLES a, files, i, st
vars == <<a, files, i, st>>
SeqsUpTo(S, n) == UNION {[1..m -> S] : m \in 1..n}
InFamily(x) ==
   CASE Family = "c12" -> (x.check \/ x.ifc) /\ ~x.pfile /\ ~x.csv /\ x.lang # "l"
     [] Family = "c10" -> ~x.check /\ ~x.ifc
     [] OTHER -> TRUE
FilesFor(x) == IF Multi(x) THEN SeqsUpTo(IF Family = "c10" THEN {"unf", "fmt"} ELSE Classes, MaxFiles)
               ELSE {<<c>> : c \in (IF Family = "c10" THEN {"unf", "fmt"} ELSE Classes)}
Init == /\ a \in {x \in ArgsSpace : Sensible(x) /\ InFamily(x)}
        /\ files \in FilesFor(a)
        /\ i = 1
        /\ st = IF Reject(a) # 0 THEN [St0 EXCEPT !.exit = Reject(a), !.done = TRUE] ELSE St0
Step == /\ ~st.done
        /\ IF i > Len(files) THEN st' = Finish(st, a) /\ i' = i
           ELSE st' = Process(st, a, i, files[i]) /\ i' = i + 1
        /\ UNCHANGED <<a, files>>
Next == Step
Spec == Init /\ [][Next]_vars
\* ---- properties
CheckNeverWrites == a.check => st.touched = {}
DoneOK == st.done => (C12Bad(a, files, st) = {} /\ C10Bad(a, files, st) = {})
BigStepAgrees == st.done => st = Expected(a, files)
\* ---- generator
Emit == (i = 1 /\ (st = St0 \/ Reject(a) # 0)) =>
           PrintT("@@" \o ToJson([a |-> a, files |-> files, exp |-> Expected(a, files)]))
=========================================================================
