---------------------------- MODULE InPlaceCore ----------------------------
(* The file protocol of uncrustify's in-place modes (--replace, --no-backup,      *)
(* -f F -o F): do_source_file() + backup.cpp, one step per libc-level file         *)
(* operation group, in code order, with the environment able to kill the process   *)
(* between any two steps, to make any fallible step fail, and to edit the file     *)
(* between runs.  Serves C13 (all-or-nothing) and C14 (backup holds the last text  *)
(* uncrustify did not write).                                                      *)
(*                                                                                 *)
(* Written functionally (a step is an operator from state record to state record)  *)
(* so that the same definitions drive (a) the small-step model TLC explores        *)
(* exhaustively and (b) the big-step explanation of one observed run in            *)
(* InPlaceTrace.tla.                                                               *)
EXTENDS Naturals, Sequences, FiniteSets, TLC

CONSTANTS MaxSteps,     \* bound on history length (user writes + run starts)
          MaxFaults,    \* injected faults per run
          AllowCrash,   \* the environment may kill a run
          Modes,        \* subset of {"replace", "nobackup"}
          UserConts,    \* contents a user may write
          Md5Order      \* "after" (md5 describes what is left in F; as fixed) | "asbuilt" (md5 of original, before rename)

\* ---------------------------------------------------------------- contents
\* U1/U2: unformatted user texts; A1/A2, B1/B2: their formatted versions under config A / B;
\* X: a text on which formatting fails.  "none": path absent.  "part": a truncated / empty /
\* otherwise incomplete file (never equal to a complete content).
Complete == {"U1", "U2", "A1", "A2", "B1", "B2", "X"}
Cont     == Complete \cup {"none", "part"}
Base(c)  == IF c \in {"U1", "A1", "B1"} THEN "1" ELSE "2"
Fails(c) == c = "X"
Fmt(k, c) == IF k = "A" THEN (IF Base(c) = "1" THEN "A1" ELSE "A2")
                        ELSE (IF Base(c) = "1" THEN "B1" ELSE "B2")

\* ---------------------------------------------------------------- steps of one run, in code order
\* load     stat+fopen+fread of F                 (load_mem_file)
\* md5read  fopen/fgets of F.unc-backup.md5~      (backup_copy_file)
\* bkopen   fopen(F.unc-backup~, "wb")            truncates the backup
\* bkwrite  fwrite+fclose                          backup complete
\* mkdir    make_folders(): mkdir() for every directory component of the tmp path
\* tmpopen  fopen(F.uncrustify, "wb")
\* format   uncrustify_file(): may exit() inside a pass
\* tmpwrite fputc.../fclose                        tmp complete
\* md5pre   (as built only) md5 of F before the rename
\* cmp      file_content_matches + unlink | rename
\* md5src   fopen/fread of F for the md5           (as fixed: after the rename)
\* md5open  fopen(md5 file, "wb")
\* md5close fprintf+fclose
\* fin      remaining calls (close, utime), then exit status 0
Pcs == {"idle", "load", "md5read", "bkopen", "bkwrite", "mkdir", "tmpopen", "format", "tmpwrite",
        "md5pre", "cmp", "md5src", "md5open", "md5close", "fin"}
Fallible == {"load", "md5read", "bkopen", "bkwrite", "mkdir", "tmpopen", "tmpwrite", "cmp", "md5src", "md5open", "md5close", "md5pre"}

InitRec(c) == [F |-> c, T |-> "none", B |-> "none", M |-> "none",
               pc |-> "idle", cfg |-> "A", mode |-> "replace", mem |-> "none", needbk |-> FALSE,
               exit |-> "none", faults |-> 0, faulted |-> FALSE, silent |-> FALSE,
               runF |-> "none", lastLeftAtStart |-> "none", originAtStart |-> "none",
               lastLeft |-> "none", origin |-> "none", tainted |-> FALSE, bkOwn |-> FALSE]

\* ghost bookkeeping at the two places where uncrustify "leaves" bytes in F
Leave(s, newF) ==
   [s EXCEPT !.lastLeft = newF,
             !.origin   = IF s.mode = "replace"
                          THEN (IF s.runF # s.lastLeft \/ s.origin = "none" THEN s.runF ELSE s.origin)
                          ELSE (IF s.runF # s.lastLeft THEN "none" ELSE s.origin),
             \* a --no-backup run does not refresh the md5 record: mixing it into a --replace chain
             \* breaks the chain like a kill in the md5 window does (outside C14's histories)
             !.tainted  = IF s.mode = "nobackup" THEN (s.tainted \/ s.runF = s.lastLeft)
                          \* user text that went into the backup starts a new chain; user text that a stale
                          \* record happened to describe (no backup made) is still inside the window
                          ELSE IF s.runF # s.lastLeft /\ s.needbk THEN FALSE ELSE s.tainted]

Fail(s)   == [s EXCEPT !.pc = "idle", !.exit = "fail"]
Finish(s) == [s EXCEPT !.pc = "idle", !.exit = "ok"]

StartRun(s, k, m) ==
   [s EXCEPT !.pc = "load", !.cfg = k, !.mode = m, !.exit = "none", !.faults = 0, !.faulted = FALSE,
             !.silent = FALSE, !.runF = s.F, !.bkOwn = FALSE,
             !.lastLeftAtStart = s.lastLeft, !.originAtStart = s.origin]

\* One step without fault.
Step(s) ==
   CASE s.pc = "load" ->
          IF s.F = "none" THEN Fail(s)
          ELSE [s EXCEPT !.mem = s.F, !.pc = IF s.mode = "replace" THEN "md5read" ELSE "mkdir"]
     [] s.pc = "md5read" ->
          IF s.M = s.mem THEN [s EXCEPT !.needbk = FALSE, !.pc = "mkdir"]
                         ELSE [s EXCEPT !.needbk = TRUE, !.pc = "bkopen"]
     [] s.pc = "bkopen"  -> [s EXCEPT !.B = "part", !.pc = "bkwrite"]
     [] s.pc = "bkwrite" -> [s EXCEPT !.B = s.mem, !.pc = "mkdir", !.bkOwn = (s.mem = s.lastLeft)]
     [] s.pc = "mkdir"   -> [s EXCEPT !.pc = "tmpopen"]
     [] s.pc = "tmpopen" -> [s EXCEPT !.T = "part", !.pc = "format"]
     [] s.pc = "format"  -> IF Fails(s.mem) THEN Fail(s) ELSE [s EXCEPT !.pc = "tmpwrite"]
     [] s.pc = "tmpwrite" -> [s EXCEPT !.T = Fmt(s.cfg, s.mem),
                                       !.pc = IF Md5Order = "asbuilt" /\ s.mode = "replace" THEN "md5pre" ELSE "cmp"]
     [] s.pc = "md5pre"  -> [s EXCEPT !.M = s.F, !.pc = "cmp"]
     [] s.pc = "cmp" ->
          LET s2 == IF s.T = s.F THEN [s EXCEPT !.T = "none"]               \* no change: unlink tmp
                                 ELSE [s EXCEPT !.F = s.T, !.T = "none"]    \* rename tmp over F
              s3 == Leave(s2, s2.F)
          IN IF s.mode = "replace" /\ Md5Order = "after" THEN [s3 EXCEPT !.pc = "md5src"] ELSE [s3 EXCEPT !.pc = "fin"]
     [] s.pc = "md5src"   -> [s EXCEPT !.pc = "md5open"]
     [] s.pc = "md5open"  -> [s EXCEPT !.M = "part", !.pc = "md5close"]
     [] s.pc = "md5close" -> [s EXCEPT !.M = s.F, !.pc = "fin"]
     [] s.pc = "fin"      -> Finish(s)
     [] OTHER -> s

\* The same step with the operation failing (errno from the kernel).
FaultStep(s) ==
   LET f == [s EXCEPT !.faults = s.faults + 1, !.faulted = TRUE] IN
   CASE s.pc = "load"     -> Fail(f)                                   \* "Failed to load", EX_IOERR
     \* md5 record unreadable: treated as absent, a backup is made (graceful, not a failure)
     [] s.pc = "md5read"  -> [s EXCEPT !.needbk = TRUE, !.pc = "bkopen", !.tainted = s.tainted \/ (s.M = s.mem)]
     [] s.pc = "bkopen"   -> Fail(f)                                   \* fopen failed, backup untouched
     [] s.pc = "bkwrite"  -> Fail(f)                                   \* B stays "part"
     [] s.pc = "mkdir"    -> Fail(f)                                   \* "Unable to create", EX_IOERR
     [] s.pc = "tmpopen"  -> Fail(f)
     [] s.pc = "tmpwrite" -> Fail([f EXCEPT !.T = "part"])             \* write/close error noticed before rename
     [] s.pc = "cmp"      -> Fail(f)                                   \* rename failed: F untouched, tmp left behind
     [] s.pc = "md5pre"   -> [f EXCEPT !.M = "part", !.pc = "cmp", !.silent = TRUE, !.tainted = TRUE]
     [] s.pc = "md5src"   -> Fail([f EXCEPT !.tainted = TRUE])         \* fopen(F) failed: exit(EX_SOFTWARE), md5 record stale
     [] s.pc = "md5open"  -> Finish([f EXCEPT !.silent = TRUE, !.tainted = TRUE])  \* "we really don't care if it fails"
     [] s.pc = "md5close" -> Finish([f EXCEPT !.M = "part", !.silent = TRUE, !.tainted = TRUE])
     [] OTHER -> s

\* kill -9 between two operations; a kill after the rename and before the md5 record is complete
\* leaves an md5 file that does not describe F (the window no ordering can close, DESIGN C14)
Crash(s) ==
   [s EXCEPT !.pc = "idle", !.exit = "killed",
             !.tainted = s.tainted \/ (s.pc \in {"md5src", "md5open", "md5close"})
                                   \/ (Md5Order = "asbuilt" /\ s.pc = "cmp")]


\* ---------------------------------------------------------------- big-step view of one run
\* kill: the pc at which the process is killed ("never" = not killed); faults: the set of steps
\* whose operation fails.  Used by the history generator and to explain an observed run.
RECURSIVE RunFrom(_, _, _)
RunFrom(r, kill, faults) ==
   IF r.pc = "idle" THEN r
   ELSE IF r.pc = kill THEN Crash(r)
   ELSE IF r.pc \in faults THEN RunFrom(FaultStep(r), kill, faults \ {r.pc})
   ELSE RunFrom(Step(r), kill, faults)
UserRec(r, c) == [r EXCEPT !.F = c, !.runF = "none", !.exit = "none", !.silent = FALSE, !.bkOwn = FALSE]
UserOk(r, c)  == (c = r.lastLeft => r.F = r.lastLeft) /\ (c = r.M => r.F = c)

\* ---------------------------------------------------------------- C13
\* the path holds the complete original or the complete formatted bytes, at every instant
AllOrNothingR(r) == r.runF # "none" => r.F \in {r.runF, Fmt(r.cfg, r.runF)}
\* whenever the path no longer holds the original bytes a backup holding them exists
\* (reading that keeps C13 and C14 compatible: when the run started from uncrustify's own last
\* output the backup keeps the older original)
BackupWhenGoneS(r) ==
   (r.mode = "replace" /\ r.runF # "none" /\ r.F # r.runF) =>
      IF r.runF # r.lastLeftAtStart THEN r.B = r.runF                \* user text: must be in the backup
      ELSE (r.originAtStart # "none" => r.B \in {r.runF, r.originAtStart})   \* own output: older original may stay
\* "S" = strict; the "R" form excuses histories whose md5 record was cut off from F by a kill
\* (or an ignored md5 write error) - the window recorded as a known finding, DESIGN.md C14
BackupWhenGoneR(r) == (r.tainted /\ r.runF = r.lastLeftAtStart) \/ BackupWhenGoneS(r)
\* any failure yields a non-zero exit status
FailureIsReportedR(r) == (r.exit = "ok") => ~(r.faulted /\ ~r.silent) /\ ~Fails(r.runF)
SilentFaultR(r) == r.exit = "ok" /\ r.silent


\* ---------------------------------------------------------------- C14 (Modes = {"replace"})
BackupIsOriginS(r) ==
   (r.pc = "idle" /\ r.F = r.lastLeft /\ r.origin # "none") => r.B = r.origin
BackupIsOriginR(r) == ~r.tainted => BackupIsOriginS(r)
Md5DescribesOutputR(r) ==
   (r.pc = "idle" /\ r.exit = "ok" /\ ~r.silent /\ r.F = r.lastLeft) => r.M = r.lastLeft
NeverBackupOwnS(r) == ~r.bkOwn
NeverBackupOwnR(r) == ~r.tainted => NeverBackupOwnS(r)

=========================================================================
