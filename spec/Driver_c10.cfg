SPECIFICATION Spec
CONSTANTS
  MaxFiles = 2
  Family = "c10"
INVARIANTS CheckNeverWrites DoneOK BigStepAgrees
CONSTRAINT Emit
CHECK_DEADLOCK FALSE
