------------------------------- MODULE Indent -------------------------------
(* Indentation and block nesting (C18).                                                      *)
(*                                                                                           *)
(* Part 1 - Prog: block-structured programs as a push-down system.  A program is a sequence   *)
(* of lines; every line has a kind.  The grammar (what may follow what, which header owns     *)
(* which '{') is the Grow action; TLC's reachable complete states are the derivations.        *)
(*   func hdr elseh doh tryh catchh switch ns cls ext enumh                                    *)
(*                                header lines: the next line is their '{' (hdr = if / loop,   *)
(*                                elseh only after the block of an hdr, catchh after a try)    *)
(*   open close                   '{' and '}' on their own lines (the default brace style)    *)
(*   stmt                         a simple statement          dowhile   'while (c);' of a do   *)
(*   case                         a case label (only directly inside a switch block)          *)
(*   cbopen                       '{' that follows a case label                               *)
(*   acc                          access specifier in a class   enumr   an enumerator line    *)
(* Part 2 - the frame stack of indent_text() reduced to its closed form: Col(P, i) is the     *)
(* column of the first token of line i, from the options that have a closed form.             *)
EXTENDS Naturals, Integers, Sequences, FiniteSets, TLC, Json
CONSTANTS MaxLines, MaxDepth, Emit
VARIABLES prog,      \* sequence of line kinds
          stack,     \* kinds of the open frames, innermost last
          closed     \* kind of the frame the last '}' closed ("" when the last line is not a '}')
vars == <<prog, stack, closed>>

Headers == {"func", "hdr", "elseh", "doh", "tryh", "catchh", "switch", "ns", "cls", "ext", "enumh"}
Kinds == Headers \cup {"open", "close", "stmt", "case", "cbopen", "dowhile", "acc", "enumr"}
Code == {"func", "hdr", "elseh", "doh", "tryh", "catchh", "cb"}       \* frames whose body is a statement list
Top == IF stack = <<>> THEN "file" ELSE stack[Len(stack)]
Last == IF prog = <<>> THEN "none" ELSE prog[Len(prog)]

(* ---------------------------------------------------------------- Part 1: grammar *)
CanAdd(k) ==
  LET top == Top
      last == Last
      inCode == top \in Code \/ (top = "switch" /\ last \notin {"open"})
  IN IF last \in Headers THEN k = "open"                       \* a header owns the next '{'
     ELSE IF last = "case" /\ k = "cbopen" THEN TRUE
     ELSE IF closed = "doh" THEN k = "dowhile"                 \* '}' of a do is followed by its while
     ELSE IF closed = "tryh" THEN k = "catchh"                 \* a try has at least one handler
     ELSE CASE k = "open"   -> FALSE                           \* bare blocks are not generated: '{' always has a header
            [] k = "cbopen" -> FALSE
            [] k = "dowhile" -> FALSE
            [] k = "close"  -> stack # <<>> /\ last \notin {"case", "acc"}   \* something stands under a label before the block ends
            [] k = "case"   -> top = "switch" /\ last # "case"
            [] k = "stmt"   -> top \in Code \/ top = "cls" \/ (top = "switch" /\ last \notin {"open"})
            [] k = "hdr"    -> inCode
            [] k = "elseh"  -> closed = "hdr" /\ inCode
            [] k = "catchh" -> closed = "catchh" /\ inCode
            [] k \in {"doh", "tryh", "switch"} -> top \in Code
            [] k = "func"   -> top \in {"file", "ns", "cls", "ext"}
            [] k = "ns"     -> top \in {"file", "ns"}
            [] k = "cls"    -> top \in {"file", "ns"}
            [] k = "ext"    -> top = "file"
            [] k = "enumh"  -> top \in {"file", "ns", "cls"} \cup Code
            [] k = "enumr"  -> top = "enumh"
            [] k = "acc"    -> top = "cls" /\ last # "acc"
            [] OTHER -> FALSE
FrameOf(hdrKind) == hdrKind            \* the frame a '{' opens is named after its header
Grow(k) == /\ Len(prog) < MaxLines /\ CanAdd(k)
           /\ (k \in {"open", "cbopen"} => Len(stack) < MaxDepth)
           /\ prog' = Append(prog, k)
           /\ stack' = CASE k = "open" -> Append(stack, FrameOf(Last))
                         [] k = "cbopen" -> Append(stack, "cb")
                         [] k = "close" -> SubSeq(stack, 1, Len(stack) - 1)
                         [] OTHER -> stack
           /\ closed' = IF k = "close" THEN Top ELSE ""
Init == prog = <<>> /\ stack = <<>> /\ closed = ""
Next == \E k \in Kinds : Grow(k)
Spec == Init /\ [][Next]_vars
Complete == stack = <<>> /\ prog # <<>> /\ Last \in {"close", "dowhile"} /\ closed \notin {"doh", "tryh"}

(* ------------------------------------------------------- structure of a program *)
(* Structure(P) = for every line <<open, hdr>>: the index of the '{' line of the frame the    *)
(* line stands in (0 = file level) and, for '{' and '}' lines, the index of the header line    *)
RECURSIVE Scan(_, _, _, _)
Scan(P, i, st, acc) ==      \* st: stack of <<open index, frame kind>>
  IF i > Len(P) THEN acc
  ELSE LET k == P[i]
           inOpen == IF st = <<>> THEN 0 ELSE st[Len(st)][1]
       IN CASE k \in {"open", "cbopen"} ->
                 Scan(P, i + 1, Append(st, <<i, IF k = "cbopen" THEN "cb" ELSE P[i - 1]>>), Append(acc, <<inOpen, i - 1>>))
            [] k = "close" ->
                 LET o == st[Len(st)][1]
                     rest == SubSeq(st, 1, Len(st) - 1)
                 IN Scan(P, i + 1, rest, Append(acc, <<IF rest = <<>> THEN 0 ELSE rest[Len(rest)][1], o - 1>>))
            [] OTHER -> Scan(P, i + 1, st, Append(acc, <<inOpen, 0>>))
Structure(P) == Scan(P, 1, <<>>, <<>>)
FrameKind(P, o) == IF o = 0 THEN "file" ELSE IF P[o] = "cbopen" THEN "cb" ELSE P[o - 1]

(* --------------------------------------------------- Part 2: the closed-form column *)
(* opts: ic indent_columns; ns / cls / ext : indent_namespace / indent_class / indent_extern;  *)
(* sc : indent_switch_case (columns); br : indent_braces; ib : indent_brace (columns);         *)
(* as : indent_access_spec (> 0 absolute column, <= 0 offset from the member column)           *)
Indents(fk, o) == CASE fk = "ns" -> o.ns [] fk = "cls" -> o.cls [] fk = "ext" -> o.ext [] OTHER -> TRUE
(* indent_braces moves the braces of every block whose body is indented one level in            *)
BraceIndented(fk, o) == o.br /\ fk # "switch" /\ Indents(fk, o)
(* indent_brace = n moves the braces of control blocks n columns in, and their bodies with them  *)
Ib(fk, o) == IF fk \in {"hdr", "elseh", "doh", "tryh", "catchh", "switch"} THEN o.ib ELSE 0
BraceShift(fk, o) == (IF BraceIndented(fk, o) THEN o.ic ELSE 0) + Ib(fk, o)
RECURSIVE Col(_, _, _, _)
(* column of line i; S = Structure(P) *)
Col(P, S, i, o) ==
  LET k == P[i]
      inOpen == S[i][1]
  IN IF k \in {"open", "cbopen"} THEN Col(P, S, S[i][2], o) + BraceShift(FrameKind(P, i), o)
     ELSE IF k = "close" THEN Col(P, S, S[i][2] + 1, o)
     ELSE IF inOpen = 0 THEN 1
     ELSE LET fk == FrameKind(P, inOpen)
              oc == Col(P, S, inOpen, o) - (IF BraceIndented(fk, o) THEN o.ic ELSE 0)   \* header column (+ indent_brace)
              body == IF fk = "switch" THEN oc + o.sc
                      ELSE IF Indents(fk, o) THEN oc + o.ic ELSE oc
          IN IF fk = "switch" /\ k # "case" THEN body + o.ic        \* statements under a case label
             ELSE IF k = "acc" THEN (IF o.as > 0 THEN o.as ELSE IF body + o.as < 1 THEN 1 ELSE body + o.as)   \* absolute column or offset
             ELSE body
Cols(P, o) == LET S == Structure(P) IN [i \in 1..Len(P) |-> Col(P, S, i, o)]

(* ------------------------------------------------------------------ properties *)
(* judged on any column assignment c (the model's own, or the columns observed in real output) *)
StmtKinds == {"stmt", "hdr", "elseh", "doh", "dowhile", "tryh", "catchh", "switch", "func", "ns", "cls", "ext", "enumh", "enumr"}
Siblings(P, S, i, j) == /\ S[i][1] = S[j][1] /\ P[i] \in StmtKinds /\ P[j] \in StmtKinds
                        /\ (FrameKind(P, S[i][1]) = "switch" => (P[i] # "case" /\ P[j] # "case"))
SameBlockSameColumn(P, c) == LET S == Structure(P) IN \A i, j \in 1..Len(P) : Siblings(P, S, i, j) => c[i] = c[j]
OneLevelDeeper(P, c, o) ==
  LET S == Structure(P)
  IN \A i \in 1..Len(P) :
       (S[i][1] # 0 /\ P[i] \in StmtKinds /\ FrameKind(P, S[i][1]) \notin {"switch"}) =>
          LET fk == FrameKind(P, S[i][1])
              h == S[S[i][1]][2]                         \* header line of the enclosing '{'
              hc == IF fk = "cb" THEN c[h] ELSE c[h]
          IN c[i] = hc + (IF Indents(fk, o) THEN o.ic ELSE 0) + Ib(fk, o)
CloseBraceAligns(P, c, o) ==
  LET S == Structure(P)
  IN \A i \in 1..Len(P) : P[i] = "close" => (c[i] = c[S[i][2] + 1] /\ ((~o.br /\ o.ib = 0) => c[i] = c[S[i][2]]))
(* where the brace style is not the default one the documented offsets apply: indent_braces = one  *)
(* level, indent_brace = n columns for control blocks; and inside a switch the case labels stand   *)
(* indent_switch_case right of the brace position, the statements under them one level further     *)
BracePlacement(P, c, o) ==
  LET S == Structure(P)
  IN \A i \in 1..Len(P) :
       /\ (P[i] = "open" => c[i] = c[S[i][2]] + BraceShift(FrameKind(P, i), o))
       /\ ((S[i][1] # 0 /\ FrameKind(P, S[i][1]) = "switch" /\ P[i] \in StmtKinds \cup {"case"}) =>
              LET h == S[S[i][1]][2]
              IN c[i] = c[h] + o.ib + o.sc + (IF P[i] = "case" THEN 0 ELSE o.ic))
DefaultOpts == [ic |-> 4, ns |-> FALSE, cls |-> FALSE, ext |-> FALSE, sc |-> 0, br |-> FALSE, ib |-> 0, as |-> 1]
ModelConsistent == Complete =>
   \A o \in {DefaultOpts, [DefaultOpts EXCEPT !.ns = TRUE, !.cls = TRUE, !.ext = TRUE, !.ic = 3], [DefaultOpts EXCEPT !.sc = 4],
             [DefaultOpts EXCEPT !.ib = 2], [DefaultOpts EXCEPT !.br = TRUE]} :
      LET c == Cols(prog, o)
      IN SameBlockSameColumn(prog, c) /\ OneLevelDeeper(prog, c, o) /\ CloseBraceAligns(prog, c, o) /\ BracePlacement(prog, c, o)
EmitProg == (Emit /\ Complete) => PrintT("@@" \o ToJson([prog |-> prog, struct |-> Structure(prog)]))
=============================================================================
