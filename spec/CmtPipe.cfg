SPECIFICATION Spec
CONSTANTS
  MaxLines = 3
  Widths = {4, 8}
  Shifts <- DefShifts
  Gaps = {1, 4}
  CmtCols = {1, 5, 9, 13, 17}
  Breaks = {1, 2}
  Threshs = {0, 3}
  Spans = {0, 3}
  MinGaps = {0, 2}
  Indent = 5
  Emit = FALSE
INVARIANTS Good
CHECK_DEADLOCK FALSE
