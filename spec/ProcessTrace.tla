--------------------------- MODULE ProcessTrace ---------------------------
(* M-trace for Process (C06): one event per execution of the binary on an arbitrary input.      *)
(*   rc        exit status (negative = killed by that signal), timedout = killed by the harness  *)
(*   outlen / errlen   bytes on stdout / stderr;  quiet = -q was given                           *)
(*   san       a sanitizer report was printed (instrumented build, thorough tier)                *)
EXTENDS Process, Json, IOUtils
TraceLog == ndJsonDeserialize(IOEnv.TRACE)
VARIABLES l
Ev == TraceLog[l]
Bad(e) ==
  (IF e.timedout THEN {"Terminates"} ELSE {}) \cup
  (IF ~e.timedout /\ e.rc < 0 THEN {"NoSignal"} ELSE {}) \cup
  (IF ~e.timedout /\ e.rc >= 0 /\ e.rc \notin Documented THEN {"StatusDocumented"} ELSE {}) \cup
  (IF ~e.timedout /\ e.rc > 0 /\ e.outlen > 0 THEN {"FailureLeavesStdoutEmpty"} ELSE {}) \cup
  (IF ~e.timedout /\ e.rc > 0 /\ ~e.quiet /\ e.errlen = 0 THEN {"FailureIsDiagnosed"} ELSE {}) \cup
  (IF e.san THEN {"NoSanitizerReport"} ELSE {})
TNext == /\ l <= Len(TraceLog) /\ l' = l + 1 /\ UNCHANGED vars
         /\ LET e == Ev IN Bad(e) # {} => PrintT("@@" \o ToJson([l |-> l, id |-> e.id, bad |-> Bad(e)]))
TInit == l = 1 /\ phase = "Args" /\ status = -1 /\ out = 0 /\ err = 0 /\ quiet = FALSE /\ nlIter = 0 /\ changed = FALSE /\ long = 0 /\ tick = 0
TSpec == TInit /\ [][TNext]_<<l, vars>>
TraceAccepted == TLCGet("stats").diameter - 1 = Len(TraceLog)
=============================================================================
