------------------------------ MODULE LineEnd ------------------------------
(* Line terminators (C08): the census taken while tokenizing, the choice of cpd.newline and  *)
(* the substitution done by the writer.                                                      *)
(*                                                                                           *)
(* An input is a sequence of lines, each with a kind - where its terminator lies - and a      *)
(* terminator:                                                                                *)
(*   code    ordinary line: the terminator is whitespace between tokens  (parse_whitespace)   *)
(*   cmt     the terminator is inside a block comment                    (parse_comment)      *)
(*   bs      backslash-continued line of a directive                     (parse_bs_newline)   *)
(*   cppbs   '//' comment continued by a trailing backslash              (parse_comment)      *)
(*   str     the terminator is inside a string literal (backslash-newline in "...")            *)
(*   off/on  the marker comment lines of a disabled region, region = a line inside it          *)
(* The property-level census counts every terminator outside disabled regions; CodeCensus is  *)
(* the census the tokenizer takes (Counted says in which functions it counts).                *)
EXTENDS Naturals, Sequences, FiniteSets, TLC, Json
CONSTANTS MaxLines,
          Counted,     \* the kinds whose terminator the tokenizer counts
          Emit
VARIABLES layout, opt
vars == <<layout, opt>>

Terms == {"lf", "crlf", "cr"}
Kinds == {"code", "cmt", "bs", "cppbs", "str", "off", "region", "on"}
Opts  == {"lf", "crlf", "cr", "auto"}
Line  == [k : Kinds, t : Terms]

(* layouts that can be rendered without changing the kind of a later line: what follows a    *)
(* continued line is swallowed by it; regions are bracketed by their marker lines             *)
RECURSIVE WFFrom(_, _, _)
WFFrom(L, i, inRegion) ==
  IF i > Len(L) THEN ~inRegion \/ TRUE
  ELSE LET k == L[i].k
           prev == IF i = 1 THEN "code" ELSE L[i - 1].k
       IN /\ (prev = "cppbs" => k = "code")
          /\ (prev = "bs" => k \in {"code", "bs"})
          /\ (prev = "str" => k \in {"code", "cmt"})
          /\ (prev = "cmt" => k \in {"code", "cmt", "cppbs", "str"})
          /\ (inRegion => k \in {"region", "on"})
          /\ (~inRegion => k \notin {"region", "on"})
          /\ (k = "off" => prev \notin {"bs", "cppbs", "str", "cmt"})
          /\ WFFrom(L, i + 1, IF k = "off" THEN TRUE ELSE IF k = "on" THEN FALSE ELSE inRegion)
WF(L) == L # <<>> /\ WFFrom(L, 1, FALSE) /\ L[Len(L)].k \in {"code", "on", "region"}

Count(L, t, kinds) == Cardinality({i \in 1..Len(L) : L[i].t = t /\ L[i].k \in kinds})
(* The region starts right after the disabling marker comment and ends with the enabling one: *)
(* the terminator of the 'off' line and of every 'region' line lies inside it, the terminator  *)
(* of the 'on' line does not.                                                                  *)
PropKinds == Kinds \ {"region", "off"}
PropCensus(L) == [t \in Terms |-> Count(L, t, PropKinds)]
CodeCensus(L) == [t \in Terms |-> Count(L, t, Counted)]
ArgMax(c) == {t \in Terms : \A u \in Terms : c[u] <= c[t]}
(* tokenize() tail: LF wins ties over CRLF over CR *)
Choose(o, c) == IF o = "lf" \/ (o = "auto" /\ c["lf"] >= c["crlf"] /\ c["lf"] >= c["cr"]) THEN "lf"
                ELSE IF o = "crlf" \/ (o = "auto" /\ c["crlf"] >= c["lf"] /\ c["crlf"] >= c["cr"]) THEN "crlf"
                ELSE "cr"
Chosen == Choose(opt, CodeCensus(layout))
(* the writer: add_char() substitutes cpd.newline for every '\n' it is given and swallows     *)
(* '\r'; literal text is written through the same function, so even the break inside a string *)
(* comes out as the chosen terminator; region lines are copied by add_text(..., is_ignored)   *)
(* whose '\n' also goes through write_string(cpd.newline)                                     *)
OutTerms(L, ch) == [i \in 1..Len(L) |-> ch]

Seqs(n) == UNION {[1..m -> Line] : m \in 1..n}
Init == layout \in {L \in Seqs(MaxLines) : WF(L)} /\ opt \in Opts
Next == UNCHANGED vars
Spec == Init /\ [][Next]_vars

(* ---------------------------------------------------------------- properties *)
OneTerminator == opt # "auto" => \A i \in 1..Len(layout) : OutTerms(layout, Chosen)[i] = opt
AutoPicksMostFrequent == opt = "auto" => Chosen \in ArgMax(PropCensus(layout))
EmitLayout == Emit => PrintT("@@" \o ToJson([layout |-> layout, opt |-> opt, chosen |-> Chosen,
                                            census |-> CodeCensus(layout), prop |-> PropCensus(layout)]))
=============================================================================
