--------------------------- MODULE TrailCmtTrace ---------------------------
(* M-trace for TrailCmt: one event per (program, options): cols[i] = the column the comment of   *)
(* line i starts in after the binary formatted the program (0 = no comment), again = the same    *)
(* after it formatted its own output once more (<<>> when not repeated).                          *)
(*   contract   OneColumn / ClearOfCode / OthersStay / AtColHonoured on the OBSERVED columns,     *)
(*              with the groups the machine forms                                                 *)
(*   mechanism  ColumnsAsModel cols = Cols(prog); SecondRunAsModel again = ColsAgain(prog) (DRIFT)*)
EXTENDS TrailCmt, IOUtils
TraceLog == ndJsonDeserialize(IOEnv.TRACE)
VARIABLES l
Ev == TraceLog[l]
TNext == /\ l <= Len(TraceLog) /\ l' = l + 1
         /\ prog' = Ev.prog /\ span' = Ev.span /\ mingap' = Ev.mingap /\ atcol' = Ev.atcol /\ tabstop' = Ev.tabstop
TInit == l = 1 /\ prog = <<>> /\ span = 0 /\ mingap = 0 /\ atcol = 0 /\ tabstop = FALSE
TSpec == TInit /\ [][TNext]_<<l, vars>>
Judge == (l > 1 /\ l - 1 <= Len(TraceLog)) =>
           LET e == TraceLog[l - 1]
               gs == Groups(prog, G0(prog))
               bad == IF e.rc # 0 THEN {} ELSE
                      (IF ~OneColumn(prog, gs, e.cols) THEN {"OneColumn"} ELSE {}) \cup
                      (IF ~ClearOfCode(prog, e.cols) THEN {"ClearOfCode"} ELSE {}) \cup
                      (IF ~OthersStay(prog, gs, e.cols) THEN {"OthersStay"} ELSE {}) \cup
                      (IF ~AtColHonoured(prog, gs, e.cols) THEN {"AtColHonoured"} ELSE {})
               drift == (IF e.rc = 0 /\ e.cols # Cols(prog) THEN {"ColumnsAsModel"} ELSE {}) \cup
                        (IF e.rc = 0 /\ e.again # <<>> /\ e.again # ColsAgain(prog) THEN {"SecondRunAsModel"} ELSE {})
           IN (bad # {} \/ drift # {}) => PrintT("@@" \o ToJson([l |-> l - 1, id |-> e.id, bad |-> bad, drift |-> drift, expected |-> Cols(prog), again |-> ColsAgain(prog)]))
TraceAccepted == TLCGet("stats").diameter - 1 = Len(TraceLog)
=============================================================================
