---------------------------- MODULE OptionsCore ----------------------------
(* The configuration loader of uncrustify (option.cpp): split_args() with its quoting and  *)
(* backslash rules, process_option_line() with the directive kinds, and the read() method  *)
(* of each of the seven option kinds (aliases, references to other options, negation,      *)
(* bounds).  Character level: a configuration line is a sequence of one-character          *)
(* strings.  The registry (names, kinds, bounds, defaults, token names, languages) is a     *)
(* parameter: the small abstract registry of Options.tla for model checking, the real 857   *)
(* options (read from the trace) in OptionsTrace.tla.  Serves C15 and C16.                  *)
EXTENDS Naturals, Integers, Sequences, FiniteSets, TLC, OptionsWords

\* ---------------------------------------------------------------- characters
Quotes   == {"'", "\"", "`"}
IsSpace(c)  == c \in {" ", "\t", "\r", "\n", "\f"}
IsArgSep(c) == IsSpace(c) \/ c = "," \/ c = "="
UpperCs == <<"A","B","C","D","E","F","G","H","I","J","K","L","M","N","O","P","Q","R","S","T","U","V","W","X","Y","Z">>
LowerCs == <<"a","b","c","d","e","f","g","h","i","j","k","l","m","n","o","p","q","r","s","t","u","v","w","x","y","z">>
LowerC(c) == IF \E i \in 1..26 : UpperCs[i] = c THEN LowerCs[CHOOSE i \in 1..26 : UpperCs[i] = c] ELSE c
UpperC(c) == IF \E i \in 1..26 : LowerCs[i] = c THEN UpperCs[CHOOSE i \in 1..26 : LowerCs[i] = c] ELSE c
RECURSIVE Str(_)
Str(cs) == IF cs = <<>> THEN "" ELSE Head(cs) \o Str(Tail(cs))
RECURSIVE LowerStr(_)
LowerStr(cs) == IF cs = <<>> THEN "" ELSE LowerC(Head(cs)) \o LowerStr(Tail(cs))
RECURSIVE UpperStr(_)
UpperStr(cs) == IF cs = <<>> THEN "" ELSE UpperC(Head(cs)) \o UpperStr(Tail(cs))
Digits == <<"0","1","2","3","4","5","6","7","8","9">>
IsDigit(c) == \E i \in 1..10 : Digits[i] = c
DigitVal(c) == (CHOOSE i \in 1..10 : Digits[i] = c) - 1
RECURSIVE NatOf(_, _)
NatOf(cs, acc) == IF cs = <<>> THEN acc ELSE NatOf(Tail(cs), acc * 10 + DigitVal(Head(cs)))
AllDigits(cs) == \A i \in 1..Len(cs) : IsDigit(cs[i])
\* strtol(in, &c, 10) with *c == 0 (whole argument consumed); more than 9 digits do not occur in
\* the explored universe (TLC integers are 32 bit)
StrToL(cs) ==
   IF cs = <<>> THEN [ok |-> TRUE, v |-> 0]                         \* strtol("") = 0, nothing left over
   ELSE LET neg == Head(cs) = "-"
            body == IF Head(cs) \in {"-", "+"} THEN Tail(cs) ELSE cs
        IN IF body # <<>> /\ AllDigits(body) /\ Len(body) <= 9
           THEN [ok |-> TRUE, v |-> IF neg THEN 0 - NatOf(body, 0) ELSE NatOf(body, 0)]
           ELSE [ok |-> FALSE, v |-> 0]
RECURSIVE NatChars(_)
NatChars(n) == IF n < 10 THEN <<Digits[n + 1]>> ELSE Append(NatChars(n \div 10), Digits[(n % 10) + 1])
IntChars(n) == IF n < 0 THEN <<"-">> \o NatChars(0 - n) ELSE NatChars(n)

\* ---------------------------------------------------------------- split_args()
RECURSIVE SkipSeps(_)
SkipSeps(s) == IF s # <<>> /\ IsArgSep(Head(s)) THEN SkipSeps(Tail(s)) ELSE s
\* inside quotes: a backslash is erased and the character after it is taken literally
RECURSIVE ScanQuoted(_, _, _)
ScanQuoted(s, q, acc) ==
   IF s = <<>> THEN [ok |-> FALSE, tok |-> <<>>, rest |-> <<>>]                 \* unterminated
   ELSE IF Head(s) = q THEN [ok |-> TRUE, tok |-> acc, rest |-> Tail(s)]
   ELSE IF Head(s) = "\\" THEN
        (IF Len(s) = 1 THEN [ok |-> FALSE, tok |-> <<>>, rest |-> <<>>]
         ELSE ScanQuoted(Tail(Tail(s)), q, Append(acc, s[2])))
   ELSE ScanQuoted(Tail(s), q, Append(acc, Head(s)))
\* outside quotes the same rule applies (so "a\ b" is one argument, a trailing backslash is an error)
RECURSIVE ScanBare(_, _)
ScanBare(s, acc) ==
   IF s = <<>> \/ IsArgSep(Head(s)) THEN [ok |-> TRUE, tok |-> acc, rest |-> s]
   ELSE IF Head(s) = "\\" THEN
        (IF Len(s) = 1 THEN [ok |-> FALSE, tok |-> <<>>, rest |-> <<>>]
         ELSE ScanBare(Tail(Tail(s)), Append(acc, s[2])))
   ELSE ScanBare(Tail(s), Append(acc, Head(s)))
RECURSIVE Split(_, _)
Split(s, out) ==
   LET t == SkipSeps(s) IN
   IF t = <<>> \/ Head(t) = "#" THEN [args |-> out, warn |-> FALSE]
   ELSE IF Head(t) \in Quotes THEN
        LET r == ScanQuoted(Tail(t), Head(t), <<>>) IN
        IF ~r.ok THEN [args |-> <<>>, warn |-> TRUE]                                   \* unterminated quoted-string
        ELSE IF r.rest # <<>> /\ ~IsArgSep(Head(r.rest)) THEN [args |-> <<>>, warn |-> TRUE]   \* text following quoted-string
        ELSE Split(r.rest, Append(out, r.tok))
   ELSE LET r == ScanBare(t, <<>>) IN
        IF ~r.ok THEN [args |-> <<>>, warn |-> TRUE] ELSE Split(r.rest, Append(out, r.tok))
SplitArgs(line) == Split(line, <<>>)

\* ---------------------------------------------------------------- registry (parameter)
\* kind in {"bool","iarf","lineend","tokenpos","num","unum","string"}
\* The registry is a parameter R of the operators below: a function from option name to
\* [kind, bounded, min, max, def] (the abstract registry of Options.tla, or - per configuration line - the records
\* of the real options named on that line, attached to the trace event by the harness).
CONSTANTS TokenNames, LangNames(_)
\* LangNames(x): canonical language name for a (case-insensitive) language word, "" if unknown

BoolAlias(w) == CASE w \in {"true", "1", "t", "y", "yes"} -> "true"
                  [] w \in {"false", "0", "f", "n", "no"} -> "false"
                  [] OTHER -> ""
\* first match wins in the generated convert_string(): "f" is remove (not force), "1" is force
IarfAlias(w) == CASE w \in {"ignore", "i"} -> "ignore"
                  [] w \in {"add", "a", "2", "t", "true", "y", "yes"} -> "add"
                  [] w \in {"remove", "r", "0", "f", "false", "n", "no"} -> "remove"
                  [] w \in {"force", "1"} -> "force"
                  [] OTHER -> ""
LeAlias(w) == IF w \in {"lf", "crlf", "cr", "auto"} THEN w ELSE ""
TpAlias(w) == IF w \in {"ignore", "break", "force", "lead", "trail", "join", "lead_break", "lead_force",
                        "trail_break", "trail_force"} THEN w ELSE ""
EnumAlias(k, w) == CASE k = "bool" -> BoolAlias(w) [] k = "iarf" -> IarfAlias(w)
                     [] k = "lineend" -> LeAlias(w) [] k = "tokenpos" -> TpAlias(w) [] OTHER -> ""
IsNumKind(k) == k \in {"num", "unum"}
InRange(R, o, v) == ~R[o].bounded \/ (v >= R[o].min /\ v <= R[o].max)

\* state: val (name -> canonical value as characters), ival (integer view of the numeric options),
\* kw (set of <<token, word>>), ext (set of <<language, extension>>), diag (line numbers with a diagnostic)
\* Result of option o reading argument a (characters): new value, and whether a diagnostic is due instead
\* values are kept sparsely: only options that were assigned are in the domain
ValOf(R, val, o)  == IF o \in DOMAIN val THEN val[o] ELSE R[o].def
SetVal(val, o, v) == [x \in (DOMAIN val) \cup {o} |-> IF x = o THEN v ELSE val[x]]
ReadValue(R, val, o, a) ==
   LET k == R[o].kind
       low == LowerStr(a)
   IN IF k = "string" THEN [v |-> a, d |-> FALSE]
      ELSE IF k \in {"bool", "iarf", "lineend", "tokenpos"} THEN
           IF EnumAlias(k, low) # "" THEN [v |-> WordChars[EnumAlias(k, low)], d |-> FALSE]
           ELSE LET inv == k = "bool" /\ a # <<>> /\ Head(a) \in {"~", "!", "-"}
                    ref == IF inv THEN LowerStr(Tail(a)) ELSE low
                IN IF ref \in DOMAIN R THEN
                      (IF R[ref].kind # k THEN [v |-> <<>>, d |-> TRUE]                 \* incompatible reference
                       ELSE [v |-> IF inv THEN (IF ValOf(R, val, ref) = WordChars["true"] THEN WordChars["false"] ELSE WordChars["true"])
                                   ELSE ValOf(R, val, ref), d |-> FALSE])
                   ELSE [v |-> <<>>, d |-> TRUE]                                      \* unexpected value
      ELSE \* numbers given as numbers; references are handled by ReadNumRef
           LET n == StrToL(a) IN
           IF n.ok /\ InRange(R, o, n.v) THEN [v |-> IntChars(n.v), d |-> FALSE] ELSE [v |-> <<>>, d |-> TRUE]
IvalOf(R, ival, o) == IF o \in DOMAIN ival THEN ival[o] ELSE StrToL(R[o].def).v
ReadNumRef(R, ival, o, a) ==
   LET inv == a # <<>> /\ Head(a) = "-"
       ref == IF inv THEN LowerStr(Tail(a)) ELSE LowerStr(a)
       rv  == IF inv THEN 0 - IvalOf(R, ival, ref) ELSE IvalOf(R, ival, ref)
   IN IF InRange(R, o, rv) THEN [v |-> IntChars(rv), d |-> FALSE, iv |-> rv] ELSE [v |-> <<>>, d |-> TRUE, iv |-> 0]

\* dflt: the defaults of the options assigned so far (so that "non-default" needs no global registry)
St0 == [val |-> <<>>, ival |-> <<>>, dflt |-> <<>>, kw |-> {}, ext |-> {}, diag |-> <<>>, line |-> 0]
NonDefault(st) == {<<o, st.val[o]>> : o \in {x \in DOMAIN st.val : st.val[x] # st.dflt[x]}}

Diag(st) == [st EXCEPT !.diag = Append(@, st.line)]
RECURSIVE AddKw(_, _, _, _)
AddKw(st, tok, args, i) == IF i > Len(args) THEN st
                           ELSE AddKw([st EXCEPT !.kw = {p \in @ : p[2] # Str(args[i])} \cup {<<tok, Str(args[i])>>}], tok, args, i + 1)
RECURSIVE AddExt(_, _, _, _)
AddExt(st, lang, args, i) == IF i > Len(args) THEN st
                             ELSE AddExt([st EXCEPT !.ext = {p \in @ : p[2] # Str(args[i])} \cup {<<lang, Str(args[i])>>}], lang, args, i + 1)
\* "using MAJOR.MINOR[.PATCH]": the argument is split at dots (runs of dots count once, a part that starts with
\* '#' ends the list); two or three parts, each 1..4 digits
RECURSIVE DotParts(_, _, _)
DotParts(a, cur, out) ==
   IF a = <<>> THEN (IF cur = <<>> THEN out ELSE Append(out, cur))
   ELSE IF Head(a) = "." THEN DotParts(Tail(a), <<>>, IF cur = <<>> THEN out ELSE Append(out, cur))
   ELSE IF cur = <<>> /\ Head(a) = "#" THEN out
   ELSE DotParts(Tail(a), Append(cur, Head(a)), out)
IsVersion(a) ==
   LET ps == DotParts(a, <<>>, <<>>) IN
   /\ Len(ps) \in {2, 3}
   /\ \A i \in 1..Len(ps) : Len(ps[i]) <= 4 /\ AllDigits(ps[i])

\* process_option_line()
ProcessLine(R, st0, chars) ==
   LET st == [st0 EXCEPT !.line = @ + 1]
       sp == SplitArgs(chars)
       args == sp.args
   IN IF sp.warn THEN Diag(st)
      ELSE IF args = <<>> THEN st
      ELSE LET cmd == LowerStr(args[1]) IN
        IF cmd \in {"set", "file_ext"} /\ Len(args) < 3 THEN Diag(st)
        ELSE IF cmd \notin {"set", "file_ext"} /\ Len(args) < 2 THEN Diag(st)
        ELSE IF cmd = "type" THEN AddKw(st, "TYPE", args, 2)
        ELSE IF cmd = "macro-open" THEN AddKw(st, "MACRO_OPEN", <<args[2]>>, 1)
        ELSE IF cmd = "macro-close" THEN AddKw(st, "MACRO_CLOSE", <<args[2]>>, 1)
        ELSE IF cmd = "macro-else" THEN AddKw(st, "MACRO_ELSE", <<args[2]>>, 1)
        ELSE IF cmd = "set" THEN
             (IF UpperStr(args[2]) \in TokenNames THEN AddKw(st, UpperStr(args[2]), args, 3) ELSE Diag(st))
        ELSE IF cmd = "file_ext" THEN
             (IF LangNames(LowerStr(args[2])) # "" THEN AddExt(st, LangNames(LowerStr(args[2])), args, 3) ELSE Diag(st))
        ELSE IF cmd = "using" THEN (IF IsVersion(args[2]) THEN st ELSE Diag(st))
        ELSE IF cmd \notin DOMAIN R THEN Diag(st)                                       \* unknown option
        ELSE LET o == cmd
                 a == args[2]
                 r == ReadValue(R, st.val, o, a)
                 numref == /\ IsNumKind(R[o].kind) /\ ~StrToL(a).ok
                           /\ LET rf == IF a # <<>> /\ Head(a) = "-" THEN LowerStr(Tail(a)) ELSE LowerStr(a)
                              IN rf \in DOMAIN R /\ IsNumKind(R[rf].kind)
             IN IF numref THEN
                   LET nr == ReadNumRef(R, st.ival, o, a) IN
                   IF nr.d THEN Diag(st) ELSE [st EXCEPT !.val = SetVal(@, o, nr.v), !.ival = SetVal(@, o, nr.iv), !.dflt = SetVal(@, o, R[o].def)]
                ELSE IF r.d THEN Diag(st)
                ELSE IF IsNumKind(R[o].kind) THEN [st EXCEPT !.val = SetVal(@, o, r.v), !.ival = SetVal(@, o, StrToL(a).v), !.dflt = SetVal(@, o, R[o].def)]
                ELSE [st EXCEPT !.val = SetVal(@, o, r.v), !.dflt = SetVal(@, o, R[o].def)]

RECURSIVE LoadLines(_, _, _)
LoadLines(R, st, lines) == IF lines = <<>> THEN st ELSE LoadLines(R, ProcessLine(R, st, Head(lines)), Tail(lines))
=========================================================================
